"""Self-test: deliberately broken copies of /repo must be rejected by the checks (DESIGN 2.7).

Each mutant is applied to a scratch copy outside /repo and /verif, checked with PYVC_REPO pointing at
the copy, and the copy is removed.  Usage: tools/mutants.py [property ...]
"""
import os, shutil, subprocess, sys, tempfile

R = "python/lsst/daf/relation/"
MUTANTS = [
    # (property, file, old, new, description)
    ("C05", R + "_operations/_slice.py", "new_stop = min(self.stop, next.stop + self.start)", "new_stop = next.stop + self.start", "Slice.then drops min()"),
    ("C05", R + "_operations/_slice.py", "new_start = self.start + next.start", "new_start = next.start", "Slice.then ignores self.start"),
    ("C05", R + "_operations/_slice.py", "            new_start = new_stop\n", "            pass\n", "Slice.then clamp removed (F1 returns)"),
    ("C06", R + "_operations/_deduplication.py", "        if not target.columns:\n            return 1 if target.max_rows is None or target.max_rows >= 1 else 0\n", "", "Deduplication.applied_max_rows without the no-column case (still truthful: weaker bound) -- must NOT be flagged", ),
    ("C06", R + "_operations/_deduplication.py", "return 1 if target.min_rows >= 1 else 0", "return target.min_rows", "Deduplication.applied_min_rows keeps the full count"),
    ("C06", R + "_operations/_chain.py", "return lhs.min_rows + rhs.min_rows", "return max(lhs.min_rows, rhs.min_rows) + 1", "Chain.applied_min_rows too large"),
    ("C06", R + "_operations/_join.py", "return lhs.max_rows * rhs.max_rows", "return lhs.max_rows + rhs.max_rows", "Join.applied_max_rows uses +"),
    ("C06", R + "_operations/_slice.py", "        return max(stop - self.start, 0)\n\n    def applied_max_rows", "        return stop\n\n    def applied_max_rows", "Slice.applied_min_rows ignores start"),
    ("C06", R + "_relation.py", "return not self.columns and self.max_rows == 1 and (self.min_rows == 1)", "return not self.columns and self.max_rows == 1", "is_join_identity drops min_rows"),
    ("C06", R + "_relation.py", "return not self.columns and self.max_rows == 1 and self.min_rows == 1", "return not self.columns and self.max_rows == 1", "is_join_identity drops min_rows"),
    ("C06", R + "_operations/_projection.py", "    def applied_columns(self, target: Relation) -> Set[ColumnTag]:\n        # Docstring inherited.\n        return self.columns", "    def applied_columns(self, target: Relation) -> Set[ColumnTag]:\n        # Docstring inherited.\n        return target.columns", "Projection.applied_columns returns target columns"),
    ("C13", R + "_columns/_predicate.py", "            if (operand_as_trivial := operand.as_trivial()) is True:\n                return True\n            elif operand_as_trivial is None:\n                result = None", "            if (operand_as_trivial := operand.as_trivial()) is True:\n                return True\n            elif operand_as_trivial is None:\n                result = True", "LogicalOr.as_trivial True for unknown"),
    ("C13", R + "_columns/_predicate.py", "        return not operand_as_trivial", "        return operand_as_trivial", "LogicalNot.as_trivial without not"),
    ("C13", R + "_columns/_predicate.py", "                result.extend(nested_result)\n", "                pass\n", "flatten_logical_and skips extend"),
    ("C13", R + "_columns/_container.py", "return self.item.columns_required | self.container.columns_required", "return self.item.columns_required", "ColumnInContainer.columns_required forgets the container"),
    ("C13", R + "_columns/_predicate.py", "            if (operand_as_trivial := operand.as_trivial()) is False:\n                return False\n            elif operand_as_trivial is None:\n                result = None", "            if (operand_as_trivial := operand.as_trivial()) is False:\n                return False", "LogicalAnd.as_trivial ignores unknown operands"),
    ("C13", R + "_columns/_predicate.py", "            if value:\n                return []\n            else:\n                return False", "            if value:\n                return False\n            else:\n                return []", "flatten_logical_and swaps literal cases"),
    ("C13", R + "_columns/_predicate.py", "        elif len(operands) == 1:\n            return operands[0]\n        return LogicalAnd(operands)", "        elif len(operands) == 1:\n            return operands[0]\n        return LogicalOr(operands)", "logical_and builds an OR"),
    ("C16", R + "_diagnostics.py", "return cls(lhs_result.is_doomed and rhs_result.is_doomed, messages)", "return cls(lhs_result.is_doomed or rhs_result.is_doomed, messages)", "Diagnostics chain arm: or for and"),
    ("C16", R + "_diagnostics.py", "if not operation.is_empty_invariant and executor is not None and not executor(relation):", "if operation.is_empty_invariant and executor is not None and not executor(relation):", "Diagnostics: is_empty_invariant test inverted"),
    ("C16", R + "_diagnostics.py", "                        if limit == 0:", "                        if limit is None:", "Diagnostics dooms unlimited slices"),
    ("C16", R + "_diagnostics.py", "                    if not messages:\n                        messages.append(f\"Relation '{relation!s}' has no rows (static).\")\n", "", "Diagnostics forgets the default message"),
    ("C16", R + "_operations/_selection.py", "    def is_empty_invariant(self) -> bool:\n        # Docstring inherited.\n        return False", "    def is_empty_invariant(self) -> bool:\n        # Docstring inherited.\n        return True", "Selection claims to be empty-invariant"),
    ("C16", R + "_diagnostics.py", "                        if lhs_result.is_doomed or rhs_result.is_doomed:\n                            return cls(True, messages)\n", "", "Diagnostics join arm ignores doomed operands (equivalent: the executor branch still decides it) -- must NOT be flagged"),
    ("C19", R + "_engine.py", 'name = f"{prefix}_{self.relation_name_counter:04d}_{uuid.uuid4().hex}"', 'name = f"{prefix}_{self.relation_name_counter:04d}"', "get_relation_name drops the uuid"),
    ("C19", R + "_engine.py", 'name = f"{prefix}_{self.relation_name_counter:04d}_{uuid.uuid4().hex}"', 'name = f"{uuid.uuid4().hex}_{prefix}_{self.relation_name_counter:04d}"', "get_relation_name puts the uuid before the prefix"),
    ("C19", R + "_leaf_relation.py", 'object.__setattr__(self, "name", self.engine.get_relation_name(name_prefix))', 'object.__setattr__(self, "name", name_prefix)', "leaf name is just the prefix"),
    ("C19", R + "_leaf_relation.py", 'object.__setattr__(self, "name", self.engine.get_relation_name(name_prefix))', 'object.__setattr__(self, "name", self.engine.get_relation_name())', "leaf name ignores the requested prefix"),
    ("C10", R + "_marker_relation.py", "        if self.payload is None:\n            object.__setattr__(self, \"payload\", payload)\n        else:", "        if True:\n            object.__setattr__(self, \"payload\", payload)\n        else:", "attach_payload drops the None test"),
    ("C10", R + "_marker_relation.py", "        if self.payload is None:\n            object.__setattr__(self, \"payload\", payload)", "        if self.payload is None:\n            object.__setattr__(self, \"payload\", payload)\n            object.__setattr__(self.target, \"payload\", payload)", "attach_payload also writes the target's payload"),
    ("C10", R + "_relation.py", "        raise TypeError(f\"Cannot attach payload {payload} to relation {self}.\")", "        if payload is None:\n            raise TypeError(f\"Cannot attach payload {payload} to relation {self}.\")", "BaseRelation.attach_payload accepts non-None"),
    ("C10", R + "_processor.py", "                original.attach_payload(payload)\n                if result is not original:", "                object.__setattr__(original, \"payload\", payload)\n                if result is not original:", "Processor writes a payload bypassing attach_payload"),
    ("C04", R + "_operations/_selection.py", "        if current.operation.is_count_dependent:\n            return UnaryCommutator(\n                first=None,\n                second=current.operation,\n                done=False,\n                messages=(f\"{current.operation} is count-dependent\",),\n            )\n        return UnaryCommutator(self, current.operation)", "        return UnaryCommutator(self, current.operation)", "Selection.commute drops the count-dependence guard"),
    ("C04", R + "_operations/_selection.py", "        if not self.columns_required <= current.target.columns:\n            return UnaryCommutator(\n                first=None,\n                second=current.operation,\n                done=False,\n                messages=(\n                    f\"{current.target} is missing columns \"\n                    f\"{set(self.columns_required - current.target.columns)}\",\n                ),\n            )\n        if current.operation.is_count_dependent:", "        if current.operation.is_count_dependent:", "Selection.commute drops the missing-columns guard"),
    ("C04", R + "_operations/_projection.py", "                    commuted_columns -= {tag}", "                    pass", "Projection.commute forgets to drop the calculated tag"),
    ("C04", R + "_operations/_calculation.py", "Projection(current.operation.columns | {self.tag})", "Projection(current.operation.columns)", "Calculation.commute forgets to keep its tag in the projection"),
    ("C04", R + "_operations/_slice.py", "            case Projection() | Calculation():\n                return UnaryCommutator(first=self, second=current.operation)", "            case Projection() | Calculation() | Selection():\n                return UnaryCommutator(first=self, second=current.operation)", "Slice commutes with Selection"),
    ("C04", R + "_operations/_slice.py", "    def is_count_dependent(self) -> bool:\n        # Docstring inherited.\n        return True", "    def is_count_dependent(self) -> bool:\n        # Docstring inherited.\n        return False", "Slice.is_count_dependent flipped"),
    ("C04", R + "_operations/_deduplication.py", "        if not current.columns >= current.target.columns:", "        if False:", "Deduplication.commute drops the column-change guard"),
    ("C04", R + "_unary_operation.py", "        return UnaryCommutator(\n            first=None,\n            second=current.operation,\n            done=False,\n            messages=(f\"{self} does not commute with anything\",),\n        )", "        return UnaryCommutator(\n            first=None,\n            second=self,\n            done=False,\n            messages=(f\"{self} does not commute with anything\",),\n        )", "base commute hands back the wrong operation (only custom ops use it) -- must NOT be flagged"),
    ("C05", R + "_operations/_selection.py", "return Selection(predicate=other_predicate.logical_and(self.predicate))", "return Selection(predicate=self.predicate)", "Selection.simplify keeps only the new predicate"),
    ("C05", R + "_operations/_projection.py", "            case Calculation(tag=tag) if tag not in self.columns:\n                return self", "            case Calculation(tag=tag):\n                return self", "Projection.simplify drops a calculation it still needs"),
    ("C05", R + "_operations/_sort.py", "        new_terms = list(next.terms)\n        for term in self.terms:", "        new_terms = list(self.terms)\n        for term in next.terms:", "Sort.then puts the earlier sort's terms first"),
    ("C05", R + "_unary_operation.py", "                    if simplified is target.operation:\n                        return target\n                    else:\n                        return simplified._finish_apply(target.target)", "                    if simplified is target.operation:\n                        return target\n                    else:\n                        return simplified._finish_apply(target)", "_finish_apply applies the merged operation on top of the old node"),
    ("C03", R + "iteration/_engine.py", "        if tree.is_locked:\n            return tree, False, (f\"{tree} is locked\",)\n", "", "backtrack_unary ignores is_locked"),
    ("C03", R + "iteration/_engine.py", "                        done and commutator.done,", "                        done,", "backtrack_unary reports done when the commutation was only partial"),
    ("C03", R + "iteration/_engine.py", "                        result = commutator.second._finish_apply(upstream)", "                        result = commutator.second._finish_apply(target)", "backtrack_unary rebuilds on the old target"),
    ("C03", R + "iteration/_engine.py", "                    if upstream is not target or (done and commutator.second is not tree.operation):", "                    if upstream is not target:", "F18 returns (node with replaced operation kept)"),
    ("C03", R + "iteration/_engine.py", "                    if upstream is target:\n                        # Nothing was inserted: keep this transfer (and any\n                        # payload already attached to it) as it is.\n                        return (tree, done, messages)\n", "", "F20 returns (payload-less transfer rebuilt)"),
    ("C03", R + "_unary_operation.py", "        operation, preferred_engine = self._begin_apply(target, preferred_engine)\n        done = False", "        operation, preferred_engine = self, (preferred_engine if preferred_engine is not None else target.engine)\n        done = False", "apply skips _begin_apply validation"),
    ("C14", R + "_unary_operation.py", "        if not self.is_supported_by(target.engine):\n            raise EngineError(f\"Operation {self} is not supported by engine {target.engine}.\")\n", "", "_finish_apply no longer checks engine support"),
    ("C14", R + "_engine.py", "        if target.engine == self:\n            if payload is not None:", "        if False:\n            if payload is not None:", "Engine.transfer builds a self-transfer"),
    ("C14", R + "_operations/_join.py", "        if lhs.engine != rhs.engine:\n            raise EngineError(f\"Mismatched join engines: {lhs.engine} != {rhs.engine}.\")\n", "", "Join._finish_apply no longer checks engines"),
    ("C14", R + "_operations/_chain.py", "        if lhs.engine != rhs.engine:\n            raise EngineError(f\"Mismatched chain engines: {lhs.engine} != {rhs.engine}.\")\n", "", "Chain._begin_apply no longer checks engines"),
    ("C15", R + "_transfer.py", "        if target.is_locked:\n            return None\n", "", "Transfer.simplify looks through locked relations"),
    ("C15", R + "_materialization.py", "                if target.engine == new_target.engine:\n                    return cls.simplify(new_target)", "                return cls.simplify(new_target)", "Materialization.simplify looks through transfers (still only claims leaf/materialization/marker) -- must NOT be flagged"),
    ("C15", R + "_engine.py", "        if Materialization.simplify(target):\n            return target\n", "", "Engine.materialize re-materializes leaves"),
    ("C20", R + "_operations/_calculation.py", "        if self.tag in target.columns:\n            raise ColumnError(f\"Calculated column {self.tag} is already present in {target}.\")\n", "", "Calculation._begin_apply accepts an existing tag"),
    ("C20", R + "_operations/_projection.py", "        if not self.columns <= target.columns:", "        if not self.columns <= target.columns and False:", "Projection._begin_apply accepts missing columns"),
    ("C20", R + "_relation.py", "        if key.step not in (1, None):", "        if key.step not in (1, 2, None):", "__getitem__ accepts step 2"),
    ("C20", R + "_operations/_slice.py", "        if self.stop is not None and self.stop < self.start:", "        if self.stop is not None and self.stop < self.start - 1:", "Slice accepts a reversed window"),
    ("C20", R + "_operations/_chain.py", "        if lhs.columns != rhs.columns:", "        if not lhs.columns <= rhs.columns:", "Chain accepts operands with different columns"),
    ("C06", R + "_operations/_join.py", "        if self.predicate.as_trivial() is True:\n            # Joining to the join identity is only a no-op when there is no\n            # join predicate left to apply.\n            if lhs.is_join_identity:", "        if True:\n            if lhs.is_join_identity:", "join-identity elision drops the predicate again (_begin_apply)"),
    ("C06", R + "_operations/_join.py", "        if self.predicate.as_trivial() is True:\n            if lhs.is_join_identity:\n                return rhs", "        if True:\n            if lhs.is_join_identity:\n                return rhs", "join-identity elision drops the predicate again (_finish_apply)"),
    ("C09", R + "sql/_engine.py", "                        result = self.to_payload(target).copy()\n                        result.columns_available[tag]", "                        result = self.to_payload(target)\n                        result.columns_available[tag]", "to_payload mutates the target's payload (no copy)"),
    ("C09", R + "_diagnostics.py", "                messages = list(messages)\n", "", "Diagnostics appends to the leaf's own message list"),
    ("C09", R + "_operations/_calculation.py", "        result = set(target.columns)\n        result.add(self.tag)", "        result = target.columns\n        result.add(self.tag)", "Calculation.applied_columns mutates the target's column set"),
    ("C09", R + "sql/_payload.py", "where=list(self.where)", "where=self.where", "Payload.copy shares the where list"),
    ("C09", R + "_operations/_sort.py", "@dataclasses.dataclass(frozen=True)\nclass SortTerm:", "@dataclasses.dataclass\nclass SortTerm:", "SortTerm no longer frozen (F2 returns)"),
    ("C09", R + "_columns/_container.py", "return ColumnExpressionSequence(tuple(items), dtype)", "return ColumnExpressionSequence(items, dtype)", "sequence() stores the caller's list (F3 returns)"),
    ("C09", R + "_marker_relation.py", "        return dataclasses.replace(self, target=target, payload=payload)", "        object.__setattr__(self, \"target\", target)\n        return self", "reapply mutates the marker in place"),
    ("C01", R + "iteration/_engine.py", "                        return ProjectionRowIterable(target_rows, columns)", "                        return target_rows", "execute ignores projections"),
    ("C01", R + "iteration/_engine.py", "        if relation.max_rows == 0:\n            return RowSequence([])", "        if relation.min_rows == 0:\n            return RowSequence([])", "execute short-circuits on min_rows == 0"),
    ("C01", R + "iteration/_engine.py", "                        return ChainRowIterable([self.execute(lhs), self.execute(rhs)])", "                        return ChainRowIterable([self.execute(rhs), self.execute(lhs)])", "execute chains the operands in the wrong order"),
    ("C01", R + "iteration/_engine.py", "                        return target_rows.sliced(start, stop)", "                        return target_rows.sliced(start, None)", "execute ignores the slice stop"),
    ("C01", R + "iteration/_engine.py", "for ascending, callables in grouped_by_ascending[::-1]:", "for ascending, callables in grouped_by_ascending:", "sort passes applied in the wrong order (bounded stand-in)"),
    ("C01", R + "iteration/_row_iterable.py", "            if self.stop is not None and n == self.stop:", "            if self.stop is not None and n > self.stop:", "SliceRowIterable yields one row too many (bounded stand-in)"),
    ("C01", R + "iteration/_engine.py", "return lambda row: all(c(row) for c in operand_callables)", "return lambda row: any(c(row) for c in operand_callables)", "convert_predicate turns AND into OR (bounded stand-in)"),
    ('C17', R + 'sql/_select.py', '            target = sort._finish_apply(target)\n        if projection is not None:\n            target = projection._finish_apply(target)', '            target = sort._finish_apply(target)\n        if projection is not None:\n            target = projection._finish_apply(skip_to)', 'apply_skip stacks the projection on the skip target instead of the sorted target'),
    ('C17', R + 'sql/_select.py', '            case BinaryOperationRelation(operation=Chain()):\n                is_compound = True', '            case BinaryOperationRelation():\n                is_compound = True', 'apply_skip flags every binary skip target as compound'),
    ('C17', R + 'sql/_select.py', '        if not self.has_deduplication and not self.has_sort and not self.has_slice:\n            return self.skip_to, self.has_projection', '        if not self.has_deduplication and not self.has_sort:\n            return self.skip_to, self.has_projection', 'strip ignores a recorded slice'),
    ('C17', R + 'sql/_select.py', '        if target is self.target:\n            return self', '        if target.columns == self.target.columns:\n            return self', 'Select.reapply keeps the old marker when only the columns agree'),
    ('C17', R + 'sql/_engine.py', '                conformed_target = self.conform(target)\n                return self._append_unary_to_select(operation, conformed_target)\n            case BinaryOperationRelation', '                conformed_target = self.conform(target)\n                return conformed_target\n            case BinaryOperationRelation', 'conform drops unary operations of raw trees'),
    ('C17', R + 'sql/_engine.py', '            case Selection():\n                if select.has_slice:', '            case Selection():\n                if False:', 'selection is pushed below an existing slice'),
    ('C17', R + 'sql/_engine.py', '                if not select.has_deduplication:\n                    if select.has_slice:', '                if not select.has_deduplication:\n                    if False:', 'deduplication is merged below an existing slice'),
    ('C17', R + 'sql/_engine.py', '            case Sort():\n                if select.has_slice:', '            case Sort():\n                if False:', 'sort is merged below an existing slice'),
    ('C17', R + 'sql/_engine.py', '                return select.reapply_skip(slice=select.slice.then(operation))', '                return select.reapply_skip(slice=operation.then(select.slice))', 'slices merged in the wrong order'),
    ('C17', R + 'sql/_engine.py', '                    projection = Projection(frozenset(lhs.columns | rhs.columns))', '                    projection = Projection(frozenset(lhs.columns))', "hoisted join projection keeps only the left operand's columns"),
    ('C17', R + 'sql/_engine.py', '                if lhs.has_slice:\n                    lhs = Select.apply_skip(lhs)\n                if rhs.has_slice:\n                    rhs = Select.apply_skip(rhs)\n                return Select.apply_skip(operation._finish_apply(lhs, rhs))', '                return Select.apply_skip(operation._finish_apply(lhs, rhs))', 'chain operands with slices are no longer nested (relationally equivalent: rows unchanged) -- must NOT be flagged'),
    ('C17', R + 'sql/_engine.py', '                elif select.has_projection:\n                    return select.reapply_skip(\n                        after=operation,\n                        projection=Projection(frozenset(select.columns | {tag})),\n                    )', '                elif select.has_projection:\n                    return select.reapply_skip(after=operation)', 'calculation below a projection is projected away again'),
    ('C17', R + 'sql/_engine.py', '        return self.conform(super().transfer(target, payload))', '        return Select.apply_skip(super().transfer(target, payload))', 'sql transfer wraps without conforming (F15 returns)'),
    ('C17', R + 'sql/_engine.py', '                if select.is_compound or tag in select.skip_to.columns:', '                if select.is_compound:', 'F24 returns'),
    ('C17', R + 'sql/_engine.py', '                if new_rhs_needs_projection and not (new_rhs.columns - rhs.columns).isdisjoint(new_lhs.columns):', '                if False:', 'F7-sql returns'),
    ("C18", R + "iteration/_engine.py", "                        return ProjectionRowIterable(target_rows, columns)", "                        return ProjectionRowIterable(target_rows.materialized(), columns)", "projection arm materializes its input at execute time"),
    ("C18", R + "iteration/_engine.py", "                        return ChainRowIterable([self.execute(lhs), self.execute(rhs)])", "                        return ChainRowIterable([self.execute(lhs).materialized(), self.execute(rhs)])", "chain arm materializes its first operand"),
    ("C18", R + "iteration/_engine.py", "                        return target_rows.sliced(start, stop)", "                        return target_rows.materialized().sliced(start, stop)", "slice arm materializes its input"),
    ("C18", R + "iteration/_engine.py", "                        return SelectionRowIterable(target_rows, self.convert_predicate(predicate))", "                        return SelectionRowIterable(target_rows.to_mapping(()), self.convert_predicate(predicate))", "selection arm consumes its input through to_mapping"),
    ("C18", R + "iteration/_row_iterable.py", "        return itertools.chain.from_iterable(self.chain)", "        return itertools.chain.from_iterable([list(c) for c in self.chain] and self.chain)", "ChainRowIterable iterates every operand twice per pass"),
    ("C18", R + "iteration/_engine.py", "                        rows_list = list(target_rows)", "                        rows_list = list(target_rows)\n                        rows_list = list(target_rows)", "sort arm iterates its input twice"),
    ("C07", R + "_processor.py", "                    payload = self.transfer(new_target, destination, materialize_as)", "                    payload = self.transfer(target, destination, materialize_as)", "transfer hook invoked on the unprocessed target"),
    ("C07", R + "_processor.py", "                result = original.reapply(new_target, payload)\n                return result, materialize_as is not None", "                original.attach_payload(payload)\n                return original, materialize_as is not None", "processor attaches the payload to the input transfer"),
    ("C07", R + "_processor.py", "                    if new_lhs.max_rows == 0:\n                        return new_rhs, rhs_persisted", "                    if new_lhs.max_rows == 0:\n                        return new_lhs, lhs_persisted", "chain pruning returns the empty branch"),
    ("C07", R + "_processor.py", "                if new_target is not target:\n                    return operation.apply(new_target), False", "                if new_target is not target:\n                    return operation.apply(target), False", "unary arm re-applies to the unprocessed target"),
    ("C07", R + "_processor.py", "                elif original.is_join_identity:\n                    payload = target.engine.get_join_identity_payload()\n                elif original.max_rows == 0:", "                elif original.max_rows == 0:", "materialize hook invoked for a join identity"),
    ("C07", R + "_processor.py", "                return original.reapply(new_target), persisted", "                return original, persisted", "marker arm returns the unprocessed marker"),
    ("C07", R + "_processor.py", "                if new_lhs is not lhs or new_rhs is not rhs:\n                    return operation.apply(new_lhs, new_rhs), False", "                if new_lhs is not lhs:\n                    return operation.apply(new_lhs, new_rhs), False", "binary arm forgets a processed right operand"),
    ("C07", R + "_processor.py", "                if original.is_join_identity:\n                    payload = destination.get_join_identity_payload()\n                    new_target = target\n                elif original.max_rows == 0:", "                if original.max_rows == 0:", "transfer hook invoked for a join identity"),
    ("C10", R + "_processor.py", "        if original.payload is not None:\n            return original, True\n", "", "processor re-processes nodes that already carry a payload"),
    ("C10", R + "_processor.py", "                original.attach_payload(payload)\n                if result is not original:", "                if result is not original:", "processed materialization never receives its payload"),
    ("C10", R + "iteration/_engine.py", "        if (result := relation.payload) is not None:\n            return result\n", "", "execute ignores an existing payload (re-evaluates materializations)"),
    ("C10", R + "iteration/_engine.py", "                relation.attach_payload(result)\n", "", "execute does not cache a materialization"),
    ("C10", R + "iteration/_engine.py", "                result = self.execute(target).materialized()\n                relation.attach_payload(result)", "                result = self.execute(target).materialized()\n                target.attach_payload(result)", "execute attaches the payload to the wrong node"),
    ("C12", R + "sql/_engine.py", "                        stop_inclusive = stop_exclusive - 1", "                        stop_inclusive = stop_exclusive", "range stop treated as inclusive"),
    ("C12", R + "sql/_engine.py", "                                return sqlalchemy.sql.and_(*[target, remainder])", "                                return target", "range step ignored"),
    ("C12", R + "sql/_engine.py", "                    return sqlalchemy.sql.and_(\n                        *[self.convert_predicate(operand, columns_available) for operand in operands]\n                    )", "                    return sqlalchemy.sql.or_(\n                        *[self.convert_predicate(operand, columns_available) for operand in operands]\n                    )", "AND translated as OR"),
    ("C12", R + "sql/_engine.py", "                return sqlalchemy.sql.not_(self.convert_predicate(operand, columns_available))", "                return self.convert_predicate(operand, columns_available)", "NOT dropped"),
    ("C12", R + "sql/_engine.py", "                        if step < 0:\n                            if start <= stop_exclusive:\n                                return sqlalchemy.sql.literal(False)", "                        if step < 0:\n                            if start < stop_exclusive:\n                                return sqlalchemy.sql.literal(False)", "empty descending range test off by one"),
    ("C12", R + "sql/_engine.py", "                                if start >= 0:\n                                    remainder", "                                if True:\n                                    remainder", "negative start uses the truncating remainder again (F12)"),
    ("C12", R + "sql/_engine.py", "            case ColumnReference(tag=tag):\n                return columns_available[tag]", "            case ColumnReference(tag=tag):\n                return self.convert_column_literal(0)", "column reference replaced by a literal"),
]


def main():
    props = set(sys.argv[1:])
    src = os.environ.get("MUT_SRC", "/repo")
    killed = survived = skipped = 0
    for i, (prop, f, old, new, desc) in enumerate(MUTANTS):
        if props and prop not in props:
            continue
        d = tempfile.mkdtemp(prefix="pyvc_mut_")
        try:
            shutil.copytree(os.path.join(src, "python"), os.path.join(d, "python"), ignore=shutil.ignore_patterns("__pycache__", "*.egg-info"))
            p = os.path.join(d, f)
            s = open(p).read()
            if "_slice.py" in f and "Selection()" in new and "from ._selection import Selection" not in s:
                s = s.replace("        from ._projection import Projection\n\n        match current.operation:", "        from ._projection import Projection\n        from ._selection import Selection\n\n        match current.operation:")
            if old not in s:
                print(f"SKIP   {prop} #{i} {desc}: pattern not found")
                skipped += 1
                continue
            open(p, "w").write(s.replace(old, new, 1))
            r = subprocess.run(["./check", prop], cwd=os.path.dirname(os.path.dirname(os.path.abspath(__file__))), capture_output=True, text=True,
                               env={**os.environ, "PYVC_REPO": d})
            expect_clean = "must NOT be flagged" in desc
            ok = (r.returncode == 0) if expect_clean else (r.returncode == 1)
            tag = ("CLEAN-OK" if expect_clean else "KILLED") if ok else ("FALSE-ALARM" if expect_clean else f"SURVIVED(exit {r.returncode})")
            print(f"{tag:10s} {prop} #{i} {desc}")
            if not ok:
                print("   ", "\n    ".join(r.stdout.strip().splitlines()[-4:]))
                survived += 1
            else:
                killed += 1
        finally:
            shutil.rmtree(d, ignore_errors=True)
    print(f"mutants: {killed} ok, {survived} not ok, {skipped} skipped")
    return 1 if survived else 0


if __name__ == "__main__":
    sys.exit(main())
