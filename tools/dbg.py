"""Development helper: dump one obligation (path condition + goal) of a function.  usage: tools/dbg.py <modules> <key> <label substring> [path substring]"""
import sys
sys.path.insert(0, "/verif")
import z3
from pyvc.frontend import Repo
from pyvc.contracts import Registry
from pyvc import verify as VV
from spec.vocab import Spec

mods, key, lab = sys.argv[1].split(","), sys.argv[2], sys.argv[3]
pathsub = sys.argv[4] if len(sys.argv) > 4 else ""
reg = Registry(); reg.load(*mods)
v = VV.Verifier(Repo(), reg, Spec)
captured = []
orig = v.discharge_all
def grab(ex, obls, key, env):
    captured.extend((ex, o) for o in obls)
    return []
v.discharge_all = grab
v.verify_function(key)
for ex, o in captured:
    if lab in o.label and pathsub in ";".join(o.path):
        print("=== ", o.label, ";".join(o.path))
        for f in o.pc:
            txt = str(f)
            print("PC:", txt[:600].replace("\n", " "))
        print("GOAL:", str(o.goal)[:1500])
        import pickle
        s = z3.Solver(); s.set("timeout", 10000); s.set("auto_config", False); s.set("smt.mbqi", False)
        for a in ex.spec.axioms(): s.add(a)
        from pyvc import smt
        for a in smt.seq_axioms(): s.add(a)
        for f in o.pc: s.add(f)
        s.add(z3.Not(o.goal))
        print("check:", s.check())
        open("/tmp/dbg.smt2", "w").write(s.to_smt2())
        break
# extra experiments when DBG_EXP is set
import os, time
if os.environ.get("DBG_EXP"):
    for ex, o in captured:
        if lab in o.label and pathsub in ";".join(o.path):
            def run(tag, axioms, cfg):
                s = z3.Solver(); s.set("timeout", 20000)
                for k2, v2 in cfg.items(): s.set(k2, v2)
                for a in axioms: s.add(a)
                for f in o.pc: s.add(f)
                s.add(z3.Not(o.goal))
                t = time.time(); r = s.check(); print(tag, r, round(time.time() - t, 2), s.reason_unknown() if r == z3.unknown else "")
            full = list(ex.spec.axioms()) + list(smt.seq_axioms())
            exp = list(ex.spec.expression_axioms())
            run("full/default", full, {})
            run("full/nombqi", full, {"auto_config": False, "smt.mbqi": False})
            run("expr-axioms-only/nombqi", exp, {"auto_config": False, "smt.mbqi": False})
            run("expr-axioms-only/default", exp, {})
            run("expr-axioms-only/nombqi/arith6", exp, {"auto_config": False, "smt.mbqi": False, "smt.arith.solver": 6})
            run("expr-axioms-only/nombqi/arith2", exp, {"auto_config": False, "smt.mbqi": False, "smt.arith.solver": 2})
            break
