"""Confirm a seeded property-breaking change and run the property's check against it.

usage: tools/seedtest.py <property> <dir with patch.diff demo.py meta.json> [name]
Applies the patch to /repo (git apply), runs the 82-test suite, the demo and ./check <property>, then undoes the
patch (git checkout -- .) and re-runs the demo.  Keeps the change under /verif/seeded/<name>/ with the results.
"""
import json, os, shutil, subprocess, sys

prop, src = sys.argv[1], sys.argv[2]
name = sys.argv[3] if len(sys.argv) > 3 else prop
dst = f"/verif/seeded/{name}"
os.makedirs(dst, exist_ok=True)
for f in ("patch.diff", "demo.py", "meta.json"):
    if os.path.abspath(src) != os.path.abspath(dst):
        shutil.copy(os.path.join(src, f), os.path.join(dst, f))
env = {**os.environ, "PYTHONPATH": "/repo/python"}
def run(cmd, **kw):
    return subprocess.run(cmd, shell=True, capture_output=True, text=True, **kw)
res = {}
assert run("git -C /repo status --porcelain --untracked-files=no").stdout.strip() == "", "/repo not clean"
r = run(f"git -C /repo apply {dst}/patch.diff")
if r.returncode != 0:
    # seeded on an older base: try 3-way
    r = run(f"git -C /repo apply --3way {dst}/patch.diff")
res["applies"] = r.returncode == 0
try:
    if res["applies"]:
        t = run("cd /repo && /venv/bin/python -m pytest -q -p no:cacheprovider tests 2>&1 | tail -1")
        res["tests"] = t.stdout.strip()
        d = run(f"/venv/bin/python {dst}/demo.py", env=env)
        res["demo_with_change_exit"] = d.returncode
        c = run(f"cd /verif && ./check {prop}")
        res["check_exit"] = c.returncode
        res["check_lines"] = [l[:400] for l in c.stdout.splitlines() if l.startswith(("VIOLATION", "UNDECIDED", "CHECKER", prop))]
finally:
    run("git -C /repo checkout -- . && git -C /repo reset -q")
d = run(f"/venv/bin/python {dst}/demo.py", env=env)
res["demo_without_change_exit"] = d.returncode
res["confirmed"] = bool(res.get("applies") and "82 passed" in res.get("tests", "") and res.get("demo_with_change_exit") != 0 and res["demo_without_change_exit"] == 0)
res["caught"] = res.get("check_exit") == 1
m = json.load(open(f"{dst}/meta.json"))
m["verification"] = res
json.dump(m, open(f"{dst}/meta.json", "w"), indent=1)
print(json.dumps(res, indent=1))
