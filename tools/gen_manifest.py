"""Regenerate MANIFEST.json from runner/props.py (claimed) and the not-applicable table."""
import json, sys, os
sys.path.insert(0, os.path.dirname(os.path.dirname(os.path.abspath(__file__))))
from runner.props import PROPS, CLAIMED, NOT_CLAIMED

ids = [json.loads(l)["id"] for l in open("/verif/properties.jsonl")]
m = {
    "version": 1,
    "setup_cmd": "sh lean/check.sh > lean/PROVED.tmp 2> lean/check.err; mkdir -p lean/build; mv lean/PROVED.tmp lean/build/PROVED.txt; grep -c PROVED lean/build/PROVED.txt || true",
    "hooks": {
        "guard": "LSST_DAF_RELATION_VERIF",
        "enable": "no hooks: contracts are sidecar files under /verif/contracts; /repo is read (re-parsed on every run), never instrumented",
        "baseline_off_cmd": "cd /repo && /venv/bin/python -m pytest -ra -q -p no:cacheprovider --timeout=900 --continue-on-collection-errors",
        "source_commits": [],
        "add_only": True,
    },
    "engines": [
        {"name": "pyvc", "path": "pyvc/", "serves_properties": sorted(CLAIMED),
         "kind_free_text": "home-built contract verifier: re-parses /repo with ast on every run, forward symbolic execution of the real function bodies against sidecar contracts (contracts/), obligations discharged by z3 (E-matching over the law library in spec/laws.py)"},
    ],
    "checks": [],
    "notes": "See DESIGN.md. Exit codes of ./check: 0 held, 1 violation, 2 undecided, 3 checker fault.",
    "not_applicable": [],
}
for pid in ids:
    if pid in CLAIMED:
        c = PROPS[pid]
        m["checks"].append({
            "property_id": pid,
            "quick_cmd": f"./check {pid} --tier quick",
            "thorough_cmd": f"./check {pid} --tier thorough",
            "evidence_file": f"evidence/{pid}.json",
            "replay_cmd_template": f"./check {pid} --replay {{path}}",
            "engine": "pyvc",
            "level_claimed": {"category": "proof", "text": c["level_text"], "design_ref": c.get("design_ref", "DESIGN.md section 4")},
            "level_note": c["level_note"],
            "technique": c.get("technique", "contract-based deductive verification: sidecar pre/postconditions and invariants on the real functions, VCs generated from the current AST, discharged by z3"),
        })
    else:
        m["not_applicable"].append({"property_id": pid, "reason": NOT_CLAIMED.get(pid, "check not built yet (planned, see DESIGN.md section 4); not claimed in this commit")})
json.dump(m, open("/verif/MANIFEST.json", "w"), indent=1)
print("claimed:", sorted(CLAIMED))
