"""Development helper: dependency closure of a property's check (dry run: symbolic execution only, nothing discharged)."""
import sys, time
sys.path.insert(0, "/verif")
import multiprocessing as mp
from pyvc.frontend import Repo
from pyvc.verify import Verifier, expand_keys, closure_keys
from runner.main import build_registry
from runner.props import PROPS
from spec.vocab import Spec

V = None
def work(key):
    res, meta = V.verify_function(key)
    return key, meta.get("contracts_used", []), meta.get("error"), meta.get("seconds")

def main():
    global V
    pid = sys.argv[1]
    cfg = PROPS[pid]
    repo = Repo(); reg = build_registry(cfg["modules"])
    V = Verifier(repo, reg, Spec); V.dry_run = True; V.only_clauses = cfg.get("only_clauses")
    keys = expand_keys(repo, reg, pid)
    for dep in cfg.get("depends", []):
        keys += [k for k in expand_keys(repo, reg, dep) if k not in keys]
    done = set(); rnd = 0; queue = list(keys)
    while queue:
        t0 = time.time()
        with mp.get_context("fork").Pool(16) as pool:
            out = pool.map(work, queue)
        done |= set(queue)
        used = sorted({u for _, us, _, _ in out for u in us})
        new = [k for k in closure_keys(repo, reg, used) if k not in done]
        print(f"round {rnd}: verified {len(queue)} functions in {time.time()-t0:.1f}s (symbolic execution only); new: {len(new)}")
        for k in new: print("   +", k, "  props:", reg.contracts[k].properties if k in reg.contracts else "?")
        for k, _, err, sec in sorted(out, key=lambda x: -(x[3] or 0))[:6]: print("   slow:", k, sec, (err or "")[:80])
        queue = new; rnd += 1
    print("total", len(done))
main()
