"""Development helper: verify one or more contract keys and print every obligation."""
import sys, importlib, json
sys.path.insert(0, "/verif")
from pyvc.frontend import Repo
from pyvc.contracts import Registry
from pyvc.verify import Verifier
from spec.vocab import Spec

def main():
    mods = sys.argv[1].split(",")
    keys = sys.argv[2:]
    reg = Registry()
    reg.load(*mods)
    v = Verifier(Repo(), reg, Spec)
    v.inner_jobs = 16
    from pyvc.verify import expand_keys
    allk=[]
    for pid in sorted({p for c in reg.contracts.values() for p in c.properties}):
        for k2 in expand_keys(v.repo, reg, pid):
            if k2 not in allk: allk.append(k2)
    for key in (keys or allk):
        if key.startswith("attr:"):
            continue
        res, meta = v.verify_function(key)
        print("==", key, {k: meta[k] for k in ("paths", "seconds", "error") if k in meta})
        for r in res:
            print("  ", r.status, r.clause, "|", r.path[-80:], r.seconds, r.reason[:200] if r.status != "proved" else "")
            if r.info.get("failing_conjuncts"):
                for fc in r.info["failing_conjuncts"]: print("      failing:", fc.replace("\n"," "))
            if r.status == "refuted":
                print("      model:", {k: v for k, v in (r.model or {}).items() if not k.startswith("H0")})
main()
