"""Development helper: verify one or more contract keys and print every obligation."""
import sys, importlib, json
sys.path.insert(0, "/verif")
from pyvc.frontend import Repo
from pyvc.contracts import Registry
from pyvc.verify import Verifier
from spec.vocab import Spec

def main():
    mods = sys.argv[1].split(",")
    keys = sys.argv[2:]
    reg = Registry()
    for m in mods:
        importlib.import_module("contracts." + m).register(reg)
    v = Verifier(Repo(), reg, Spec)
    for key in (keys or list(reg.contracts)):
        if key.startswith("attr:"):
            continue
        res, meta = v.verify_function(key)
        print("==", key, {k: meta[k] for k in ("paths", "seconds", "error") if k in meta})
        for r in res:
            print("  ", r.status, r.clause, "|", r.path[-80:], r.seconds, r.reason[:200] if r.status != "proved" else "")
            if r.status == "refuted":
                print("      model:", {k: v for k, v in (r.model or {}).items() if not k.startswith("H0")})
main()
