"""Development helper: apply one textual mutation to a scratch copy of /repo/python and verify single functions there.

usage: tools/mutfn.py <modules> <file relative to python/lsst/daf/relation> <old> <new> <contract key> [...]
Prints the non-proved obligations (a mutant that leaves everything proved has SURVIVED)."""
import os, shutil, subprocess, sys, tempfile

mods, f, old, new, keys = sys.argv[1], sys.argv[2], sys.argv[3], sys.argv[4], sys.argv[5:]
d = tempfile.mkdtemp(prefix="pyvc_mutfn_")
try:
    shutil.copytree("/repo/python", os.path.join(d, "python"), ignore=shutil.ignore_patterns("__pycache__", "*.egg-info"))
    p = os.path.join(d, "python/lsst/daf/relation", f)
    s = open(p).read()
    if old not in s:
        print("PATTERN NOT FOUND")
        sys.exit(2)
    open(p, "w").write(s.replace(old, new, 1))
    r = subprocess.run(["python3-vt", "/verif/tools/try.py", mods] + keys, capture_output=True, text=True, env={**os.environ, "PYVC_REPO": d, "PYVC_NO_DIAG": "1"})
    bad = [l for l in r.stdout.splitlines() if l.startswith("   ") and not l.strip().startswith(("proved", "model:", "failing:"))]
    hdr = [l for l in r.stdout.splitlines() if l.startswith("==") and "'error': None" not in l]
    print(("KILLED  " if bad or hdr else "SURVIVED") + f"  {f}: {new[:70]!r}")
    for l in (hdr + bad)[:6]:
        print("     ", l[:230])
finally:
    shutil.rmtree(d, ignore_errors=True)
