"""Print a repo source file without docstrings/comments (reading aid only)."""
import ast,sys
for f in sys.argv[1:]:
    src=open(f).read()
    t=ast.parse(src)
    for n in ast.walk(t):
        if isinstance(n,(ast.FunctionDef,ast.ClassDef,ast.Module)):
            n.body=[s for s in n.body if not (isinstance(s,ast.Expr) and isinstance(s.value,ast.Constant) and isinstance(s.value.value,str))] or [ast.Pass()]
    print("=== ",f)
    print(ast.unparse(t))
