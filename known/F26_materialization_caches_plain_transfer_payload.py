"""Finding F26 (C10): a materialization applied to an already-processed transfer cached the transfer's payload although
that payload had been obtained with ``materialize_as=None``.

Processor._process_recursive started with ``if original.payload is not None: return original, True`` -- "persisted" for every
relation that carries a payload.  The transfer hook is only required to return a payload "appropriate for caching with the
Materialization" when ``materialize_as`` is not None (Processor.transfer docstring).  Process a tree ending in a transfer, then
materialize the processed tree and process again: the Materialization arm takes the flag at face value, attaches the transfer's
payload (here a lazy SelectionRowIterable) and never calls ``materialize()``; every execution re-evaluates the upstream tree, so the
materialization is "computed" on every use instead of at most once.

Found by the contract clause ``_process_recursive/a-result-reported-as-persisted-carries-a-persistent-payload`` (added after seeded
change C10-agent3, which broke the same clause in the Transfer arm).  Repaired in /repo: the flag is ``original.is_locked``.
"""
import sys; sys.path.insert(0, '/verif/replay')
from lib import *
from lsst.daf.relation import iteration, ColumnExpression, Processor

a = Tag("a")
E1, E2 = iteration.Engine(name="E1"), iteration.Engine(name="E2")


class Counting(iteration.RowSequence):
    n = 0

    def __iter__(self):
        Counting.n += 1
        return super().__iter__()


L = E1.make_leaf({a}, Counting([{a: 1}, {a: 2}, {a: 3}]), name="L")
calls = []


class P(Processor):
    def transfer(self, source, destination, materialize_as):
        calls.append(("transfer", materialize_as))
        rows = source.engine.execute(source)
        return rows.materialized() if materialize_as is not None else rows  # cacheable only when asked to (the documented contract)

    def materialize(self, target, name):
        calls.append(("materialize", name))
        return target.engine.execute(target).materialized()


ref, lit = ColumnExpression.reference, ColumnExpression.literal
p1 = P().process(L.with_rows_satisfying(ref(a).gt(lit(1))).transferred_to(E2))
m = p1.materialized("m")
p2 = P().process(m)
print("hook calls:", calls, "| cached payload:", type(m.payload).__name__)
before = Counting.n
for _ in range(3):
    list(E2.execute(p2))
n = Counting.n - before
if ("materialize", "m") not in calls and not isinstance(m.payload, iteration.MaterializedRowIterable):
    reproduced(f"the materialization cached a {type(m.payload).__name__} from transfer(materialize_as=None); materialize() was never called; "
               f"3 executions iterated the leaf {n} times")
if n > 0:
    reproduced(f"3 executions of the processed materialization iterated the upstream leaf {n} times")
not_reproduced()
