"""Known finding F23 (C17, C08): projecting a sorted + deduplicated SQL relation re-applies the sort above a
subquery that no longer has the sort column.

sql.Engine._append_unary_to_select, Projection arm with a recorded deduplication (sql/_engine.py:261-265), moves
the select's sort to a new outer Select over ``select.reapply_skip(sort=None, slice=None)``; the sort was valid
on the skip target, not on the projected columns, and _finish_apply does not validate.  The factories accept the
tree; compiling it fails with KeyError.
"""
import sys; sys.path.insert(0, '/verif/replay')
from lib import *
from lsst.daf.relation import sql
import lsst.daf.relation as R
import sqlalchemy

sq = sql.Engine(name="sq")
a, b = Tag("a"), Tag("b")
md = sqlalchemy.MetaData()
tbl = sqlalchemy.Table("t", md, sqlalchemy.Column("a", sqlalchemy.Integer), sqlalchemy.Column("b", sqlalchemy.Integer))
leaf = sq.make_leaf({a, b}, payload=sql.Payload(tbl, columns_available={a: tbl.c.a, b: tbl.c.b}), name="t")
try:
    r = leaf.sorted([R.SortTerm(R.ColumnExpression.reference(b))]).with_only_columns({a}).without_duplicates().with_only_columns(set())
except R.RelationalAlgebraError as e:
    not_reproduced(f"the factory refuses the request: {e}")
print("accepted tree:", r)
node = r.target
while not (isinstance(node, UnaryOperationRelation) and isinstance(node.operation, Sort)):
    node = node.target
missing = node.operation.columns_required - node.target.columns
print("sort node target columns:", set(node.target.columns), "sort needs:", set(node.operation.columns_required))
try:
    sq.to_executable(r)
    compiled = True
except KeyError as e:
    compiled = False
    print("to_executable: KeyError", e)
if missing and not compiled:
    reproduced("the accepted tree holds a sort on a column its target does not have and does not compile")
not_reproduced()
