"""Known finding F24 (C17, C14): the SQL engine inserts a calculation below an existing projection even when the
new tag is a column of the skip target that the projection had removed.

sql.Engine._append_unary_to_select, Calculation arm with a recorded projection (sql/_engine.py:238-243):
``leaf(a,b).with_only_columns({a}).with_calculated_column(b, a)`` builds the node  +[b=a](leaf(a,b)) , which
Calculation._begin_apply itself rejects (ColumnError: tag already present).  The SQL that is generated overrides
the column, so the rows are right; the tree invariant "every operation is valid on its target" is not.
"""
import sys; sys.path.insert(0, '/verif/replay')
from lib import *
from lsst.daf.relation import sql
import lsst.daf.relation as R

sq = sql.Engine(name="sq")
a, b = Tag("a"), Tag("b")
leaf = sq.make_leaf({a, b}, payload=None, name="leaf")
r = leaf.with_only_columns({a}).with_calculated_column(b, R.ColumnExpression.reference(a))
print("tree:", r)
node = r.skip_to
print("skip target:", node, " its target's columns:", set(node.target.columns))
if isinstance(node, UnaryOperationRelation) and isinstance(node.operation, Calculation) and node.operation.tag in node.target.columns:
    try:
        node.operation.apply(node.target)
        rejected = False
    except R.ColumnError as e:
        rejected = True
        print("the same request through the factory:", "ColumnError:", e)
    if rejected:
        reproduced("the tree holds a calculation node whose tag is already a column of its target")
not_reproduced()
