"""Known finding F11 (C17): a Select marker whose target does not lead to its skip target.

Select.apply_skip stacks the recorded operations with UnaryOperation._finish_apply, which merges: a projection
applied directly on top of a calculation whose column it drops removes the calculation node
(Projection.simplify), so ``select.target`` is  Π[a](leaf)  while ``select.skip_to`` is still  +[d](leaf):
the operation nodes between the marker and its skip target are not the recorded ones (the skip target is not
even on the path).  Rows are unaffected.
"""
import sys; sys.path.insert(0, '/verif/replay')
from lib import *
from lsst.daf.relation import sql
import lsst.daf.relation as R

sq = sql.Engine(name="sq")
a, b, d = Tag("a"), Tag("b"), Tag("d")
leaf = sq.make_leaf({a, b}, payload=None, name="leaf")
y = leaf.with_calculated_column(d, R.ColumnExpression.reference(a)).with_only_columns({a})
t, between = y.target, []
while t is not y.skip_to and hasattr(t, "target"):
    between.append(type(getattr(t, "operation", t)).__name__)
    t = t.target
print("select.target:", y.target, " select.skip_to:", y.skip_to, " walked:", between, " reached skip_to:", t is y.skip_to)
if t is not y.skip_to:
    reproduced("select.target does not lead to select.skip_to")
not_reproduced()
