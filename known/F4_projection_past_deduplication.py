"""Known finding F4 (C03, C04): Projection.commute reports it can move upstream of a Deduplication.

Π[a](dedup(X)) keeps one row per distinct (a, b); dedup(Π[a](X)) keeps one row per distinct a.
"""
import sys; sys.path.insert(0, '/verif/replay')
from lib import *
from lsst.daf.relation import iteration, Projection, Deduplication
a, b = Tag("a"), Tag("b")
E = iteration.Engine(name="E")
leaf = E.make_leaf({a, b}, iteration.RowSequence([{a: 1, b: 1}, {a: 1, b: 2}]), name="L")
current = leaf.without_duplicates()
c = Projection(frozenset({a})).commute(current)
if c.first is None or not c.done:
    not_reproduced("commute refused")
moved = c.second._finish_apply(c.first._finish_apply(leaf))
want = list(E.execute(current.with_only_columns({a})))
got = list(E.execute(moved))
print("existing then new:", want, " reported first then second:", got)
if want != got:
    reproduced(f"Projection past Deduplication changes rows: {want} vs {got}")
not_reproduced()
