"""Finding F25 (C03, C14, C08): a *partial* projection push-down during backtracking drops an intermediate projection and
re-exposes the column it hid underneath a calculation of the same name.

iteration.Engine.backtrack_unary (iteration/_engine.py): for  tree = +[t=a+1000](Π[a](σ[t>0](→[E2](L(a,c,t)))))  the request
``with_only_columns({t}, preferred_engine=E1)`` commutes Π[t] past the calculation (needs a: Π[a] moves on), past Π[a] (the
commutation *replaces* that node by Identity, because the moved projection subsumes it) and then only *partially* past the
selection (which needs t: Π[a,t] is what reaches E1).  The node Π[a] had been dropped although the projection that went
upstream is wider than it, so the rebuilt calculation of t sits on a relation that still has a column t:
``Calculation._begin_apply`` itself rejects that node, and processing the returned tree raises ColumnError.

Found while replacing the bounded stand-in S-C03-projection-backtracking by discharged obligations (the obligation
``backtrack_unary/call UnaryOperation._finish_apply/pre/operation-valid-on-target[projection-other]`` needs "the narrowed relation
has no more columns than the node it replaces", which the code did not guarantee); the stand-in's enumeration had no calculation
whose tag equals a hidden deeper column.  Repaired in /repo: a node whose operation the commutation replaced is only rebuilt when
the insertion upstream succeeded completely.
"""
import sys; sys.path.insert(0, '/verif/replay')
from lib import *
from lsst.daf.relation import iteration, ColumnExpression, Processor
import lsst.daf.relation as R

a, c, t = Tag("a"), Tag("c"), Tag("t")
E1, E2 = iteration.Engine(name="E1"), iteration.Engine(name="E2")
rows = [{a: 1, c: 5, t: 100}, {a: 2, c: 0, t: -7}, {a: 3, c: 9, t: 50}]
L = E1.make_leaf({a, c, t}, iteration.RowSequence(rows), name="L")
ref, lit = ColumnExpression.reference, ColumnExpression.literal
tree = (L.transferred_to(E2).with_rows_satisfying(ref(t).gt(lit(0))).with_only_columns({a})
         .with_calculated_column(t, ref(a).method("__add__", lit(1000))))
want = [{t: r[a] + 1000} for r in rows if r[t] > 0]


class P(Processor):
    def transfer(self, source, destination, materialize_as):
        return source.engine.execute(source).materialized()

    def materialize(self, target, name):
        return target.engine.execute(target).materialized()


def ill_formed(r):
    while True:
        if isinstance(r, UnaryOperationRelation) and isinstance(r.operation, Calculation) and r.operation.tag in r.target.columns:
            return r
        r = getattr(r, "target", None)
        if r is None:
            return None


print("tree:", tree)
for kw in ({}, {"transfer": True}):
    res = tree.with_only_columns({t}, preferred_engine=E1, **kw)
    print(kw, "->", res)
    bad = ill_formed(res)
    if bad is not None:
        reproduced(f"the returned tree holds a calculation of {bad.operation.tag} over {bad.target}, which already has that column")
    try:
        out = P().process(res)
        got = [dict(r) for r in out.engine.execute(out)]
    except R.RelationalAlgebraError as e:
        reproduced(f"processing the returned tree raises {type(e).__name__}: {e}")
    if got != want:
        reproduced(f"rows {got} instead of {want}")
not_reproduced()
