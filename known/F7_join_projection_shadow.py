"""Known finding F7 (C02, C03, C04): a join hoists a projection that hid a column the other operand also has.

T1(a, x) JOIN  Π[a,b](T2(a, b, x)):  x must come from T1 (the only operand exposing it); PartialJoin.commute past the
projection (and the SQL engine's Select.strip) re-expose T2.x.
"""
import sys; sys.path.insert(0, '/verif/replay')
from lib import *
from lsst.daf.relation import iteration, Projection, Join, Predicate
a, b, x = Tag("a"), Tag("b"), Tag("x", is_key=False)
E = iteration.Engine(name="E")
t1 = E.make_leaf({a, x}, iteration.RowSequence([{a: 1, x: 100}]), name="T1")
t2 = E.make_leaf({a, b, x}, iteration.RowSequence([{a: 1, b: 5, x: -1}]), name="T2")
current = t2.with_only_columns({a, b})
pj = Join(Predicate.literal(True), frozenset({a}), frozenset({a})).partial(t1)
c = pj.commute(current)
if c.first is None:
    not_reproduced("commute refused")
# columns the reported sequence would have: join first (T2 x T1 -> a,b,x with x ambiguous), then the projection
first_cols = set(c.first.applied_columns(t2))
second_cols = set(c.second.columns)
print("first applied to T2 exposes", first_cols, "second keeps", second_cols)
if x in second_cols and x in t2.columns and x in t1.columns:
    reproduced("the commuted sequence joins T1 with the un-projected T2, so column x is exposed by both operands "
               "although the projection had removed T2.x (provenance of x is no longer T1 alone)")
not_reproduced()
