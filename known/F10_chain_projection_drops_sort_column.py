"""Known finding F10 (C17, C08): projecting a sorted chain in the SQL engine pushes the projection into the
operands and keeps the select's sort, whose column the new skip target no longer has.

sql.Engine._append_unary_to_select, Projection arm for a compound select (sql/_engine.py:280-287).
"""
import sys; sys.path.insert(0, '/verif/replay')
from lib import *
from lsst.daf.relation import sql
import lsst.daf.relation as R
import sqlalchemy

sq = sql.Engine(name="sq")
a, b = Tag("a"), Tag("b")
md = sqlalchemy.MetaData()


def leaf(name):
    tbl = sqlalchemy.Table(name, md, sqlalchemy.Column("a", sqlalchemy.Integer), sqlalchemy.Column("b", sqlalchemy.Integer))
    return sq.make_leaf({a, b}, payload=sql.Payload(tbl, columns_available={a: tbl.c.a, b: tbl.c.b}), name=name)


try:
    r = leaf("t1").chain(leaf("t2")).sorted([R.SortTerm(R.ColumnExpression.reference(b))]).with_only_columns({a})
except R.RelationalAlgebraError as e:
    not_reproduced(f"the factory refuses the request: {e}")
print("accepted tree:", r)
print("recorded sort needs:", set(r.sort.columns_required), " skip target columns:", set(r.skip_to.columns))
try:
    sq.to_executable(r)
    compiled = True
except KeyError as e:
    compiled = False
    print("to_executable: KeyError", e)
if not (r.sort.columns_required <= r.skip_to.columns) and not compiled:
    reproduced("the select's sort needs a column its skip target no longer has; compilation fails")
not_reproduced()
