"""Fixed finding F15 (C17): sql.Engine.transfer wrapped a same-engine relation in a Select without conforming it.

raw = UnaryOperationRelation(Sort[b], LeafRelation(sql...)) built without the engine's help;
raw.transferred_to(sql_engine) returned Select(skip_to=sort[b](t), sort=()) and to_executable raised
NotImplementedError, while to_executable(raw) worked.  Reports REPRODUCED if the defect is back.
"""
import sys; sys.path.insert(0, '/verif/replay')
from lib import *
from lsst.daf.relation import sql
import lsst.daf.relation as R
import sqlalchemy

sq = sql.Engine(name="sq")
a, b = Tag("a"), Tag("b")
md = sqlalchemy.MetaData()
tbl = sqlalchemy.Table("t", md, sqlalchemy.Column("a", sqlalchemy.Integer), sqlalchemy.Column("b", sqlalchemy.Integer))
raw_leaf = LeafRelation(sq, frozenset({a, b}), sql.Payload(tbl, columns_available={a: tbl.c.a, b: tbl.c.b}), name="t")
raw = UnaryOperationRelation(operation=Sort((R.SortTerm(R.ColumnExpression.reference(b)),)), target=raw_leaf, columns=raw_leaf.columns)
t = raw.transferred_to(sq)
print("transferred:", t, " skip_to:", t.skip_to, " has_sort:", t.has_sort)
try:
    print(sq.to_executable(t))
except NotImplementedError as e:
    reproduced(f"to_executable of the transferred raw tree raised NotImplementedError: {e}")
not_reproduced()
