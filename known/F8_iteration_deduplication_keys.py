"""Known finding F8 (C01): the iteration engine deduplicates on the *key* columns only and keeps the last row.

Rows [{a:1, v:1}, {a:1, v:2}] with v a non-key column: 'keeps the first occurrence of each distinct row' gives both
rows; the engine returns [{a:1, v:2}].  (Documented design of ColumnTag.is_key; recorded, not repaired.)
"""
import sys; sys.path.insert(0, '/verif/replay')
from lib import *
from lsst.daf.relation import iteration
import direct as D
a, v = Tag("a"), Tag("v", is_key=False)
E = iteration.Engine(name="E")
rows = [{a: 1, v: 1}, {a: 1, v: 2}]
leaf = E.make_leaf({a, v}, iteration.RowSequence(rows), name="L")
got = [dict(r) for r in E.execute(leaf.without_duplicates())]
want = D.sem(D.Deduplication(), rows)
print("engine:", got, " first occurrence of each distinct row:", want)
if not D.same_rows(got, want):
    reproduced("iteration Deduplication keys on key columns only")
not_reproduced()
