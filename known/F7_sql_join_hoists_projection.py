"""Known finding F7, SQL engine (C17, C02): joining a projected SQL relation re-exposes the column the projection removed.

sql.Engine._append_binary_to_select strips the operand's Select (sql/_engine.py:372-381) and joins the skip targets:
T1(a, x) JOIN Π[a,b](T2(a, b, x))  is compiled as  SELECT ... FROM T1 JOIN T2  with columns_available = {**T1, **T2},
so the output column x takes T2.x -- a column the upstream projection had removed -- instead of T1.x.
Executed on SQLite.
"""
import sys; sys.path.insert(0, '/verif/replay')
from lib import *
from lsst.daf.relation import sql
import sqlalchemy

a, b, x = Tag("a"), Tag("b"), Tag("x", is_key=False)
sq = sql.Engine(name="sq")
md = sqlalchemy.MetaData()
T1 = sqlalchemy.Table("t1", md, sqlalchemy.Column("a", sqlalchemy.Integer), sqlalchemy.Column("x", sqlalchemy.Integer))
T2 = sqlalchemy.Table("t2", md, sqlalchemy.Column("a", sqlalchemy.Integer), sqlalchemy.Column("b", sqlalchemy.Integer), sqlalchemy.Column("x", sqlalchemy.Integer))
t1 = sq.make_leaf({a, x}, payload=sql.Payload(T1, columns_available={a: T1.c.a, x: T1.c.x}), name="t1")
t2 = sq.make_leaf({a, b, x}, payload=sql.Payload(T2, columns_available={a: T2.c.a, b: T2.c.b, x: T2.c.x}), name="t2")
rel = t1.join(t2.with_only_columns({a, b}))
db = sqlalchemy.create_engine("sqlite://")
md.create_all(db)
with db.begin() as conn:
    conn.execute(T1.insert(), [{"a": 1, "x": 100}])
    conn.execute(T2.insert(), [{"a": 1, "b": 5, "x": -1}])
    rows = [dict(r._mapping) for r in conn.execute(sq.to_executable(rel))]
print("relation:", rel, " columns:", sorted(map(str, rel.columns)))
print("rows:", rows, " expected x from T1: 100")
if rows and rows[0].get("x") == -1:
    reproduced("output column x holds T2.x, which the projection had removed; T1.x (100) is the only exposed x")
not_reproduced()
