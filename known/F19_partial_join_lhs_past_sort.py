"""Known finding F19 (C04): PartialJoin with the fixed operand on the LEFT reports that it commutes with a Sort.

With the fixed relation driving the outer loop, sort(join(F, X)) orders by the sort key first, whereas
join(F, sort(X)) is F-major.  (Rows are evaluated here by the direct nested-loop definition; the iteration engine
does not execute joins.)
"""
import sys; sys.path.insert(0, '/verif/replay')
from lib import *
from lsst.daf.relation import iteration, Join, Predicate, SortTerm, ColumnExpression
a, f, v = Tag("a"), Tag("f"), Tag("v", is_key=False)
E = iteration.Engine(name="E")
F = E.make_leaf({f}, iteration.RowSequence([{f: 1}, {f: 2}]), name="F")
X = E.make_leaf({a}, iteration.RowSequence([{a: 2}, {a: 1}]), name="X")
current = X.sorted([SortTerm(ColumnExpression.reference(a))])
pj = Join(Predicate.literal(True), frozenset(), frozenset()).partial(F, is_lhs=True)
c = pj.commute(current)
if c.first is None or not c.done:
    not_reproduced("commute refused")
def join(L, R):
    return [{**l, **r} for l in L for r in R]
Frows, Xrows = list(E.execute(F)), list(E.execute(X))
want = join(Frows, sorted(Xrows, key=lambda r: r[a]))            # existing sort, then the new join (fixed on the left)
got = sorted(join(Frows, Xrows), key=lambda r: r[a])             # reported: join first, then the sort
print("existing then new:", want, "\nreported first then second:", got)
if want != got:
    reproduced("PartialJoin(fixed_is_lhs=True) past Sort changes row order")
not_reproduced()
