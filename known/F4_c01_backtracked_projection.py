"""Known finding F4 seen from C01: a projection requested with a preferred engine is backtracked upstream of a Deduplication.

Factory calls only, two iteration engines:  leaf(A) -> transferred_to(B) -> without_duplicates() -> with_only_columns({a}, preferred_engine=A).
The applied sequence keeps one row per distinct (a, b) and then drops b: two rows.  Projection.commute lets the projection move past the
deduplication (and the transfer), so the tree that is built deduplicates on a alone: one row.
"""
import sys; sys.path.insert(0, '/verif/replay')
from lib import *
from lsst.daf.relation import iteration, Processor

a, b = Tag("a"), Tag("b")
A, B = iteration.Engine(name="A"), iteration.Engine(name="B")
rows = [{a: 1, b: 1}, {a: 1, b: 2}]
leaf = A.make_leaf({a, b}, iteration.RowSequence(rows), name="L")
tree = leaf.transferred_to(B).without_duplicates().with_only_columns({a}, preferred_engine=A)

# direct evaluation of the applied sequence
seen, dedup = set(), []
for r in rows:
    k = tuple(sorted((str(t), v) for t, v in r.items()))
    if k not in seen:
        seen.add(k)
        dedup.append(r)
want = [{a: r[a]} for r in dedup]


class P(Processor):
    def transfer(self, source, destination, materialize_as):
        return source.engine.execute(source).materialized()

    def materialize(self, target, name):
        return target.engine.execute(target).materialized()


out = P().process(tree)
got = [dict(r) for r in out.engine.execute(out)]
print("tree built:", tree)
print("applied sequence:", want, " executed:", got)
if got != want:
    reproduced(f"the tree built for dedup-then-project (preferred engine upstream) yields {got}, the applied sequence {want}")
not_reproduced()
