"""Known finding F13 (C10, C07): a materialization whose target is a plain marker never receives its payload.

Processor._process_recursive passes the "already persisted" flag of the marker's target through the marker arm
(_processor.py:230-232), but the re-applied marker carries no payload, so the Materialization arm attaches
``new_target.payload`` == None.  In the SQL engine every materialization wraps a Select marker, so
``leaf.transferred_to(sql).materialized("m1")`` is never cached: each process() call runs the transfer again.
"""
import sys; sys.path.insert(0, '/verif/replay')
from lib import *
from lsst.daf.relation import Processor, iteration, sql

it, sq = iteration.Engine(name="it"), sql.Engine(name="sq")
a = Tag("a")
leaf = it.make_leaf({a}, payload=iteration.RowSequence([{a: 1}, {a: 2}]), name="leaf")
mat = leaf.transferred_to(sq).materialized("m1")
node = mat.target if not isinstance(mat, Materialization) else mat  # sql wraps the materialization in a Select
calls = []


class P(Processor):
    def transfer(self, source, destination, materialize_as):
        calls.append(("transfer", str(source), materialize_as))
        return "PAYLOAD-T"

    def materialize(self, target, name):
        calls.append(("materialize", str(target), name))
        return "PAYLOAD-M"


p = P()
p.process(mat)
first = len(calls)
p.process(mat)
print("materialization node:", type(node).__name__, "payload after two process() calls:", node.payload, "hook calls:", calls)
if isinstance(node, Materialization) and node.payload is None and len(calls) > first:
    reproduced("the materialization node has no payload after process(); the second process() call ran the upstream transfer again")
not_reproduced()
