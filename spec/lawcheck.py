"""Bounded native check of the law library on concrete rows.

Every law of spec/laws.py is evaluated with the NativeBackend over a small concrete universe
(3 tags, values {0,1,2}, row sequences up to length N).  This is (a) a bounded check of each
assumed law and (b) evidence that the axiom set has a model (all laws hold simultaneously in the
same concrete interpretation), i.e. that the SMT axioms are not contradictory.

Concrete interpretation (the same one the Lean development uses):
  row            total map tag -> int; tags outside the sequence's column set hold 0 ("masked")
  RS             (column set, tuple of rows)
  filter/calc/.. the textbook definitions; dedup keeps first occurrences; sort is a stable
                 lexicographic sort with per-term direction; slice is X[a:b]
  join           nested-loop order: for r in X, for s in Y, if they agree on K and p(r|s): r|s
                 (columns of Y win where both define a value)

Usage: python3-vt -m spec.lawcheck [N] [budget-per-law]
"""
from __future__ import annotations

import itertools
import json
import random
import sys
import time

TAGS = ("a", "b", "c")
VALS = (0, 1, 2)


class NPred:
    def __init__(self, name, fv, fn):
        self.name, self.fv, self.fn = name, frozenset(fv), fn

    def __repr__(self):
        return self.name


class NExpr(NPred):
    pass


def _preds():
    out = [NPred("True", (), lambda r: True), NPred("False", (), lambda r: False)]
    for t in TAGS:
        out.append(NPred(f"{t}==0", (t,), lambda r, t=t: r[t] == 0))
        out.append(NPred(f"{t}>=1", (t,), lambda r, t=t: r[t] >= 1))
    out.append(NPred("a<b", ("a", "b"), lambda r: r["a"] < r["b"]))
    out.append(NPred("a==0&b==0", ("a", "b"), lambda r: r["a"] == 0 and r["b"] == 0))
    out.append(NPred("a==0&a>=1", ("a",), lambda r: False))
    out.append(NPred("b>=1|c==0", ("b", "c"), lambda r: r["b"] >= 1 or r["c"] == 0))
    out.append(NPred("a==0&a<b", ("a", "b"), lambda r: r["a"] == 0 and r["a"] < r["b"]))
    return out


def _exprs():
    out = [NExpr("0", (), lambda r: 0), NExpr("1", (), lambda r: 1)]
    for t in TAGS:
        out.append(NExpr(t, (t,), lambda r, t=t: r[t]))
        out.append(NExpr(f"-{t}", (t,), lambda r, t=t: -r[t]))
    out.append(NExpr("a+b", ("a", "b"), lambda r: r["a"] + r["b"]))
    out.append(NExpr("b*c", ("b", "c"), lambda r: r["b"] * r["c"]))
    return out


PREDS = _preds()
EXPRS = _exprs()
ALL_ROWS = [dict(zip(TAGS, v)) for v in itertools.product(VALS, repeat=len(TAGS))]


def mask(row, cols):
    return tuple((row[t] if t in cols else 0) for t in TAGS)


def unrow(r):
    return dict(zip(TAGS, r))


class NativeBackend:
    # sequences: (frozenset cols, tuple of row tuples)
    def rlen(self, X): return len(X[1])
    def rcols(self, X): return X[0]
    def empty(self, C): return (frozenset(C), ())
    def unit(self): return (frozenset(), (mask({t: 0 for t in TAGS}, ()),))
    def filter(self, p, X): return (X[0], tuple(r for r in X[1] if p.fn(unrow(r))))

    def calc(self, t, e, X):
        cols = X[0] | {t}
        return (cols, tuple(mask({**unrow(r), t: e.fn(unrow(r))}, cols) for r in X[1]))

    def proj(self, P, X): return (frozenset(P), tuple(mask(unrow(r), P) for r in X[1]))

    def dedup(self, X):
        seen, out = set(), []
        for r in X[1]:
            if r not in seen:
                seen.add(r)
                out.append(r)
        return (X[0], tuple(out))

    def sort(self, ts, X):
        rows = list(X[1])
        # stable lexicographic sort with per-term direction: apply terms last to first
        for e, asc in reversed(ts):
            rows.sort(key=lambda r, e=e: e.fn(unrow(r)), reverse=not asc)
            if not asc:
                # reverse=True keeps the original order of equal elements in CPython
                pass
        return (X[0], tuple(rows))

    def slice(self, a, b, X):
        if a < 0 or (b is not None and b < 0):
            return X  # outside the law's hypothesis; any value
        return (X[0], X[1][a:b])

    def chain(self, X, Y): return (X[0], X[1] + Y[1])

    def join(self, p, K, X, Y):
        cols = X[0] | Y[0]
        out = []
        for r in X[1]:
            for s in Y[1]:
                ru, su = unrow(r), unrow(s)
                if all(ru[k] == su[k] for k in K):
                    m = {t: (su[t] if t in Y[0] else ru[t]) for t in TAGS}
                    if p.fn(m):
                        out.append(mask(m, cols))
        return (cols, tuple(out))

    def fv(self, p): return p.fv
    def fvx(self, e): return e.fv
    def fvts(self, ts): return frozenset().union(*[e.fv for e, _ in ts]) if ts else frozenset()
    def ptrue(self, p): return all(p.fn(r) for r in ALL_ROWS)
    def pfalse(self, p): return not any(p.fn(r) for r in ALL_ROWS)
    def pand(self, p, q, r): return all(r.fn(x) == (p.fn(x) and q.fn(x)) for x in ALL_ROWS)
    def pequiv(self, p, q): return all(p.fn(x) == q.fn(x) for x in ALL_ROWS)

    def tcat(self, a, b, c):
        out = list(b)
        for t in a:
            if t not in out:
                out.append(t)
        return tuple(out) == tuple(c)

    def tlen(self, ts): return len(ts)

    def dedup_key(self, K, X):
        d = {}
        for r in X[1]:
            d[tuple(unrow(r)[k] for k in sorted(K))] = r
        return (X[0], tuple(d.values()))

    def sortc(self, cs, d, X):
        rows = list(X[1])
        rows.sort(key=lambda r: tuple(c.fn(unrow(r)) for c in cs), reverse=not d)  # Python's own stable sort with a tuple key
        return (X[0], tuple(rows))

    def tsuffix(self, ts, a): return tuple(ts[max(a, 0):])
    def tslice(self, ts, a, b): return tuple(ts[max(a, 0):max(b, 0)])
    def den_terms(self, cs, ts, a, b): return len(cs) == b - a and 0 <= a and b <= len(ts) and all(self.den_x(c, ts[a + i][0]) for i, c in enumerate(cs))
    def same_dir(self, ts, a, b, d): return all(ts[i][1] == d for i in range(max(a, 0), min(b, len(ts))))
    def snoc(self, X, r): return (X[0], X[1] + (r,))
    def prefix(self, X, i): return (X[0], X[1][:max(i, 0)])
    def nth(self, X, i): return X[1][i] if 0 <= i < len(X[1]) else mask({t: 0 for t in TAGS}, ())
    def rput(self, r, t, v): return tuple((v if u == t else x) for u, x in zip(TAGS, r))
    def rmask(self, P, r): return mask(unrow(r), P)
    def capp(self, cl, r): return int(cl.fn(unrow(r)))
    def mapc(self, t, cl, X): return self.calc(t, cl, X)
    def filterc(self, cl, X): return self.filter(cl, X)
    def den_x(self, cl, e): return all(cl.fn(r) == e.fn(r) for r in ALL_ROWS)
    def den_p(self, cl, p): return all(bool(cl.fn(r)) == bool(p.fn(r)) for r in ALL_ROWS)
    def i(self, n): return n
    def emod(self, a, b): return a % b if b > 0 else 0  # Euclidean remainder; only positive divisors matter to the laws
    def ediv(self, a, b): return a // b if b > 0 else 0
    def add(self, a, b): return a + b
    def sub(self, a, b): return a - b
    def mul(self, a, b): return a * b
    def le(self, a, b): return a <= b
    def lt(self, a, b): return a < b
    def max(self, a, b): return max(a, b)
    def min(self, a, b): return min(a, b)
    def is_none(self, b): return b is None
    def val(self, b): return 0 if b is None else b
    def some(self, a): return a
    def none(self): return None
    def eset(self): return frozenset()
    def sadd(self, S, t): return frozenset(S) | {t}
    def sdel(self, S, t): return frozenset(S) - {t}
    def union(self, A, B): return frozenset(A) | frozenset(B)
    def inter(self, A, B): return frozenset(A) & frozenset(B)
    def subset(self, A, B): return frozenset(A) <= frozenset(B)
    def member(self, t, S): return t in S
    def eq(self, a, b): return a == b
    def iff(self, a, b): return bool(a) == bool(b)
    def neg(self, a): return -a
    def and_(self, *xs): return all(xs)
    def or_(self, *xs): return any(xs)
    def not_(self, x): return not x
    def implies(self, a, b):
        self.n_imp = getattr(self, "n_imp", 0) + 1
        if a:
            self.n_hyp = getattr(self, "n_hyp", 0) + 1
        return (not a) or b
    def ite(self, c, a, b): return a if c else b


def domain(kind, N, rng):
    """A generator function of random values of a kind (and an exhaustive list when small)."""
    subsets = [frozenset(s) for k in range(len(TAGS) + 1) for s in itertools.combinations(TAGS, k)]
    if kind == "Tag":
        return list(TAGS)
    if kind == "TagSet":
        return subsets
    if kind == "Pred":
        return PREDS
    if kind == "Expr":
        return EXPRS
    if kind == "Callable":
        return EXPRS + PREDS
    if kind == "Int":
        return list(range(-1, 5))
    if kind == "OptInt":
        return [None] + list(range(-1, 5))
    if kind == "Terms":
        terms = [(e, asc) for e in EXPRS[2:8] + EXPRS[8:] for asc in (True, False)]
        out = [()]
        out += [(t,) for t in terms]
        out += [(t, u) for t in terms for u in terms]
        return out
    if kind == "Bool":
        return [True, False]
    if kind == "Callables":
        es = EXPRS[2:8] + EXPRS[8:]
        return [()] + [(e,) for e in es] + [(e, f) for e in es for f in es[:4]]
    if kind == "Row":
        return [mask(r, TAGS) for r in ALL_ROWS]
    if kind == "RS":
        return None  # sampled
    raise KeyError(kind)


def sample_rs(N, rng):
    cols = frozenset(t for t in TAGS if rng.random() < 0.6)
    n = rng.randint(0, N)
    pool_size = rng.choice((1, 2, 3, 9))
    pool = [mask({t: rng.choice(VALS) for t in TAGS}, cols) for _ in range(pool_size)]
    return (cols, tuple(rng.choice(pool) for _ in range(n)))


def direct(l, vals, B, rng):
    """Make rarely-true hypotheses true half of the time by computing the witness variables."""
    names = [n for n, _ in l.vars]
    if rng.random() < 0.5:
        return vals
    v = dict(zip(names, vals))
    if l.name == "sort-sort":
        out = list(v["b"])
        for t in v["a"]:
            if t not in out:
                out.append(t)
        v["c"] = tuple(out)
    elif l.name == "filter-filter":
        c = [r for r in PREDS if B.pand(v["p"], v["q"], r)]
        if c:
            v["r"] = rng.choice(c)
    elif l.name == "filter-ext":
        c = [r for r in PREDS if B.pequiv(v["p"], r)]
        v["q"] = rng.choice(c)
    elif l.name == "slice-slice":
        from spec.laws import win_equiv, wf
        a1, b1, a2, b2 = abs(v["a1"]), v["b1"], abs(v["a2"]), v["b2"]
        if b1 is not None:
            b1 = max(a1, abs(b1))
        if b2 is not None:
            b2 = max(a2, abs(b2))
        v.update(a1=a1, b1=b1, a2=a2, b2=b2)
        c = [(A, Bv) for A in range(0, 9) for Bv in [None] + list(range(0, 9)) if wf(B, A, Bv) and win_equiv(B, a1, b1, a2, b2, A, Bv)]
        if c:
            v["A"], v["Bv"] = rng.choice(c)
    elif l.name == "callable-calc":
        v["cl"] = v["e"]
    elif l.name == "callable-filter":
        v["cl"] = v["p"]
    elif l.name == "dedup-by-all-columns":
        v["K"] = v["X"][0]
    elif l.name in ("proj-proj",):
        v["P"] = frozenset(t for t in v["Q"] if rng.random() < 0.6)
    elif l.name == "proj-full":
        v["P"] = v["X"][0]
    elif l.name in ("sort-suffix-split", "tsuffix-len"):
        n = len(v["ts"])
        v["a"] = rng.randint(0, n)
        if "b" in v:
            v["b"] = rng.randint(v["a"], n)
    elif l.name == "sortc-group":
        d = v["d"]
        grp = tuple((c, d) for c in v["cs"])
        pre = tuple(t for t in v["ts"][:1])
        v["ts"] = pre + grp + tuple(v["ts"][1:2])
        v["a"], v["b"] = len(pre), len(pre) + len(grp)
    elif l.name == "slice-prefix" and v["b"] is not None:
        v["b"] = min(abs(v["b"]), len(v["X"][1]))
    elif l.name in ("join-unit",):
        v["K"] = frozenset()
    return [v[n] for n in names]


def check_law(l, N, budget, rng):
    B = NativeBackend()
    doms = [domain(k, N, rng) for _, k in l.vars]
    n_checked = n_nontrivial = 0
    t0 = time.time()
    for _ in range(budget):
        vals = []
        for d in doms:
            vals.append(sample_rs(N, rng) if d is None else rng.choice(d))
        if not l.vars:
            vals = []
        else:
            vals = direct(l, vals, B, rng)
        try:
            ok = l.body(B, *vals)
        except Exception as e:  # a law must be total on the whole universe
            return {"law": l.name, "ok": False, "counterexample": repr(vals), "error": repr(e)}
        n_checked += 1
        if not ok:
            return {"law": l.name, "ok": False, "counterexample": repr(vals)}
        if not l.vars:
            break
    return {"law": l.name, "ok": True, "checked": n_checked, "hypothesis_true": getattr(B, "n_hyp", None) if getattr(B, "n_imp", 0) else n_checked,
            "seconds": round(time.time() - t0, 2)}


def main():
    from spec.laws import LAWS

    N = int(sys.argv[1]) if len(sys.argv) > 1 else 5
    budget = int(sys.argv[2]) if len(sys.argv) > 2 else 20000
    only = sys.argv[3:]
    rng = random.Random(12345)
    bad = 0
    out = []
    for l in LAWS:
        if only and l.name not in only:
            continue
        r = check_law(l, N, budget, rng)
        r["tier"], r["status"] = l.tier, l.status
        out.append(r)
        print(("ok  " if r["ok"] else "FAIL"), l.tier, l.name, r.get("checked", ""), "hyp-true:", r.get("hypothesis_true"), r.get("counterexample", "")[:300], r.get("error", ""))
        bad += 0 if r["ok"] else 1
    json.dump(out, open("/tmp/lawcheck.json", "w"), indent=1)
    return 1 if bad else 0


if __name__ == "__main__":
    sys.exit(main())
