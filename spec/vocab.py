"""Specification vocabulary shared by all contracts (DESIGN.md section 3).

Everything here is *specification*: uninterpreted symbols plus axioms.  Axioms come in two
kinds, kept apart because their status differs:

* definitional axioms: unfold a spec function on a node of a given class
  (``rows`` of a unary-operation node is ``sem`` of its operation applied to the rows of its
  target, ...).  They define the oracle and are taken from the property statements.
* laws: facts about the row-sequence operators (``len`` of a filter is at most ``len`` of its
  input, ...).  Every law is an entry of ``spec.laws.LAWS`` with a status
  (lean-proved / assumed, bounded-checked); see that module.
"""
from __future__ import annotations

import z3

from pyvc import smt
from pyvc.smt import SV, TBool, TInt, TOptInt, TRefT, TSeqT, TStr, TTag, TTagSet

is_key = z3.Function("is_key", smt.Tag, smt.BoolS)
qname = z3.Function("qualified_name", smt.Tag, smt.StrS)

# ---- rows and row sequences -------------------------------------------------------
Row = z3.DeclareSort("Row")
RS = z3.DeclareSort("RS")  # finite sequence of rows, all over the same column set
rlen = z3.Function("rlen", RS, smt.IntS)
rcols = z3.Function("rcols", RS, smt.TagSet)
rnth = z3.Function("rnth", RS, smt.IntS, Row)
row_get = z3.Function("row_get", Row, smt.Tag, smt.IntS)
REMPTY = z3.Function("rempty", smt.TagSet, RS)  # the empty sequence over a column set
RUNIT = z3.Const("runit", RS)  # [{}]: one row, no columns (the join identity)

rows = z3.Function("rows", smt.Ref, RS)  # content of a relation

SeqRef = TSeqT(TRefT(None))

# semantic operators (DESIGN 3.1)
s_filter = z3.Function("s_filter", smt.Ref, RS, RS)  # predicate, X
s_calc = z3.Function("s_calc", smt.Tag, smt.Ref, RS, RS)  # tag, expression, X
s_proj = z3.Function("s_proj", smt.TagSet, RS, RS)
s_dedup = z3.Function("s_dedup", RS, RS)
s_sort = z3.Function("s_sort", SeqRef.sort, RS, RS)  # terms, X
s_slice = z3.Function("s_slice", smt.IntS, smt.OptInt, RS, RS)
s_chain = z3.Function("s_chain", RS, RS, RS)
s_join = z3.Function("s_join", smt.Ref, smt.TagSet, RS, RS, RS)  # predicate, common columns, X, Y

# ---- predicates / expressions ------------------------------------------------------
fv = z3.Function("fv", smt.Ref, smt.TagSet)  # free columns of a predicate / expression / container
fvp = z3.Function("fvp", SeqRef.sort, smt.IntS, smt.TagSet)  # union of fv over the first i elements
fvs = z3.Function("fvs", SeqRef.sort, smt.TagSet)  # union of fv over all elements
ev = z3.Function("ev", smt.Ref, Row, smt.BoolS)  # predicate value on a row
evx = z3.Function("evx", smt.Ref, Row, smt.IntS)  # expression value on a row
all_ev = z3.Function("all_ev", SeqRef.sort, Row, smt.BoolS)  # every element predicate holds
any_ev = z3.Function("any_ev", SeqRef.sort, Row, smt.BoolS)
ptrue = z3.Function("ptrue", smt.Ref, smt.BoolS)  # predicate true on every row
pfalse = z3.Function("pfalse", smt.Ref, smt.BoolS)
wit_t = z3.Function("wit_ptrue", smt.Ref, Row)  # skolem witnesses
wit_f = z3.Function("wit_pfalse", smt.Ref, Row)
wit_all = z3.Function("wit_all", SeqRef.sort, Row, smt.IntS)
wit_any = z3.Function("wit_any", SeqRef.sort, Row, smt.IntS)
lit_int = z3.Function("lit_int", smt.Ref, smt.IntS)  # integer meaning of a literal's value object
pfun = z3.Function("pfun", smt.StrS, smt.IntS, smt.IntS, smt.BoolS)  # uninterpreted named predicate functions
xfun = z3.Function("xfun", smt.StrS, smt.IntS, smt.IntS, smt.IntS)
in_cont = z3.Function("in_container", smt.Ref, smt.IntS, Row, smt.BoolS)
fvts = z3.Function("fvts", SeqRef.sort, smt.TagSet)  # free columns of a sort-term list
is_and = z3.Function("is_and", smt.Ref, smt.Ref, smt.Ref, smt.BoolS)
is_tcat = z3.Function("is_tcat", SeqRef.sort, SeqRef.sort, SeqRef.sort, smt.BoolS)
agree = z3.Function("agree", Row, Row, smt.TagSet, smt.BoolS)
pequiv = z3.Function("pequiv", smt.Ref, smt.Ref, smt.BoolS)
wit_and = z3.Function("wit_and", smt.Ref, smt.Ref, smt.Ref, Row)
wit_eqv = z3.Function("wit_eqv", smt.Ref, smt.Ref, Row)
tcatp = z3.Function("tcatp", SeqRef.sort, SeqRef.sort, smt.IntS, SeqRef.sort)  # Sort.then after i terms of a
smember = z3.Function("smember", SeqRef.sort, smt.Ref, smt.BoolS)  # x in s (dataclass equality)

# ---- engine support and validity of operations --------------------------------------
supp = z3.Function("supp", smt.Ref, smt.Ref, smt.BoolS)  # expression/predicate/container/sort term/operation supported by engine
all_supp = z3.Function("all_supp", SeqRef.sort, smt.Ref, smt.BoolS)
wit_supp = z3.Function("wit_supp", SeqRef.sort, smt.Ref, smt.IntS)
eng_isinst = z3.Function("eng_isinst", smt.Ref, smt.Ref, smt.BoolS)  # isinstance(engine, tuple-of-engine-types)
uvalid = z3.Function("uvalid", smt.Ref, smt.TagSet, smt.BoolS)  # unary operation well-formed on a target with these columns
pj_required = z3.Function("pj_required", smt.Ref, smt.TagSet)  # PartialJoin.columns_required
opreq = z3.Function("opreq", smt.Ref, smt.TagSet)
jresolve = z3.Function("jresolve", smt.Ref, smt.TagSet, smt.TagSet, smt.TagSet)  # common columns of a join on operands with these columns
keys_of = z3.Function("keys_of", smt.TagSet, smt.TagSet)  # the key tags of a column set
opcols = z3.Function("opcols", smt.Ref, smt.TagSet, smt.TagSet)  # column set after a unary operation on a target with columns T
fvtp = z3.Function("fvtp", SeqRef.sort, smt.IntS, smt.TagSet)  # free columns of the first i sort terms  # columns a unary operation needs on its target

# ---- iteration engine: row iterables and converted callables ----------------------------
content = z3.Function("content", smt.Ref, RS)  # rows a RowIterable yields (every time it is iterated)
s_dedup_key = z3.Function("s_dedup_key", smt.TagSet, RS, RS)  # dict keyed on these columns: first position, last row
s_mapc = z3.Function("s_mapc", smt.Tag, smt.Ref, RS, RS)  # add column computed by a callable
s_filterc = z3.Function("s_filterc", smt.Ref, RS, RS)  # keep rows a callable accepts
denotes_x = z3.Function("denotes_x", smt.Ref, smt.Ref, smt.BoolS)  # callable computes exactly this expression on every row
denotes_p = z3.Function("denotes_p", smt.Ref, smt.Ref, smt.BoolS)

# row-at-a-time view (generator bodies of the RowIterable classes); meaning: lean/RelAlg/Spec.lean, laws: spec/laws.py
rsnoc = z3.Function("rsnoc", RS, Row, RS)  # X ++ [r]
rprefix = z3.Function("rprefix", RS, smt.IntS, RS)  # the first i rows
row_put = z3.Function("row_put", Row, smt.Tag, smt.IntS, Row)  # {**r, t: v}
row_mask = z3.Function("row_mask", smt.TagSet, Row, Row)  # r restricted to a column set
capp = z3.Function("capp", smt.Ref, Row, smt.IntS)  # value a callable returns on a row (truthiness: != 0)

# the Sort arm of the iteration engine (contracts/sortarm.py)
s_sortc = z3.Function("s_sortc", SeqRef.sort, smt.BoolS, RS, RS)  # rows.sort(key=tuple of the callables' values, reverse=not asc): stable
tsuffix = z3.Function("tsuffix", SeqRef.sort, smt.IntS, SeqRef.sort)  # sort terms from index a on
tslice = z3.Function("tslice", SeqRef.sort, smt.IntS, smt.IntS, SeqRef.sort)  # sort terms [a, b)
den_terms = z3.Function("den_terms", SeqRef.sort, SeqRef.sort, smt.IntS, smt.IntS, smt.BoolS)  # callables denote the expressions of terms [a, b)
same_dir = z3.Function("same_dir", SeqRef.sort, smt.IntS, smt.IntS, smt.BoolS, smt.BoolS)  # terms [a, b) all have this direction

sem = z3.Function("sem", smt.Ref, RS, RS)  # unary operation applied to a row sequence
bsem = z3.Function("bsem", smt.Ref, RS, RS, RS)  # binary operation


class TRST(smt.TD):
    sort = RS
    name = "rows"


TRS = TRST()


class Spec:
    """Spec vocabulary bound to one executor (needs its class ids / attribute symbols)."""

    def __init__(self, ex):
        self.ex = ex
        self._axioms: list[z3.BoolRef] | None = None
        self.extra_axiom_providers: list = []
        self.laws_used: set[str] = set()
        ex.hooks.setdefault("seq_concat", self._concat_lemma)
        ex.hooks.setdefault("seq_snoc", self._snoc_lemma)
        ex.hooks.setdefault("seq_literal", self._literal_lemma)

    # Lemma instances about all_ev / any_ev / fvp over a concatenation.  Each instance is a consequence
    # of the pointwise definition of the concatenation and the definitions of the spec functions; the
    # general statements are proved by z3 from exactly those definitions in spec/lemmas.py (run by
    # every check that uses them), so they are not assumptions.
    def _literal_lemma(self, ex, items, c, st):
        if c.z.sort() != SeqRef.sort:
            return
        rho = z3.Const("rho", Row)
        u = smt.EMPTY_TAGS
        for it in items:
            u = z3.SetUnion(u, fv(it.z))
        st.assume(fvs(c.z) == u)
        g = z3.Const("g", smt.Ref)
        st.assume(z3.ForAll([g], all_supp(c.z, g) == z3.And(*[supp(it.z, g) for it in items], z3.BoolVal(True)), patterns=[all_supp(c.z, g)]))
        st.assume(z3.ForAll([rho], all_ev(c.z, rho) == z3.And(*[ev(it.z, rho) for it in items], z3.BoolVal(True)), patterns=[all_ev(c.z, rho)]))
        st.assume(z3.ForAll([rho], any_ev(c.z, rho) == z3.Or(*[ev(it.z, rho) for it in items], z3.BoolVal(False)), patterns=[any_ev(c.z, rho)]))

    def _concat_lemma(self, ex, a, b, c, st):
        if c.z.sort() != SeqRef.sort:
            return
        st.assume(fvs(c.z) == z3.SetUnion(fvs(a.z), fvs(b.z)))
        g = z3.Const("g", smt.Ref)
        st.assume(z3.ForAll([g], all_supp(c.z, g) == z3.And(all_supp(a.z, g), all_supp(b.z, g)), patterns=[all_supp(c.z, g)]))
        rho = z3.Const("rho", Row)
        st.assume(z3.ForAll([rho], all_ev(c.z, rho) == z3.And(all_ev(a.z, rho), all_ev(b.z, rho)), patterns=[all_ev(c.z, rho)]))
        st.assume(z3.ForAll([rho], any_ev(c.z, rho) == z3.Or(any_ev(a.z, rho), any_ev(b.z, rho)), patterns=[any_ev(c.z, rho)]))

    def _snoc_lemma(self, ex, a, x, c, st):
        if c.z.sort() != SeqRef.sort:
            return
        st.assume(fvs(c.z) == z3.SetUnion(fvs(a.z), fv(x.z)))
        g = z3.Const("g", smt.Ref)
        st.assume(z3.ForAll([g], all_supp(c.z, g) == z3.And(all_supp(a.z, g), supp(x.z, g)), patterns=[all_supp(c.z, g)]))
        rho = z3.Const("rho", Row)
        st.assume(z3.ForAll([rho], all_ev(c.z, rho) == z3.And(all_ev(a.z, rho), ev(x.z, rho)), patterns=[all_ev(c.z, rho)]))
        st.assume(z3.ForAll([rho], any_ev(c.z, rho) == z3.Or(any_ev(a.z, rho), ev(x.z, rho)), patterns=[any_ev(c.z, rho)]))

    # -- helpers -------------------------------------------------------------------
    def cid(self, name: str) -> int:
        return self.ex.types.cid(self.ex.repo.cls(name))

    def cls(self, name: str):
        return self.ex.repo.cls(name)

    def A(self, cls_name: str, attr: str):
        """Pure attribute symbol as a python callable on z3 terms."""
        ci = self.cls(cls_name)
        ex = self.ex
        obj = SV(TRefT(ci), z3.Const("dummy", smt.Ref))
        from pyvc.state import State

        proto = ex.spec_attr(obj, attr, State())
        decl = proto.z.decl()
        if proto.z.num_args() != 1 or not proto.z.arg(0).eq(obj.z):
            raise ValueError(f"attribute {cls_name}.{attr} is not a pure symbol ({proto.z})")
        return decl

    def is_a(self, z, cls_name: str):
        return self.ex.types.is_instance_z(z, self.cls(cls_name))

    def tag_attr(self, tag: SV, attr: str) -> SV:
        if attr == "is_key":
            return SV(TBool, is_key(tag.z))
        return SV(TStr, qname(tag.z))

    def rows_of(self, rel: SV) -> SV:
        return SV(TRS, rows(rel.z))

    # -- axioms --------------------------------------------------------------------
    def axioms(self) -> list[z3.BoolRef]:
        if self._axioms is None:
            ax: list[z3.BoolRef] = []
            a = z3.Const("a", smt.Ref)
            ax.append(smt.typ(smt.NONE) == 0)
            ax.append(z3.ForAll([a], smt.deq(a, a), patterns=[smt.deq(a, a)]))
            ax.extend(self.definitional_axioms())
            from spec.laws import law_axioms

            ax.extend(law_axioms(self))
            for p in self.extra_axiom_providers:
                ax.extend(p(self))
            for p in self.ex.reg.global_axioms:
                ax.extend(p(self.ex))
            self._axioms = ax
        return self._axioms

    def expression_axioms(self) -> list[z3.BoolRef]:
        """Meaning of predicates / expressions (DESIGN 3.1) and their free-column sets."""
        ax: list[z3.BoolRef] = []
        A, typ, cid = self.A, smt.typ, self.cid
        p = z3.Const("p", smt.Ref)
        rho = z3.Const("rho", Row)
        s = z3.Const("s", SeqRef.sort)
        i = z3.Int("i")
        at, ln = SeqRef.info.at, SeqRef.info.len
        # ptrue / pfalse with skolem witnesses
        ax.append(z3.ForAll([p, rho], z3.Implies(ptrue(p), ev(p, rho)), patterns=[z3.MultiPattern(ptrue(p), ev(p, rho))]))
        ax.append(z3.ForAll([p], z3.Implies(z3.Not(ptrue(p)), z3.Not(ev(p, wit_t(p)))), patterns=[ptrue(p)]))
        ax.append(z3.ForAll([p, rho], z3.Implies(pfalse(p), z3.Not(ev(p, rho))), patterns=[z3.MultiPattern(pfalse(p), ev(p, rho))]))
        ax.append(z3.ForAll([p], z3.Implies(z3.Not(pfalse(p)), ev(p, wit_f(p))), patterns=[pfalse(p)]))
        # all_ev / any_ev
        ax.append(z3.ForAll([s, rho, i], z3.Implies(z3.And(all_ev(s, rho), 0 <= i, i < ln(s)), ev(at(s, i), rho)),
                            patterns=[z3.MultiPattern(all_ev(s, rho), at(s, i))]))
        w = wit_all(s, rho)
        ax.append(z3.ForAll([s, rho], z3.Implies(z3.Not(all_ev(s, rho)), z3.And(0 <= w, w < ln(s), z3.Not(ev(at(s, w), rho)))), patterns=[all_ev(s, rho)]))
        ax.append(z3.ForAll([s, rho, i], z3.Implies(z3.And(z3.Not(any_ev(s, rho)), 0 <= i, i < ln(s)), z3.Not(ev(at(s, i), rho))),
                            patterns=[z3.MultiPattern(any_ev(s, rho), at(s, i))]))
        w2 = wit_any(s, rho)
        ax.append(z3.ForAll([s, rho], z3.Implies(any_ev(s, rho), z3.And(0 <= w2, w2 < ln(s), ev(at(s, w2), rho))), patterns=[any_ev(s, rho)]))
        # is_and / pequiv (semantic conjunction / equivalence) with skolem witnesses
        q, r = z3.Const("q", smt.Ref), z3.Const("r", smt.Ref)
        ax.append(z3.ForAll([r, p, q, rho], z3.Implies(is_and(r, p, q), ev(r, rho) == z3.And(ev(p, rho), ev(q, rho))),
                            patterns=[z3.MultiPattern(is_and(r, p, q), ev(r, rho))]))
        wa = wit_and(r, p, q)
        ax.append(z3.ForAll([r, p, q], z3.Implies(z3.Not(is_and(r, p, q)), ev(r, wa) != z3.And(ev(p, wa), ev(q, wa))), patterns=[is_and(r, p, q)]))
        ax.append(z3.ForAll([p, q, rho], z3.Implies(pequiv(p, q), ev(p, rho) == ev(q, rho)), patterns=[z3.MultiPattern(pequiv(p, q), ev(p, rho))]))
        we = wit_eqv(p, q)
        ax.append(z3.ForAll([p, q], z3.Implies(z3.Not(pequiv(p, q)), ev(p, we) != ev(q, we)), patterns=[pequiv(p, q)]))
        # Sort.then: b's terms, then each term of a not already present (dataclass equality)
        sa, sb, sc = z3.Const("sa", SeqRef.sort), z3.Const("sb", SeqRef.sort), z3.Const("sc", SeqRef.sort)
        snoc = SeqRef.info.snoc
        ax.append(z3.ForAll([sa, sb], tcatp(sa, sb, 0) == sb, patterns=[tcatp(sa, sb, 0)]))
        step = z3.If(smember(tcatp(sa, sb, i), at(sa, i)), tcatp(sa, sb, i), snoc(tcatp(sa, sb, i), at(sa, i)))
        ax.append(z3.ForAll([sa, sb, i], z3.Implies(z3.And(0 <= i, i < ln(sa)), tcatp(sa, sb, i + 1) == step), patterns=[z3.MultiPattern(tcatp(sa, sb, i), at(sa, i))]))
        ax.append(z3.ForAll([sc, sa, sb], is_tcat(sc, sa, sb) == (sc == tcatp(sa, sb, ln(sa))), patterns=[is_tcat(sc, sa, sb)]))
        # ev per predicate class
        def per(cls, body, fn=ev):
            ax.append(z3.ForAll([p, rho], z3.Implies(typ(p) == cid(cls), fn(p, rho) == body), patterns=[fn(p, rho)]))
        per("PredicateLiteral", A("PredicateLiteral", "value")(p))
        per("PredicateReference", row_get(rho, A("PredicateReference", "tag")(p)) != 0)
        per("LogicalNot", z3.Not(ev(A("LogicalNot", "operand")(p), rho)))
        per("LogicalAnd", all_ev(A("LogicalAnd", "operands")(p), rho))
        per("LogicalOr", any_ev(A("LogicalOr", "operands")(p), rho))
        per("ColumnInContainer", in_cont(A("ColumnInContainer", "container")(p), evx(A("ColumnInContainer", "item")(p), rho), rho))
        pargs, pname = A("PredicateFunction", "args"), A("PredicateFunction", "name")
        x0, x1 = evx(at(pargs(p), 0), rho), evx(at(pargs(p), 1), rho)
        cmpz = pfun(pname(p), x0, x1)
        for nm, f in (("__eq__", x0 == x1), ("__ne__", x0 != x1), ("__lt__", x0 < x1), ("__le__", x0 <= x1), ("__gt__", x0 > x1), ("__ge__", x0 >= x1)):
            cmpz = z3.If(pname(p) == z3.StringVal(nm), f, cmpz)
        per("PredicateFunction", cmpz)
        # evx per expression class
        per("ColumnLiteral", lit_int(A("ColumnLiteral", "value")(p)), evx)
        per("ColumnReference", row_get(rho, A("ColumnReference", "tag")(p)), evx)
        xargs, xname = A("ColumnFunction", "args"), A("ColumnFunction", "name")
        y0, y1 = evx(at(xargs(p), 0), rho), evx(at(xargs(p), 1), rho)
        xz = xfun(xname(p), y0, y1)
        for nm, f in (("__neg__", -y0), ("__add__", y0 + y1), ("__sub__", y0 - y1), ("__mul__", y0 * y1)):
            xz = z3.If(xname(p) == z3.StringVal(nm), f, xz)
        per("ColumnFunction", xz, evx)
        # containers
        v = z3.Int("v")
        rng = A("ColumnRangeLiteral", "value")(p)
        a_, b_, st_ = smt.Range.r_start(rng), smt.Range.r_stop(rng), smt.Range.r_step(rng)
        in_rng = z3.If(st_ > 0, z3.And(a_ <= v, v < b_, (v - a_) % st_ == 0), z3.And(st_ < 0, b_ < v, v <= a_, (a_ - v) % (-st_) == 0))
        ax.append(z3.ForAll([p, v, rho], z3.Implies(typ(p) == cid("ColumnRangeLiteral"), in_cont(p, v, rho) == in_rng), patterns=[in_cont(p, v, rho)]))
        items = A("ColumnExpressionSequence", "items")(p)
        k = z3.Int("k")
        ax.append(z3.ForAll([p, v, rho], z3.Implies(typ(p) == cid("ColumnExpressionSequence"),
                                                     in_cont(p, v, rho) == z3.Exists([k], z3.And(0 <= k, k < ln(items), evx(at(items, k), rho) == v))),
                            patterns=[in_cont(p, v, rho)]))
        # free columns
        def fvper(cls, body):
            ax.append(z3.ForAll([p], z3.Implies(typ(p) == cid(cls), fv(p) == body), patterns=[fv(p)]))
        fvper("PredicateLiteral", smt.EMPTY_TAGS)
        fvper("PredicateReference", z3.SetAdd(smt.EMPTY_TAGS, A("PredicateReference", "tag")(p)))
        fvper("LogicalNot", fv(A("LogicalNot", "operand")(p)))
        fvper("LogicalAnd", fvp(A("LogicalAnd", "operands")(p), ln(A("LogicalAnd", "operands")(p))))
        fvper("LogicalOr", fvp(A("LogicalOr", "operands")(p), ln(A("LogicalOr", "operands")(p))))
        fvper("PredicateFunction", fvp(pargs(p), ln(pargs(p))))
        fvper("ColumnInContainer", z3.SetUnion(fv(A("ColumnInContainer", "item")(p)), fv(A("ColumnInContainer", "container")(p))))
        fvper("ColumnLiteral", smt.EMPTY_TAGS)
        fvper("ColumnReference", z3.SetAdd(smt.EMPTY_TAGS, A("ColumnReference", "tag")(p)))
        fvper("ColumnFunction", fvp(xargs(p), ln(xargs(p))))
        fvper("ColumnRangeLiteral", smt.EMPTY_TAGS)
        fvper("ColumnExpressionSequence", fvp(items, ln(items)))
        ax.append(z3.ForAll([s], fvp(s, 0) == smt.EMPTY_TAGS, patterns=[fvp(s, 0)]))
        # only this trigger: a pattern on fvp(s, i + 1) makes E-matching loop (i + 1 matches every integer term)
        ax.append(z3.ForAll([s, i], z3.Implies(i >= 0, fvp(s, i + 1) == z3.SetUnion(fvp(s, i), fv(at(s, i)))), patterns=[z3.MultiPattern(fvp(s, i), at(s, i))]))
        ax.append(z3.ForAll([s], fvs(s) == fvp(s, ln(s)), patterns=[fvs(s)]))
        ax.append(z3.ForAll([s, i], z3.Implies(z3.And(0 <= i, i < ln(s)), z3.IsSubset(fv(at(s, i)), fvp(s, ln(s)))), patterns=[z3.MultiPattern(fvp(s, ln(s)), at(s, i))]))
        ax.append(z3.ForAll([s, i], z3.Implies(z3.And(0 <= i, i < ln(s)), z3.IsSubset(fv(at(s, i)), fvs(s))), patterns=[z3.MultiPattern(fvs(s), at(s, i))]))
        return ax

    def support_axioms(self) -> list[z3.BoolRef]:
        ax: list[z3.BoolRef] = []
        A, typ, cid = self.A, smt.typ, self.cid
        x, g = z3.Const("x", smt.Ref), z3.Const("g", smt.Ref)
        s = z3.Const("s", SeqRef.sort)
        i = z3.Int("i")
        at, ln = SeqRef.info.at, SeqRef.info.len
        ax.append(z3.ForAll([s, g, i], z3.Implies(z3.And(all_supp(s, g), 0 <= i, i < ln(s)), supp(at(s, i), g)), patterns=[z3.MultiPattern(all_supp(s, g), at(s, i))]))
        w = wit_supp(s, g)
        ax.append(z3.ForAll([s, g], z3.Implies(z3.Not(all_supp(s, g)), z3.And(0 <= w, w < ln(s), z3.Not(supp(at(s, w), g)))), patterns=[all_supp(s, g)]))

        def per(cls, body):
            ax.append(z3.ForAll([x, g], z3.Implies(typ(x) == cid(cls), supp(x, g) == body), patterns=[supp(x, g)]))

        for c in ("ColumnLiteral", "ColumnReference", "PredicateLiteral", "PredicateReference", "ColumnRangeLiteral",
                  "Deduplication", "Projection", "Slice", "Identity", "PartialJoin"):
            per(c, z3.BoolVal(True))
        for c in ("ColumnFunction", "PredicateFunction"):
            types = A(c, "supporting_engine_types")(x)
            per(c, z3.And(z3.Or(types == smt.NONE, eng_isinst(g, types)), all_supp(A(c, "args")(x), g)))
        per("LogicalNot", supp(A("LogicalNot", "operand")(x), g))
        per("LogicalAnd", all_supp(A("LogicalAnd", "operands")(x), g))
        per("LogicalOr", all_supp(A("LogicalOr", "operands")(x), g))
        per("ColumnInContainer", z3.And(supp(A("ColumnInContainer", "item")(x), g), supp(A("ColumnInContainer", "container")(x), g)))
        per("ColumnExpressionSequence", all_supp(A("ColumnExpressionSequence", "items")(x), g))
        per("SortTerm", supp(A("SortTerm", "expression")(x), g))
        per("Calculation", supp(A("Calculation", "expression")(x), g))
        per("Selection", supp(A("Selection", "predicate")(x), g))
        per("Sort", all_supp(A("Sort", "terms")(x), g))
        # validity of a unary operation on a target with column set T
        T = z3.Const("T", smt.TagSet)

        def rper(cls, body):
            ax.append(z3.ForAll([x], z3.Implies(typ(x) == cid(cls), opreq(x) == body), patterns=[opreq(x)]))

        rper("Calculation", fv(A("Calculation", "expression")(x)))
        rper("Projection", A("Projection", "columns")(x))
        rper("Selection", fv(A("Selection", "predicate")(x)))
        rper("Sort", fvts(A("Sort", "terms")(x)))
        for c in ("Slice", "Deduplication", "Identity"):
            rper(c, smt.EMPTY_TAGS)
        rper("PartialJoin", pj_required(x))
        ax.append(z3.ForAll([x, T], uvalid(x, T) == z3.And(z3.IsSubset(opreq(x), T),
                                                           z3.Implies(typ(x) == cid("Calculation"), z3.Not(z3.IsMember(A("Calculation", "tag")(x), T)))),
                            patterns=[uvalid(x, T)]))
        def cper(cls, body):
            ax.append(z3.ForAll([x, T], z3.Implies(typ(x) == cid(cls), opcols(x, T) == body), patterns=[opcols(x, T)]))

        cper("Calculation", z3.SetAdd(T, A("Calculation", "tag")(x)))
        cper("Projection", A("Projection", "columns")(x))
        for c in ("Selection", "Sort", "Slice", "Deduplication", "Identity"):
            cper(c, T)
        cper("PartialJoin", z3.SetUnion(T, A("BaseRelation", "columns")(A("PartialJoin", "fixed")(x))))
        XX = z3.Const("XX", RS)
        ax.append(z3.ForAll([x, XX], z3.Implies(typ(x) != cid("PartialJoin"), rcols(sem(x, XX)) == opcols(x, rcols(XX))), patterns=[sem(x, XX)]))
        jb = A("PartialJoin", "binary")(x)
        fx = A("PartialJoin", "fixed")(x)
        ax.append(z3.ForAll([x], z3.Implies(typ(x) == cid("PartialJoin"),
                                             pj_required(x) == z3.SetUnion(z3.SetDifference(fv(A("Join", "predicate")(jb)), A("BaseRelation", "columns")(fx)), A("Join", "min_columns")(jb))),
                            patterns=[pj_required(x)]))
        # free columns of a sort-term list: union over the terms' expressions
        self.fvtp = fvtp
        ax.append(z3.ForAll([s], fvtp(s, 0) == smt.EMPTY_TAGS, patterns=[fvtp(s, 0)]))
        stx = A("SortTerm", "expression")
        ax.append(z3.ForAll([s, i], z3.Implies(i >= 0, fvtp(s, i + 1) == z3.SetUnion(fvtp(s, i), fv(stx(at(s, i))))), patterns=[z3.MultiPattern(fvtp(s, i), at(s, i))]))
        ax.append(z3.ForAll([s], fvts(s) == fvtp(s, ln(s)), patterns=[fvts(s)]))
        ax.append(z3.ForAll([s, i], z3.Implies(z3.And(0 <= i, i < ln(s)), z3.IsSubset(fv(stx(at(s, i))), fvts(s))), patterns=[z3.MultiPattern(fvts(s), at(s, i))]))
        return ax

    def definitional_axioms(self) -> list[z3.BoolRef]:
        ax: list[z3.BoolRef] = self.expression_axioms() + self.support_axioms()
        r = z3.Const("r", smt.Ref)
        op = z3.Const("op", smt.Ref)
        X = z3.Const("X", RS)
        Y = z3.Const("Y", RS)
        typ = smt.typ
        A = self.A
        # rows of the node kinds (definition of the oracle on trees)
        u_op, u_t = A("UnaryOperationRelation", "operation"), A("UnaryOperationRelation", "target")
        ax.append(z3.ForAll([r], z3.Implies(typ(r) == self.cid("UnaryOperationRelation"), rows(r) == sem(u_op(r), rows(u_t(r)))), patterns=[rows(r)]))
        b_op, b_l, b_r = A("BinaryOperationRelation", "operation"), A("BinaryOperationRelation", "lhs"), A("BinaryOperationRelation", "rhs")
        ax.append(z3.ForAll([r], z3.Implies(typ(r) == self.cid("BinaryOperationRelation"), rows(r) == bsem(b_op(r), rows(b_l(r)), rows(b_r(r)))), patterns=[rows(r)]))
        m_t = A("MarkerRelation", "target")
        ax.append(z3.ForAll([r], z3.Implies(self.is_a(r, "MarkerRelation"), rows(r) == rows(m_t(r))), patterns=[rows(r)]))
        # sem per operation class
        ax.append(z3.ForAll([op, X], z3.Implies(typ(op) == self.cid("Calculation"), sem(op, X) == s_calc(A("Calculation", "tag")(op), A("Calculation", "expression")(op), X)), patterns=[sem(op, X)]))
        ax.append(z3.ForAll([op, X], z3.Implies(typ(op) == self.cid("Deduplication"), sem(op, X) == s_dedup(X)), patterns=[sem(op, X)]))
        ax.append(z3.ForAll([op, X], z3.Implies(typ(op) == self.cid("Projection"), sem(op, X) == s_proj(A("Projection", "columns")(op), X)), patterns=[sem(op, X)]))
        ax.append(z3.ForAll([op, X], z3.Implies(typ(op) == self.cid("Selection"), sem(op, X) == s_filter(A("Selection", "predicate")(op), X)), patterns=[sem(op, X)]))
        ax.append(z3.ForAll([op, X], z3.Implies(typ(op) == self.cid("Slice"), sem(op, X) == s_slice(A("Slice", "start")(op), A("Slice", "stop")(op), X)), patterns=[sem(op, X)]))
        ax.append(z3.ForAll([op, X], z3.Implies(typ(op) == self.cid("Sort"), sem(op, X) == s_sort(A("Sort", "terms")(op), X)), patterns=[sem(op, X)]))
        ax.append(z3.ForAll([op, X], z3.Implies(typ(op) == self.cid("Identity"), sem(op, X) == X), patterns=[sem(op, X)]))
        pj_b, pj_f, pj_l = A("PartialJoin", "binary"), A("PartialJoin", "fixed"), A("PartialJoin", "fixed_is_lhs")
        ax.append(z3.ForAll([op, X], z3.Implies(typ(op) == self.cid("PartialJoin"),
                                                 sem(op, X) == z3.If(pj_l(op), bsem(pj_b(op), rows(pj_f(op)), X), bsem(pj_b(op), X, rows(pj_f(op))))),
                            patterns=[sem(op, X)]))
        # bsem per binary operation class
        ax.append(z3.ForAll([op, X, Y], z3.Implies(typ(op) == self.cid("Chain"), bsem(op, X, Y) == s_chain(X, Y)), patterns=[bsem(op, X, Y)]))
        j_p, j_min, j_max = A("Join", "predicate"), A("Join", "min_columns"), A("Join", "max_columns")
        ax.append(z3.ForAll([op, X, Y], z3.Implies(typ(op) == self.cid("Join"), bsem(op, X, Y) == s_join(j_p(op), jresolve(op, rcols(X), rcols(Y)), X, Y)), patterns=[bsem(op, X, Y)]))
        # natural join: unless explicitly resolved (min == max), the common columns are the key columns both operands have (within max)
        CX, CY = z3.Const("CX", smt.TagSet), z3.Const("CY", smt.TagSet)
        tg = z3.Const("tg", smt.Tag)
        ax.append(z3.ForAll([CX, tg], z3.IsMember(tg, keys_of(CX)) == z3.And(z3.IsMember(tg, CX), is_key(tg)), patterns=[z3.IsMember(tg, keys_of(CX))]))
        shared = keys_of(z3.SetIntersect(CX, CY))
        auto = z3.If(smt.OptTagSet.is_ots_none(j_max(op)), shared, z3.SetIntersect(shared, smt.OptTagSet.ots_val(j_max(op))))
        ax.append(z3.ForAll([op, CX, CY], z3.Implies(typ(op) == self.cid("Join"),
                                                       jresolve(op, CX, CY) == z3.If(j_max(op) == smt.OptTagSet.ots_some(j_min(op)), j_min(op), auto)),
                            patterns=[jresolve(op, CX, CY)]))
        ig = A("IgnoreOne", "ignore_lhs")
        ax.append(z3.ForAll([op, X, Y], z3.Implies(typ(op) == self.cid("IgnoreOne"), bsem(op, X, Y) == z3.If(ig(op), Y, X)), patterns=[bsem(op, X, Y)]))
        return ax
