"""Specification vocabulary shared by all contracts (DESIGN.md section 3)."""
from __future__ import annotations

import z3

from pyvc import smt
from pyvc.smt import SV, TBool, TInt, TStr, TTag

is_key = z3.Function("is_key", smt.Tag, smt.BoolS)
qname = z3.Function("qualified_name", smt.Tag, smt.StrS)


class Spec:
    """Spec vocabulary bound to one executor (needs its class ids / attribute symbols)."""

    def __init__(self, ex):
        self.ex = ex
        self._axioms: list[z3.BoolRef] = []
        self._built = False
        self.extra_axiom_providers: list = []

    def tag_attr(self, tag: SV, attr: str) -> SV:
        if attr == "is_key":
            return SV(TBool, is_key(tag.z))
        return SV(TStr, qname(tag.z))

    def axioms(self) -> list[z3.BoolRef]:
        if not self._built:
            self._built = True
            a = z3.Const("a", smt.Ref)
            self._axioms.append(smt.typ(smt.NONE) == 0)
            self._axioms.append(z3.ForAll([a], smt.deq(a, a), patterns=[smt.deq(a, a)]))
            for p in self.extra_axiom_providers:
                self._axioms.extend(p(self))
        return self._axioms
