"""The law library (DESIGN.md 3.3): facts about the row-sequence operators.

One table, several printers.  A law is a Python function over an abstract backend ``B``;
instantiating it with

* ``Z3Backend``     gives the quantified SMT axiom used by the VCs,
* ``NativeBackend`` evaluates it on concrete rows (bounded check of the law itself; also the
                    evidence that the axiom set has a model, i.e. is consistent),
* ``LeanBackend``   prints the Lean 4 statement proved in /verif/lean (where done).

Because all three come from the same entry there is no hand transcription between what is
checked/proved and what the VCs assume.
"""
from __future__ import annotations

import dataclasses
from typing import Any, Callable

import z3

from pyvc import smt

# variable kinds: RS (row sequence), Pred, Expr, Tag, TagSet, Int, OptInt, Terms (sort terms), Row


@dataclasses.dataclass
class Law:
    name: str
    tier: str  # L (length/columns), T1, T2, T3
    vars: list[tuple[str, str]]  # (name, kind)
    body: Callable  # (B, *vars) -> formula
    trigger: Callable | None  # (B, *vars) -> term(s) used as E-matching pattern
    status: str = "assumed, bounded-checked"
    lean: str | None = None


LAWS: list[Law] = []


def law(name: str, tier: str, vars: str, trigger: Callable | None = None, status: str = "assumed, bounded-checked", lean: str | None = None):
    vs = [tuple(v.split(":")) for v in vars.split()]

    def deco(fn):
        LAWS.append(Law(name, tier, vs, fn, trigger, status, lean))  # type: ignore[arg-type]
        return fn

    return deco


# ======================================================================== Z3 backend
class Z3Backend:
    def __init__(self):
        from spec import vocab as V

        self.V = V
        self.sorts = {"RS": V.RS, "Pred": smt.Ref, "Expr": smt.Ref, "Callable": smt.Ref, "Tag": smt.Tag, "TagSet": smt.TagSet, "Int": smt.IntS,
                      "OptInt": smt.OptInt, "Terms": V.SeqRef.sort, "Callables": V.SeqRef.sort, "Row": V.Row, "Bool": smt.BoolS}

    def var(self, name, kind):
        return z3.Const(name, self.sorts[kind])

    # sequences
    def rlen(self, X): return self.V.rlen(X)
    def rcols(self, X): return self.V.rcols(X)
    def empty(self, C): return self.V.REMPTY(C)
    def unit(self): return self.V.RUNIT
    def filter(self, p, X): return self.V.s_filter(p, X)
    def calc(self, t, e, X): return self.V.s_calc(t, e, X)
    def proj(self, P, X): return self.V.s_proj(P, X)
    def dedup(self, X): return self.V.s_dedup(X)
    def sort(self, ts, X): return self.V.s_sort(ts, X)
    def slice(self, a, b, X): return self.V.s_slice(a, b, X)
    def chain(self, X, Y): return self.V.s_chain(X, Y)
    def join(self, p, K, X, Y): return self.V.s_join(p, K, X, Y)
    # expressions
    def fv(self, p): return self.V.fv(p)
    def fvx(self, e): return self.V.fvx(e)
    def fvts(self, ts): return self.V.fvts(ts)
    def ptrue(self, p): return self.V.ptrue(p)  # predicate true on every row
    def pfalse(self, p): return self.V.pfalse(p)
    def pand(self, p, q, r): return self.V.is_and(r, p, q)  # r denotes p AND q
    def tcat(self, a, b, c): return self.V.is_tcat(c, a, b)  # c = sort-term list "b's terms first, then a's not already present"
    def pequiv(self, p, q): return self.V.pequiv(p, q)
    def dedup_key(self, K, X): return self.V.s_dedup_key(K, X)
    def mapc(self, t, cl, X): return self.V.s_mapc(t, cl, X)
    def filterc(self, cl, X): return self.V.s_filterc(cl, X)
    def sortc(self, cs, d, X): return self.V.s_sortc(cs, d, X)
    def tsuffix(self, ts, a): return self.V.tsuffix(ts, a)
    def tslice(self, ts, a, b): return self.V.tslice(ts, a, b)
    def den_terms(self, cs, ts, a, b): return self.V.den_terms(cs, ts, a, b)
    def same_dir(self, ts, a, b, d): return self.V.same_dir(ts, a, b, d)
    def snoc(self, X, r): return self.V.rsnoc(X, r)
    def prefix(self, X, i): return self.V.rprefix(X, i)
    def nth(self, X, i): return self.V.rnth(X, i)
    def rput(self, r, t, v): return self.V.row_put(r, t, v)
    def rmask(self, P, r): return self.V.row_mask(P, r)
    def capp(self, cl, r): return self.V.capp(cl, r)
    def den_x(self, cl, e): return self.V.denotes_x(cl, e)
    def den_p(self, cl, p): return self.V.denotes_p(cl, p)
    def tlen(self, ts): return self.V.SeqRef.info.len(ts)
    # ints / optints
    def i(self, n): return z3.IntVal(n)
    def emod(self, a, b): return a % b
    def ediv(self, a, b): return a / b
    def add(self, a, b): return a + b
    def sub(self, a, b): return a - b
    def mul(self, a, b): return a * b
    def le(self, a, b): return a <= b
    def lt(self, a, b): return a < b
    def max(self, a, b): return smt.zmax(a, b)
    def min(self, a, b): return smt.zmin(a, b)
    def is_none(self, b): return smt.OptInt.is_oi_none(b)
    def val(self, b): return smt.OptInt.oi_val(b)
    def some(self, a): return smt.OptInt.oi_some(a)
    def none(self): return smt.OptInt.oi_none
    # sets
    def eset(self): return smt.EMPTY_TAGS
    def sadd(self, S, t): return z3.SetAdd(S, t)
    def sdel(self, S, t): return z3.SetDel(S, t)
    def union(self, A, B): return z3.SetUnion(A, B)
    def inter(self, A, B): return z3.SetIntersect(A, B)
    def subset(self, A, B): return z3.IsSubset(A, B)
    def member(self, t, S): return z3.IsMember(t, S)
    # logic
    def eq(self, a, b): return a == b
    def iff(self, a, b): return a == b
    def neg(self, a): return -a
    def and_(self, *xs): return z3.And(*xs)
    def or_(self, *xs): return z3.Or(*xs)
    def not_(self, x): return z3.Not(x)
    def implies(self, a, b): return z3.Implies(a, b)
    def ite(self, c, a, b): return z3.If(c, a, b)

    def axiom(self, l: Law) -> z3.BoolRef:
        vs = [self.var(n, k) for n, k in l.vars]
        body = l.body(self, *vs)
        if not vs:
            return body
        pats = []
        if l.trigger is not None:
            t = l.trigger(self, *vs)
            if isinstance(t, tuple):  # all terms must match together
                pats = [z3.MultiPattern(*t)]
            else:  # alternatives
                pats = list(t) if isinstance(t, list) else [t]
        return z3.ForAll(vs, body, patterns=pats) if pats else z3.ForAll(vs, body)


def law_axioms(spec, tiers: tuple[str, ...] | None = None) -> list[z3.BoolRef]:
    B = Z3Backend()
    # laws without a trigger (integer arithmetic) are only used through explicit instances (spec.laws.instance)
    return [B.axiom(l) for l in LAWS if (tiers is None or l.tier in tiers) and not (l.trigger is None and l.vars)]


# ================================================================= the laws themselves
# ---- tier L: lengths and column sets
@law("len-nonneg", "L", "X:RS", lambda B, X: B.rlen(X))
def _(B, X):
    return B.le(B.i(0), B.rlen(X))


@law("empty", "L", "C:TagSet", lambda B, C: B.empty(C))
def _(B, C):
    return B.and_(B.eq(B.rlen(B.empty(C)), B.i(0)), B.eq(B.rcols(B.empty(C)), C))


@law("empty-unique", "L", "X:RS", lambda B, X: B.rlen(X))
def _(B, X):
    return B.implies(B.eq(B.rlen(X), B.i(0)), B.eq(X, B.empty(B.rcols(X))))


@law("unit", "L", "")
def _(B):
    return B.and_(B.eq(B.rlen(B.unit()), B.i(1)), B.eq(B.rcols(B.unit()), B.eset()))


@law("unit-unique", "L", "X:RS", lambda B, X: (B.rlen(X), B.rcols(X)))
def _(B, X):
    return B.implies(B.and_(B.eq(B.rlen(X), B.i(1)), B.eq(B.rcols(X), B.eset())), B.eq(X, B.unit()))


@law("filter-len-cols", "L", "p:Pred X:RS", lambda B, p, X: B.filter(p, X))
def _(B, p, X):
    f = B.filter(p, X)
    return B.and_(B.le(B.rlen(f), B.rlen(X)), B.eq(B.rcols(f), B.rcols(X)))


@law("calc-len-cols", "L", "t:Tag e:Expr X:RS", lambda B, t, e, X: B.calc(t, e, X))
def _(B, t, e, X):
    f = B.calc(t, e, X)
    return B.and_(B.eq(B.rlen(f), B.rlen(X)), B.eq(B.rcols(f), B.sadd(B.rcols(X), t)))


@law("proj-len-cols", "L", "P:TagSet X:RS", lambda B, P, X: B.proj(P, X))
def _(B, P, X):
    f = B.proj(P, X)
    return B.and_(B.eq(B.rlen(f), B.rlen(X)), B.eq(B.rcols(f), P))


@law("dedup-len-cols", "L", "X:RS", lambda B, X: B.dedup(X))
def _(B, X):
    f = B.dedup(X)
    return B.and_(
        B.le(B.rlen(f), B.rlen(X)),
        B.implies(B.le(B.i(1), B.rlen(X)), B.le(B.i(1), B.rlen(f))),
        B.implies(B.eq(B.rcols(X), B.eset()), B.le(B.rlen(f), B.i(1))),
        B.eq(B.rcols(f), B.rcols(X)),
    )


@law("sort-len-cols", "L", "ts:Terms X:RS", lambda B, ts, X: B.sort(ts, X))
def _(B, ts, X):
    f = B.sort(ts, X)
    return B.and_(B.eq(B.rlen(f), B.rlen(X)), B.eq(B.rcols(f), B.rcols(X)))


@law("slice-len-cols", "L", "a:Int b:OptInt X:RS", lambda B, a, b, X: B.slice(a, b, X))
def _(B, a, b, X):
    f = B.slice(a, b, X)
    hi = B.ite(B.is_none(b), B.rlen(X), B.min(B.val(b), B.rlen(X)))
    return B.implies(
        B.and_(B.le(B.i(0), a), B.or_(B.is_none(b), B.le(B.i(0), B.val(b)))),
        B.and_(B.eq(B.rlen(f), B.max(B.sub(hi, a), B.i(0))), B.eq(B.rcols(f), B.rcols(X))),
    )


@law("chain-len-cols", "L", "X:RS Y:RS", lambda B, X, Y: B.chain(X, Y))
def _(B, X, Y):
    f = B.chain(X, Y)
    return B.and_(B.eq(B.rlen(f), B.add(B.rlen(X), B.rlen(Y))), B.eq(B.rcols(f), B.rcols(X)))


@law("chain-empty", "L", "X:RS Y:RS", lambda B, X, Y: B.chain(X, Y))
def _(B, X, Y):
    f = B.chain(X, Y)
    same = B.eq(B.rcols(X), B.rcols(Y))
    return B.and_(B.implies(B.and_(same, B.eq(B.rlen(X), B.i(0))), B.eq(f, Y)), B.implies(B.and_(same, B.eq(B.rlen(Y), B.i(0))), B.eq(f, X)))


@law("join-len-cols", "L", "p:Pred K:TagSet X:RS Y:RS", lambda B, p, K, X, Y: B.join(p, K, X, Y))
def _(B, p, K, X, Y):
    f = B.join(p, K, X, Y)
    return B.and_(B.le(B.rlen(f), B.mul(B.rlen(X), B.rlen(Y))), B.eq(B.rcols(f), B.union(B.rcols(X), B.rcols(Y))))


@law("join-unit", "L", "p:Pred K:TagSet X:RS", lambda B, p, K, X: [B.join(p, K, B.unit(), X), B.join(p, K, X, B.unit())])
def _(B, p, K, X):
    return B.implies(
        B.and_(B.eq(K, B.eset()), B.subset(B.fv(p), B.rcols(X))),
        B.and_(B.eq(B.join(p, K, B.unit(), X), B.filter(p, X)), B.eq(B.join(p, K, X, B.unit()), B.filter(p, X))),
    )


@law("filter-true", "L", "p:Pred X:RS", lambda B, p, X: B.filter(p, X))
def _(B, p, X):
    return B.and_(B.implies(B.ptrue(p), B.eq(B.filter(p, X), X)),
                  B.implies(B.pfalse(p), B.eq(B.rlen(B.filter(p, X)), B.i(0))))


@law("join-false", "L", "p:Pred K:TagSet X:RS Y:RS", lambda B, p, K, X, Y: B.join(p, K, X, Y))
def _(B, p, K, X, Y):
    return B.implies(B.pfalse(p), B.eq(B.rlen(B.join(p, K, X, Y)), B.i(0)))


@law("join-empty", "L", "p:Pred K:TagSet X:RS Y:RS", lambda B, p, K, X, Y: B.join(p, K, X, Y))
def _(B, p, K, X, Y):
    return B.implies(B.or_(B.eq(B.rlen(X), B.i(0)), B.eq(B.rlen(Y), B.i(0))), B.eq(B.rlen(B.join(p, K, X, Y)), B.i(0)))


# ---- tier T1: algebra of the operators (core List lemmas)
@law("slice-identity", "T1", "a:Int b:OptInt X:RS", lambda B, a, b, X: B.slice(a, b, X))
def _(B, a, b, X):
    return B.implies(B.and_(B.eq(a, B.i(0)), B.is_none(b)), B.eq(B.slice(a, b, X), X))


def win_equiv(B, a1, b1, a2, b2, A, Bv):
    """The index window of slice (A,Bv) equals that of slice (a2,b2) applied after slice (a1,b1)."""
    S = B.add(a1, a2)
    e_none = B.and_(B.is_none(b1), B.is_none(b2))
    E = B.ite(B.is_none(b1), B.add(a1, B.val(b2)), B.ite(B.is_none(b2), B.val(b1), B.min(B.val(b1), B.add(a1, B.val(b2)))))
    comp_empty = B.and_(B.not_(e_none), B.le(E, S))
    res_empty = B.and_(B.not_(B.is_none(Bv)), B.le(B.val(Bv), A))
    same = B.and_(B.eq(A, S), B.ite(e_none, B.is_none(Bv), B.and_(B.not_(B.is_none(Bv)), B.eq(B.val(Bv), E))))
    return B.or_(B.and_(comp_empty, res_empty), B.and_(B.not_(comp_empty), same))


def wf(B, a, b):
    return B.and_(B.le(B.i(0), a), B.or_(B.is_none(b), B.le(a, B.val(b))))


@law("slice-slice", "T1", "a1:Int b1:OptInt a2:Int b2:OptInt A:Int Bv:OptInt X:RS",
     lambda B, a1, b1, a2, b2, A, Bv, X: (B.slice(a2, b2, B.slice(a1, b1, X)), B.slice(A, Bv, X)))
def _(B, a1, b1, a2, b2, A, Bv, X):
    return B.implies(B.and_(wf(B, a1, b1), wf(B, a2, b2), wf(B, A, Bv), win_equiv(B, a1, b1, a2, b2, A, Bv)),
                     B.eq(B.slice(a2, b2, B.slice(a1, b1, X)), B.slice(A, Bv, X)))


@law("sort-empty", "T1", "ts:Terms X:RS", lambda B, ts, X: B.sort(ts, X))
def _(B, ts, X):
    return B.implies(B.eq(B.tlen(ts), B.i(0)), B.eq(B.sort(ts, X), X))


@law("sort-sort", "T2", "a:Terms b:Terms c:Terms X:RS", lambda B, a, b, c, X: (B.sort(b, B.sort(a, X)), B.sort(c, X)))
def _(B, a, b, c, X):
    return B.implies(B.tcat(a, b, c), B.eq(B.sort(b, B.sort(a, X)), B.sort(c, X)))


@law("filter-filter", "T1", "p:Pred q:Pred r:Pred X:RS", lambda B, p, q, r, X: (B.filter(q, B.filter(p, X)), B.filter(r, X)))
def _(B, p, q, r, X):
    return B.implies(B.pand(p, q, r), B.eq(B.filter(q, B.filter(p, X)), B.filter(r, X)))


@law("filter-ext", "T1", "p:Pred q:Pred X:RS", lambda B, p, q, X: (B.filter(p, X), B.filter(q, X)))
def _(B, p, q, X):
    return B.implies(B.pequiv(p, q), B.eq(B.filter(p, X), B.filter(q, X)))


@law("proj-proj", "T1", "P:TagSet Q:TagSet X:RS", lambda B, P, Q, X: B.proj(P, B.proj(Q, X)))
def _(B, P, Q, X):
    return B.implies(B.subset(P, Q), B.eq(B.proj(P, B.proj(Q, X)), B.proj(P, X)))


@law("proj-calc-drop", "T1", "P:TagSet t:Tag e:Expr X:RS", lambda B, P, t, e, X: B.proj(P, B.calc(t, e, X)))
def _(B, P, t, e, X):
    return B.implies(B.not_(B.member(t, P)), B.eq(B.proj(P, B.calc(t, e, X)), B.proj(P, X)))


@law("proj-full", "T1", "P:TagSet X:RS", lambda B, P, X: B.proj(P, X))
def _(B, P, X):
    return B.implies(B.eq(P, B.rcols(X)), B.eq(B.proj(P, X), X))


@law("calc-calc", "T1", "t1:Tag e1:Expr t2:Tag e2:Expr X:RS", lambda B, t1, e1, t2, e2, X: B.calc(t2, e2, B.calc(t1, e1, X)))
def _(B, t1, e1, t2, e2, X):
    return B.implies(B.and_(B.not_(B.eq(t1, t2)), B.not_(B.member(t1, B.fv(e2))), B.not_(B.member(t2, B.fv(e1)))),
                     B.eq(B.calc(t2, e2, B.calc(t1, e1, X)), B.calc(t1, e1, B.calc(t2, e2, X))))


@law("calc-proj", "T1", "t:Tag e:Expr P:TagSet X:RS", lambda B, t, e, P, X: [B.calc(t, e, B.proj(P, X)), B.proj(B.sadd(P, t), B.calc(t, e, X))])
def _(B, t, e, P, X):
    return B.implies(B.subset(B.fv(e), P), B.eq(B.proj(B.sadd(P, t), B.calc(t, e, X)), B.calc(t, e, B.proj(P, X))))


@law("calc-dedup", "T2", "t:Tag e:Expr X:RS", lambda B, t, e, X: [B.dedup(B.calc(t, e, X)), B.calc(t, e, B.dedup(X))])
def _(B, t, e, X):
    return B.implies(B.and_(B.not_(B.member(t, B.rcols(X))), B.subset(B.fv(e), B.rcols(X))),
                     B.eq(B.dedup(B.calc(t, e, X)), B.calc(t, e, B.dedup(X))))


@law("calc-filter", "T1", "t:Tag e:Expr p:Pred X:RS", lambda B, t, e, p, X: [B.filter(p, B.calc(t, e, X)), B.calc(t, e, B.filter(p, X))])
def _(B, t, e, p, X):
    return B.implies(B.not_(B.member(t, B.fv(p))), B.eq(B.filter(p, B.calc(t, e, X)), B.calc(t, e, B.filter(p, X))))


@law("calc-slice", "T1", "t:Tag e:Expr a:Int b:OptInt X:RS", lambda B, t, e, a, b, X: [B.slice(a, b, B.calc(t, e, X)), B.calc(t, e, B.slice(a, b, X))])
def _(B, t, e, a, b, X):
    return B.implies(wf(B, a, b), B.eq(B.slice(a, b, B.calc(t, e, X)), B.calc(t, e, B.slice(a, b, X))))


@law("calc-sort", "T2", "t:Tag e:Expr ts:Terms X:RS", lambda B, t, e, ts, X: [B.sort(ts, B.calc(t, e, X)), B.calc(t, e, B.sort(ts, X))])
def _(B, t, e, ts, X):
    return B.implies(B.not_(B.member(t, B.fvts(ts))), B.eq(B.sort(ts, B.calc(t, e, X)), B.calc(t, e, B.sort(ts, X))))


@law("dedup-dedup", "T2", "X:RS", lambda B, X: B.dedup(B.dedup(X)))
def _(B, X):
    return B.eq(B.dedup(B.dedup(X)), B.dedup(X))


@law("dedup-slice-dedup", "T2", "a:Int b:OptInt X:RS", lambda B, a, b, X: B.dedup(B.slice(a, b, B.dedup(X))))
def _(B, a, b, X):
    return B.implies(wf(B, a, b), B.eq(B.dedup(B.slice(a, b, B.dedup(X))), B.slice(a, b, B.dedup(X))))


@law("proj-chain", "T1", "P:TagSet X:RS Y:RS", lambda B, P, X, Y: [B.proj(P, B.chain(X, Y)), B.chain(B.proj(P, X), B.proj(P, Y))])
def _(B, P, X, Y):
    return B.implies(B.eq(B.rcols(X), B.rcols(Y)), B.eq(B.proj(P, B.chain(X, Y)), B.chain(B.proj(P, X), B.proj(P, Y))))


@law("dedup-filter", "T2", "p:Pred X:RS", lambda B, p, X: [B.dedup(B.filter(p, X)), B.filter(p, B.dedup(X))])
def _(B, p, X):
    return B.implies(B.subset(B.fv(p), B.rcols(X)), B.eq(B.dedup(B.filter(p, X)), B.filter(p, B.dedup(X))))


@law("dedup-sort", "T3", "ts:Terms X:RS", lambda B, ts, X: [B.dedup(B.sort(ts, X)), B.sort(ts, B.dedup(X))])
def _(B, ts, X):
    return B.implies(B.subset(B.fvts(ts), B.rcols(X)), B.eq(B.dedup(B.sort(ts, X)), B.sort(ts, B.dedup(X))))


@law("proj-filter", "T1", "P:TagSet p:Pred X:RS", lambda B, P, p, X: [B.proj(P, B.filter(p, X)), B.filter(p, B.proj(P, X))])
def _(B, P, p, X):
    return B.implies(B.subset(B.fv(p), P), B.eq(B.proj(P, B.filter(p, X)), B.filter(p, B.proj(P, X))))


@law("proj-slice", "T1", "P:TagSet a:Int b:OptInt X:RS", lambda B, P, a, b, X: [B.proj(P, B.slice(a, b, X)), B.slice(a, b, B.proj(P, X))])
def _(B, P, a, b, X):
    return B.implies(wf(B, a, b), B.eq(B.proj(P, B.slice(a, b, X)), B.slice(a, b, B.proj(P, X))))


@law("proj-sort", "T2", "P:TagSet ts:Terms X:RS", lambda B, P, ts, X: [B.proj(P, B.sort(ts, X)), B.sort(ts, B.proj(P, X))])
def _(B, P, ts, X):
    return B.implies(B.subset(B.fvts(ts), P), B.eq(B.proj(P, B.sort(ts, X)), B.sort(ts, B.proj(P, X))))


@law("filter-commute", "T1", "p:Pred q:Pred X:RS", lambda B, p, q, X: B.filter(q, B.filter(p, X)))
def _(B, p, q, X):
    return B.eq(B.filter(q, B.filter(p, X)), B.filter(p, B.filter(q, X)))


@law("filter-sort", "T2", "p:Pred ts:Terms X:RS", lambda B, p, ts, X: [B.filter(p, B.sort(ts, X)), B.sort(ts, B.filter(p, X))])
def _(B, p, ts, X):
    return B.eq(B.filter(p, B.sort(ts, X)), B.sort(ts, B.filter(p, X)))


@law("tcat-fvts", "T1", "a:Terms b:Terms c:Terms", lambda B, a, b, c: B.tcat(a, b, c))
def _(B, a, b, c):
    return B.implies(B.tcat(a, b, c), B.eq(B.fvts(c), B.union(B.fvts(a), B.fvts(b))))


# ---- joins (nested-loop order; hypotheses exclude "shadowed" columns, i.e. columns both operands
# expose without joining on them, whose provenance the property leaves open)
def noshadow(B, CX, CF, K):
    return B.subset(B.inter(CX, CF), K)


def _join_laws():
    for side in ("r", "l"):  # fixed operand on the right / on the left
        def J(B, p, K, X, F, side=side):
            return B.join(p, K, X, F) if side == "r" else B.join(p, K, F, X)

        @law(f"join-calc-{side}", "T2", "p:Pred K:TagSet t:Tag e:Expr X:RS F:RS",
             lambda B, p, K, t, e, X, F, J=J: [B.calc(t, e, J(B, p, K, X, F)), J(B, p, K, B.calc(t, e, X), F)])
        def _(B, p, K, t, e, X, F, J=J):
            hyp = B.and_(noshadow(B, B.sadd(B.rcols(X), t), B.rcols(F), K), B.subset(B.fv(e), B.rcols(X)), B.not_(B.member(t, B.rcols(X))),
                         B.not_(B.member(t, B.rcols(F))), B.not_(B.member(t, B.fv(p))), B.subset(K, B.rcols(X)), B.subset(K, B.rcols(F)))
            return B.implies(hyp, B.eq(B.calc(t, e, J(B, p, K, X, F)), J(B, p, K, B.calc(t, e, X), F)))

        @law(f"join-filter-{side}", "T2", "p:Pred K:TagSet q:Pred X:RS F:RS",
             lambda B, p, K, q, X, F, J=J: [B.filter(q, J(B, p, K, X, F)), J(B, p, K, B.filter(q, X), F)])
        def _(B, p, K, q, X, F, J=J):
            hyp = B.and_(noshadow(B, B.rcols(X), B.rcols(F), K), B.subset(B.fv(q), B.rcols(X)), B.subset(K, B.rcols(X)), B.subset(K, B.rcols(F)))
            return B.implies(hyp, B.eq(B.filter(q, J(B, p, K, X, F)), J(B, p, K, B.filter(q, X), F)))

        @law(f"join-proj-{side}", "T2", "p:Pred K:TagSet P:TagSet X:RS F:RS",
             lambda B, p, K, P, X, F, J=J: [B.proj(B.union(P, B.rcols(F)), J(B, p, K, X, F)), J(B, p, K, B.proj(P, X), F)])
        def _(B, p, K, P, X, F, J=J):
            hyp = B.and_(noshadow(B, B.rcols(X), B.rcols(F), K), B.subset(P, B.rcols(X)), B.subset(K, P), B.subset(K, B.rcols(F)),
                         B.subset(B.fv(p), B.union(P, B.rcols(F))))
            return B.implies(hyp, B.eq(B.proj(B.union(P, B.rcols(F)), J(B, p, K, X, F)), J(B, p, K, B.proj(P, X), F)))

        # the same without the blanket no-shadow hypothesis: only columns *hidden* by the projection matter, and only
        # when the projected operand is on the right (the right operand's values win in the merged row)
        @law(f"join-proj-{side}-hidden", "T2", "p:Pred K:TagSet P:TagSet X:RS F:RS",
             lambda B, p, K, P, X, F, J=J: [B.proj(B.union(P, B.rcols(F)), J(B, p, K, X, F)), J(B, p, K, B.proj(P, X), F)])
        def _(B, p, K, P, X, F, J=J, side=side):
            hyp = B.and_(B.subset(P, B.rcols(X)), B.subset(K, P), B.subset(K, B.rcols(F)), B.subset(B.fv(p), B.union(P, B.rcols(F))))
            if side == "l":  # X is the right operand
                hyp = B.and_(hyp, B.subset(B.inter(B.rcols(X), B.rcols(F)), P))
            return B.implies(hyp, B.eq(B.proj(B.union(P, B.rcols(F)), J(B, p, K, X, F)), J(B, p, K, B.proj(P, X), F)))

    # sorting commutes only when the sorted operand drives the outer loop (fixed operand on the right)
    @law("join-sort-r", "T3", "p:Pred K:TagSet ts:Terms X:RS F:RS",
         lambda B, p, K, ts, X, F: [B.sort(ts, B.join(p, K, X, F)), B.join(p, K, B.sort(ts, X), F)])
    def _(B, p, K, ts, X, F):
        hyp = B.and_(noshadow(B, B.rcols(X), B.rcols(F), K), B.subset(B.fvts(ts), B.rcols(X)), B.subset(K, B.rcols(X)), B.subset(K, B.rcols(F)))
        return B.implies(hyp, B.eq(B.sort(ts, B.join(p, K, X, F)), B.join(p, K, B.sort(ts, X), F)))


_join_laws()


# ---- iteration engine
@law("dedup-by-all-columns", "T2", "K:TagSet X:RS", lambda B, K, X: B.dedup_key(K, X))
def _(B, K, X):
    return B.and_(B.implies(B.eq(K, B.rcols(X)), B.eq(B.dedup_key(K, X), B.dedup(X))),
                  B.le(B.rlen(B.dedup_key(K, X)), B.rlen(X)), B.eq(B.rcols(B.dedup_key(K, X)), B.rcols(X)))


@law("callable-calc", "T1", "t:Tag cl:Callable e:Expr X:RS", lambda B, t, cl, e, X: (B.mapc(t, cl, X), B.den_x(cl, e)))
def _(B, t, cl, e, X):
    return B.implies(B.den_x(cl, e), B.eq(B.mapc(t, cl, X), B.calc(t, e, X)))


@law("callable-filter", "T1", "cl:Callable p:Pred X:RS", lambda B, cl, p, X: (B.filterc(cl, X), B.den_p(cl, p)))
def _(B, cl, p, X):
    return B.implies(B.den_p(cl, p), B.eq(B.filterc(cl, X), B.filter(p, X)))


@law("callable-calc-len", "L", "t:Tag cl:Callable X:RS", lambda B, t, cl, X: B.mapc(t, cl, X))
def _(B, t, cl, X):
    return B.and_(B.eq(B.rlen(B.mapc(t, cl, X)), B.rlen(X)), B.eq(B.rcols(B.mapc(t, cl, X)), B.sadd(B.rcols(X), t)))


@law("callable-filter-len", "L", "cl:Callable X:RS", lambda B, cl, X: B.filterc(cl, X))
def _(B, cl, X):
    return B.and_(B.le(B.rlen(B.filterc(cl, X)), B.rlen(X)), B.eq(B.rcols(B.filterc(cl, X)), B.rcols(X)))


# ---- row-at-a-time laws: every operator on ``X ++ [r]`` and on prefixes.  They are what the loop invariants of the
# generator bodies in iteration/_row_iterable.py need (content after i rows == operator applied to the first i rows).
@law("snoc-len-cols", "L", "X:RS r:Row", lambda B, X, r: B.snoc(X, r))
def _(B, X, r):
    return B.and_(B.eq(B.rlen(B.snoc(X, r)), B.add(B.rlen(X), B.i(1))), B.eq(B.rcols(B.snoc(X, r)), B.rcols(X)))


@law("prefix-zero", "T1", "X:RS", lambda B, X: B.prefix(X, B.i(0)))
def _(B, X):
    return B.eq(B.prefix(X, B.i(0)), B.empty(B.rcols(X)))


@law("prefix-full", "T1", "X:RS", lambda B, X: B.prefix(X, B.rlen(X)))
def _(B, X):
    return B.eq(B.prefix(X, B.rlen(X)), X)


@law("prefix-len-cols", "L", "X:RS i:Int", lambda B, X, i: B.prefix(X, i))
def _(B, X, i):
    return B.implies(B.and_(B.le(B.i(0), i), B.le(i, B.rlen(X))), B.and_(B.eq(B.rlen(B.prefix(X, i)), i), B.eq(B.rcols(B.prefix(X, i)), B.rcols(X))))


# trigger: the prefix of length i together with row i (a pattern on prefix(X, i + 1) would match every integer term)
@law("prefix-step", "T1", "X:RS i:Int", lambda B, X, i: (B.prefix(X, i), B.nth(X, i)))
def _(B, X, i):
    return B.implies(B.and_(B.le(B.i(0), i), B.lt(i, B.rlen(X))), B.eq(B.prefix(X, B.add(i, B.i(1))), B.snoc(B.prefix(X, i), B.nth(X, i))))


@law("mapc-snoc", "T1", "t:Tag cl:Callable X:RS r:Row", lambda B, t, cl, X, r: B.mapc(t, cl, B.snoc(X, r)))
def _(B, t, cl, X, r):
    return B.eq(B.mapc(t, cl, B.snoc(X, r)), B.snoc(B.mapc(t, cl, X), B.rmask(B.sadd(B.rcols(X), t), B.rput(r, t, B.capp(cl, r)))))


@law("mapc-empty", "T1", "t:Tag cl:Callable C:TagSet", lambda B, t, cl, C: B.mapc(t, cl, B.empty(C)))
def _(B, t, cl, C):
    return B.eq(B.mapc(t, cl, B.empty(C)), B.empty(B.sadd(C, t)))


@law("filterc-snoc", "T1", "cl:Callable X:RS r:Row", lambda B, cl, X, r: B.filterc(cl, B.snoc(X, r)))
def _(B, cl, X, r):
    return B.eq(B.filterc(cl, B.snoc(X, r)), B.ite(B.not_(B.eq(B.capp(cl, r), B.i(0))), B.snoc(B.filterc(cl, X), r), B.filterc(cl, X)))


@law("filterc-empty", "T1", "cl:Callable C:TagSet", lambda B, cl, C: B.filterc(cl, B.empty(C)))
def _(B, cl, C):
    return B.eq(B.filterc(cl, B.empty(C)), B.empty(C))


@law("proj-snoc", "T1", "P:TagSet X:RS r:Row", lambda B, P, X, r: B.proj(P, B.snoc(X, r)))
def _(B, P, X, r):
    return B.eq(B.proj(P, B.snoc(X, r)), B.snoc(B.proj(P, X), B.rmask(P, r)))


@law("proj-empty", "T1", "P:TagSet C:TagSet", lambda B, P, C: B.proj(P, B.empty(C)))
def _(B, P, C):
    return B.eq(B.proj(P, B.empty(C)), B.empty(P))


@law("slice-empty", "T1", "a:Int b:OptInt C:TagSet", lambda B, a, b, C: B.slice(a, b, B.empty(C)))
def _(B, a, b, C):
    return B.eq(B.slice(a, b, B.empty(C)), B.empty(C))


@law("slice-snoc", "T1", "a:Int b:OptInt X:RS r:Row", lambda B, a, b, X, r: B.slice(a, b, B.snoc(X, r)))
def _(B, a, b, X, r):
    inside = B.and_(B.le(a, B.rlen(X)), B.or_(B.is_none(b), B.lt(B.rlen(X), B.val(b))))
    return B.implies(B.and_(B.le(B.i(0), a), B.or_(B.is_none(b), B.le(B.i(0), B.val(b)))),
                     B.eq(B.slice(a, b, B.snoc(X, r)), B.ite(inside, B.snoc(B.slice(a, b, X), r), B.slice(a, b, X))))


@law("slice-prefix", "T1", "a:Int b:OptInt X:RS", lambda B, a, b, X: B.slice(a, b, B.prefix(X, B.val(b))))
def _(B, a, b, X):
    return B.implies(B.and_(B.le(B.i(0), a), B.not_(B.is_none(b)), B.le(B.i(0), B.val(b)), B.le(B.val(b), B.rlen(X))),
                     B.eq(B.slice(a, b, B.prefix(X, B.val(b))), B.slice(a, b, X)))


@law("dedup-key-idem", "T2", "K:TagSet X:RS", lambda B, K, X: B.dedup_key(K, B.dedup_key(K, X)))
def _(B, K, X):
    return B.eq(B.dedup_key(K, B.dedup_key(K, X)), B.dedup_key(K, X))


@law("dedup-key-empty", "T1", "K:TagSet C:TagSet", lambda B, K, C: B.dedup_key(K, B.empty(C)))
def _(B, K, C):
    return B.eq(B.dedup_key(K, B.empty(C)), B.empty(C))


@law("dedup-key-unit", "T1", "K:TagSet", lambda B, K: B.dedup_key(K, B.unit()))
def _(B, K):
    return B.eq(B.dedup_key(K, B.unit()), B.unit())


# ---- the Sort arm of the iteration engine: passes per group of same-direction terms, from the last group to the first
@law("tsuffix-len", "L", "ts:Terms a:Int", lambda B, ts, a: B.tsuffix(ts, a))
def _(B, ts, a):
    return B.implies(B.and_(B.le(B.i(0), a), B.le(a, B.tlen(ts))), B.eq(B.tlen(B.tsuffix(ts, a)), B.sub(B.tlen(ts), a)))


@law("tsuffix-zero", "T1", "ts:Terms", lambda B, ts: B.tsuffix(ts, B.i(0)))
def _(B, ts):
    return B.eq(B.tsuffix(ts, B.i(0)), ts)


@law("sort-suffix-split", "T2", "ts:Terms a:Int b:Int X:RS", lambda B, ts, a, b, X: B.sort(B.tslice(ts, a, b), B.sort(B.tsuffix(ts, b), X)))
def _(B, ts, a, b, X):
    return B.implies(B.and_(B.le(B.i(0), a), B.le(a, b), B.le(b, B.tlen(ts))),
                     B.eq(B.sort(B.tsuffix(ts, a), X), B.sort(B.tslice(ts, a, b), B.sort(B.tsuffix(ts, b), X))))


# one stable sort by the tuple of a same-direction group's values == the passes of the group's terms one by one
# (correctness of LSD radix sort for stable passes)
@law("sortc-group", "T3", "cs:Callables ts:Terms a:Int b:Int d:Bool Y:RS", lambda B, cs, ts, a, b, d, Y: (B.sortc(cs, d, Y), B.den_terms(cs, ts, a, b)))
def _(B, cs, ts, a, b, d, Y):
    return B.implies(B.and_(B.le(B.i(0), a), B.le(a, b), B.le(b, B.tlen(ts)), B.den_terms(cs, ts, a, b), B.same_dir(ts, a, b, d)),
                     B.eq(B.sortc(cs, d, Y), B.sort(B.tslice(ts, a, b), Y)))


# ---- integer arithmetic (range literals)
@law("mod-congruence", "T1", "x:Int a:Int s:Int", None, status="assumed, bounded-checked (Mathlib: Int.emod_emod_of_dvd / Int.emod_eq_emod_iff_emod_sub_eq_zero)")
def _(B, x, a, s):
    return B.implies(B.lt(B.i(0), s), B.iff(B.eq(B.emod(B.sub(x, a), s), B.i(0)), B.eq(B.emod(x, s), B.emod(a, s))))


@law("floor-division", "T1", "d:Int s:Int", None)
def _(B, d, s):
    q = B.ediv(d, s)
    return B.implies(B.and_(B.lt(B.i(0), s), B.le(B.i(0), d)), B.and_(B.le(B.mul(q, s), d), B.lt(d, B.mul(B.add(q, B.i(1)), s)), B.le(B.i(0), q),
                                                                     B.eq(B.emod(B.mul(q, s), s), B.i(0))))


@law("emod-small-negative", "T1", "y:Int s:Int", None)
def _(B, y, s):
    return B.implies(B.and_(B.lt(B.i(0), s), B.lt(B.sub(B.i(0), s), y), B.lt(y, B.i(0))), B.eq(B.emod(y, s), B.add(y, s)))


# a non-empty descending range has the elements of the ascending range from its smallest element (the rewriting done by
# sql.Engine.convert_predicate): nonlinear (quotient times step), proved in Lean, used through explicit instances
@law("desc-range", "T1", "a:Int b:Int s:Int x:Int", None)
def _(B, a, b, s, x):
    k = B.neg(s)
    m = B.add(a, B.mul(B.ediv(B.sub(B.sub(a, b), B.i(1)), k), s))
    return B.implies(B.and_(B.lt(s, B.i(0)), B.lt(b, a)),
                     B.iff(B.and_(B.lt(b, x), B.le(x, a), B.eq(B.emod(B.sub(a, x), k), B.i(0))),
                           B.and_(B.le(m, x), B.le(x, a), B.eq(B.emod(B.sub(x, m), k), B.i(0)))))


def instance(name: str, *args):
    """An instance of a law at the given z3 terms (for Clause.lemmas)."""
    l = next(x for x in LAWS if x.name == name)
    return l.body(Z3Backend(), *args)


def lean_proved() -> set[str]:
    """Law names whose Lean theorem compiled in the last run of /verif/lean/check.sh (MANIFEST.setup_cmd writes
    lean/build/PROVED.txt; the thorough tier re-runs the script)."""
    import os

    p = os.path.join(os.path.dirname(os.path.dirname(os.path.abspath(__file__))), "lean", "build", "PROVED.txt")
    if not os.path.exists(p):
        return set()
    return {ln.split()[1] for ln in open(p) if ln.startswith("PROVED ")}


def law_status_summary() -> dict:
    proved = lean_proved()
    return {"lean_proved": sorted(l.name for l in LAWS if l.name in proved),
            "assumed_bounded_checked_only": sorted(l.name for l in LAWS if l.name not in proved)}
