"""The law library (DESIGN.md 3.3): facts about the row-sequence operators.

One table, several printers.  A law is a Python function over an abstract backend ``B``;
instantiating it with

* ``Z3Backend``     gives the quantified SMT axiom used by the VCs,
* ``NativeBackend`` evaluates it on concrete rows (bounded check of the law itself; also the
                    evidence that the axiom set has a model, i.e. is consistent),
* ``LeanBackend``   prints the Lean 4 statement proved in /verif/lean (where done).

Because all three come from the same entry there is no hand transcription between what is
checked/proved and what the VCs assume.
"""
from __future__ import annotations

import dataclasses
from typing import Any, Callable

import z3

from pyvc import smt

# variable kinds: RS (row sequence), Pred, Expr, Tag, TagSet, Int, OptInt, Terms (sort terms), Row


@dataclasses.dataclass
class Law:
    name: str
    tier: str  # L (length/columns), T1, T2, T3
    vars: list[tuple[str, str]]  # (name, kind)
    body: Callable  # (B, *vars) -> formula
    trigger: Callable | None  # (B, *vars) -> term(s) used as E-matching pattern
    status: str = "assumed, bounded-checked"
    lean: str | None = None


LAWS: list[Law] = []


def law(name: str, tier: str, vars: str, trigger: Callable | None = None, status: str = "assumed, bounded-checked", lean: str | None = None):
    vs = [tuple(v.split(":")) for v in vars.split()]

    def deco(fn):
        LAWS.append(Law(name, tier, vs, fn, trigger, status, lean))  # type: ignore[arg-type]
        return fn

    return deco


# ======================================================================== Z3 backend
class Z3Backend:
    def __init__(self):
        from spec import vocab as V

        self.V = V
        self.sorts = {"RS": V.RS, "Pred": smt.Ref, "Expr": smt.Ref, "Tag": smt.Tag, "TagSet": smt.TagSet, "Int": smt.IntS,
                      "OptInt": smt.OptInt, "Terms": V.SeqRef.sort, "Row": V.Row, "Bool": smt.BoolS}

    def var(self, name, kind):
        return z3.Const(name, self.sorts[kind])

    # sequences
    def rlen(self, X): return self.V.rlen(X)
    def rcols(self, X): return self.V.rcols(X)
    def empty(self, C): return self.V.REMPTY(C)
    def unit(self): return self.V.RUNIT
    def filter(self, p, X): return self.V.s_filter(p, X)
    def calc(self, t, e, X): return self.V.s_calc(t, e, X)
    def proj(self, P, X): return self.V.s_proj(P, X)
    def dedup(self, X): return self.V.s_dedup(X)
    def sort(self, ts, X): return self.V.s_sort(ts, X)
    def slice(self, a, b, X): return self.V.s_slice(a, b, X)
    def chain(self, X, Y): return self.V.s_chain(X, Y)
    def join(self, p, K, X, Y): return self.V.s_join(p, K, X, Y)
    # expressions
    def fv(self, p): return self.V.fv(p)
    def fvx(self, e): return self.V.fvx(e)
    def fvts(self, ts): return self.V.fvts(ts)
    def ptrue(self, p): return self.V.ptrue(p)  # predicate true on every row
    def pfalse(self, p): return self.V.pfalse(p)
    def pand(self, p, q, r): return self.V.is_and(r, p, q)  # r denotes p AND q
    def tcat(self, a, b, c): return self.V.is_tcat(c, a, b)  # c = sort-term list "b's terms first, then a's not already present"
    # ints / optints
    def i(self, n): return z3.IntVal(n)
    def add(self, a, b): return a + b
    def sub(self, a, b): return a - b
    def mul(self, a, b): return a * b
    def le(self, a, b): return a <= b
    def lt(self, a, b): return a < b
    def max(self, a, b): return smt.zmax(a, b)
    def min(self, a, b): return smt.zmin(a, b)
    def is_none(self, b): return smt.OptInt.is_oi_none(b)
    def val(self, b): return smt.OptInt.oi_val(b)
    def some(self, a): return smt.OptInt.oi_some(a)
    def none(self): return smt.OptInt.oi_none
    # sets
    def eset(self): return smt.EMPTY_TAGS
    def sadd(self, S, t): return z3.SetAdd(S, t)
    def sdel(self, S, t): return z3.SetDel(S, t)
    def union(self, A, B): return z3.SetUnion(A, B)
    def inter(self, A, B): return z3.SetIntersect(A, B)
    def subset(self, A, B): return z3.IsSubset(A, B)
    def member(self, t, S): return z3.IsMember(t, S)
    # logic
    def eq(self, a, b): return a == b
    def and_(self, *xs): return z3.And(*xs)
    def or_(self, *xs): return z3.Or(*xs)
    def not_(self, x): return z3.Not(x)
    def implies(self, a, b): return z3.Implies(a, b)
    def ite(self, c, a, b): return z3.If(c, a, b)

    def axiom(self, l: Law) -> z3.BoolRef:
        vs = [self.var(n, k) for n, k in l.vars]
        body = l.body(self, *vs)
        if not vs:
            return body
        pats = []
        if l.trigger is not None:
            t = l.trigger(self, *vs)
            pats = list(t) if isinstance(t, (list, tuple)) else [t]
        return z3.ForAll(vs, body, patterns=pats) if pats else z3.ForAll(vs, body)


def law_axioms(spec, tiers: tuple[str, ...] | None = None) -> list[z3.BoolRef]:
    B = Z3Backend()
    return [B.axiom(l) for l in LAWS if tiers is None or l.tier in tiers]


# ================================================================= the laws themselves
# ---- tier L: lengths and column sets
@law("len-nonneg", "L", "X:RS", lambda B, X: B.rlen(X))
def _(B, X):
    return B.le(B.i(0), B.rlen(X))


@law("empty", "L", "C:TagSet", lambda B, C: B.empty(C))
def _(B, C):
    return B.and_(B.eq(B.rlen(B.empty(C)), B.i(0)), B.eq(B.rcols(B.empty(C)), C))


@law("empty-unique", "L", "X:RS", lambda B, X: B.rlen(X))
def _(B, X):
    return B.implies(B.eq(B.rlen(X), B.i(0)), B.eq(X, B.empty(B.rcols(X))))


@law("unit", "L", "")
def _(B):
    return B.and_(B.eq(B.rlen(B.unit()), B.i(1)), B.eq(B.rcols(B.unit()), B.eset()))


@law("unit-unique", "L", "X:RS", lambda B, X: [B.rlen(X), B.rcols(X)])
def _(B, X):
    return B.implies(B.and_(B.eq(B.rlen(X), B.i(1)), B.eq(B.rcols(X), B.eset())), B.eq(X, B.unit()))


@law("filter-len-cols", "L", "p:Pred X:RS", lambda B, p, X: B.filter(p, X))
def _(B, p, X):
    f = B.filter(p, X)
    return B.and_(B.le(B.rlen(f), B.rlen(X)), B.eq(B.rcols(f), B.rcols(X)))


@law("calc-len-cols", "L", "t:Tag e:Expr X:RS", lambda B, t, e, X: B.calc(t, e, X))
def _(B, t, e, X):
    f = B.calc(t, e, X)
    return B.and_(B.eq(B.rlen(f), B.rlen(X)), B.eq(B.rcols(f), B.sadd(B.rcols(X), t)))


@law("proj-len-cols", "L", "P:TagSet X:RS", lambda B, P, X: B.proj(P, X))
def _(B, P, X):
    f = B.proj(P, X)
    return B.and_(B.eq(B.rlen(f), B.rlen(X)), B.eq(B.rcols(f), P))


@law("dedup-len-cols", "L", "X:RS", lambda B, X: B.dedup(X))
def _(B, X):
    f = B.dedup(X)
    return B.and_(
        B.le(B.rlen(f), B.rlen(X)),
        B.implies(B.le(B.i(1), B.rlen(X)), B.le(B.i(1), B.rlen(f))),
        B.implies(B.eq(B.rcols(X), B.eset()), B.le(B.rlen(f), B.i(1))),
        B.eq(B.rcols(f), B.rcols(X)),
    )


@law("sort-len-cols", "L", "ts:Terms X:RS", lambda B, ts, X: B.sort(ts, X))
def _(B, ts, X):
    f = B.sort(ts, X)
    return B.and_(B.eq(B.rlen(f), B.rlen(X)), B.eq(B.rcols(f), B.rcols(X)))


@law("slice-len-cols", "L", "a:Int b:OptInt X:RS", lambda B, a, b, X: B.slice(a, b, X))
def _(B, a, b, X):
    f = B.slice(a, b, X)
    hi = B.ite(B.is_none(b), B.rlen(X), B.min(B.val(b), B.rlen(X)))
    return B.implies(
        B.and_(B.le(B.i(0), a), B.or_(B.is_none(b), B.le(B.i(0), B.val(b)))),
        B.and_(B.eq(B.rlen(f), B.max(B.sub(hi, a), B.i(0))), B.eq(B.rcols(f), B.rcols(X))),
    )


@law("chain-len-cols", "L", "X:RS Y:RS", lambda B, X, Y: B.chain(X, Y))
def _(B, X, Y):
    f = B.chain(X, Y)
    return B.and_(B.eq(B.rlen(f), B.add(B.rlen(X), B.rlen(Y))), B.eq(B.rcols(f), B.rcols(X)))


@law("chain-empty", "L", "X:RS Y:RS", lambda B, X, Y: B.chain(X, Y))
def _(B, X, Y):
    f = B.chain(X, Y)
    same = B.eq(B.rcols(X), B.rcols(Y))
    return B.and_(B.implies(B.and_(same, B.eq(B.rlen(X), B.i(0))), B.eq(f, Y)), B.implies(B.and_(same, B.eq(B.rlen(Y), B.i(0))), B.eq(f, X)))


@law("join-len-cols", "L", "p:Pred K:TagSet X:RS Y:RS", lambda B, p, K, X, Y: B.join(p, K, X, Y))
def _(B, p, K, X, Y):
    f = B.join(p, K, X, Y)
    return B.and_(B.le(B.rlen(f), B.mul(B.rlen(X), B.rlen(Y))), B.eq(B.rcols(f), B.union(B.rcols(X), B.rcols(Y))))


@law("join-unit", "L", "p:Pred K:TagSet X:RS", lambda B, p, K, X: [B.join(p, K, B.unit(), X), B.join(p, K, X, B.unit())])
def _(B, p, K, X):
    return B.implies(
        B.and_(B.eq(K, B.eset()), B.subset(B.fv(p), B.rcols(X))),
        B.and_(B.eq(B.join(p, K, B.unit(), X), B.filter(p, X)), B.eq(B.join(p, K, X, B.unit()), B.filter(p, X))),
    )


@law("filter-true", "L", "p:Pred X:RS", lambda B, p, X: B.filter(p, X))
def _(B, p, X):
    return B.and_(B.implies(B.ptrue(p), B.eq(B.filter(p, X), X)),
                  B.implies(B.pfalse(p), B.eq(B.rlen(B.filter(p, X)), B.i(0))))


@law("join-false", "L", "p:Pred K:TagSet X:RS Y:RS", lambda B, p, K, X, Y: B.join(p, K, X, Y))
def _(B, p, K, X, Y):
    return B.implies(B.pfalse(p), B.eq(B.rlen(B.join(p, K, X, Y)), B.i(0)))


@law("join-empty", "L", "p:Pred K:TagSet X:RS Y:RS", lambda B, p, K, X, Y: B.join(p, K, X, Y))
def _(B, p, K, X, Y):
    return B.implies(B.or_(B.eq(B.rlen(X), B.i(0)), B.eq(B.rlen(Y), B.i(0))), B.eq(B.rlen(B.join(p, K, X, Y)), B.i(0)))
