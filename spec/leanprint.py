"""Third printer of the law table: the Lean 4 statement of every law, generated from the same entry as the SMT axiom.

The theorems in lean/RelAlg/Laws.lean were written by hand.  To make sure that *what is proved in Lean is what the VCs
assume*, this module prints, for every law of spec/laws.py, the proposition obtained by instantiating the law's body with a
string-building backend, and emits lean/RelAlg/Generated.lean:

    example (vars ...) [(hX : Masked X) ...] : <generated statement> := Laws.<name> vars ... [hX ...]

lean/check.sh compiles that file: a law whose hand-written theorem does not have (definitionally) the generated statement
fails to compile and is then reported as assumed, not as Lean-proved.

The only information that is not in the law table is which row-sequence variables carry the hypothesis ``Masked X``
(rows are 0 outside their column set) in Lean; it is listed in MASKED below.  The SMT side uses those laws for all row
sequences: every operator preserves maskedness and leaf contents are masked by definition of a row over its columns
(lean/RelAlg/Lemmas.lean).

usage: python3-vt -m spec.leanprint > lean/RelAlg/Generated.lean
"""
from __future__ import annotations

import sys

from spec import laws as L

LEAN_TYPES = {"RS": "RS", "Pred": "Pred", "Expr": "Expr", "Callable": "Callable", "Tag": "Tag", "TagSet": "TagSet", "Int": "Int", "OptInt": "OptInt",
              "Terms": "Terms", "Row": "Row", "Bool": "Bool", "Callables": "List Callable"}

# laws whose Lean theorem assumes that some row sequences are masked (hypotheses appended after the variables, in this order)
MASKED: dict[str, tuple[str, ...]] = {}


def p(x):
    return x if x.isidentifier() or (x.startswith("(") and x.endswith(")") and x.count("(") == 1) else f"({x})"


class Conj(str):
    """A printed conjunction (so that nested conjunctions are flattened: Lean's ∧ associates to the right)."""

    parts: tuple = ()


class LeanBackend:
    def __init__(self, kinds=None):
        self.kinds = dict(kinds or {})

    def var(self, name, kind):
        return name

    def _ap(self, f, *args):
        return f + " " + " ".join(p(a) for a in args)

    # sequences
    def rlen(self, X): return self._ap("rlen", X)
    def rcols(self, X): return self._ap("rcols", X)
    def empty(self, C): return self._ap("RelAlg.empty", C)
    def unit(self): return "RelAlg.unit"
    def filter(self, q, X): return self._ap("filter", q, X)
    def calc(self, t, e, X): return self._ap("calcE", t, e, X)
    def proj(self, P, X): return self._ap("proj", P, X)
    def dedup(self, X): return self._ap("dedup", X)
    def sort(self, ts, X): return self._ap("sort", ts, X)
    def slice(self, a, b, X): return self._ap("slice", a, b, X)
    def chain(self, X, Y): return self._ap("chain", X, Y)
    def join(self, q, K, X, Y): return self._ap("join", q, K, X, Y)
    def fv(self, q): return self._ap("fvx" if self.kinds.get(q) == "Expr" else "fv", q)  # one SMT symbol, two Lean functions
    def fvx(self, e): return self._ap("fvx", e)
    def fvts(self, ts): return self._ap("fvts", ts)
    def ptrue(self, q): return self._ap("ptrue", q)
    def pfalse(self, q): return self._ap("pfalse", q)
    def pand(self, a, b, c): return self._ap("pand", a, b, c)
    def tcat(self, a, b, c): return self._ap("tcat", a, b, c)
    def pequiv(self, a, b): return self._ap("pequiv", a, b)
    def dedup_key(self, K, X): return self._ap("dedup_key", K, X)
    def mapc(self, t, cl, X): return self._ap("mapc", t, cl, X)
    def filterc(self, cl, X): return self._ap("filterc", cl, X)
    def den_x(self, cl, e): return self._ap("den_x", cl, e)
    def den_p(self, cl, q): return self._ap("den_p", cl, q)
    def tlen(self, ts): return self._ap("tlen", ts)
    def snoc(self, X, r): return self._ap("rsnoc", X, r)
    def prefix(self, X, i): return self._ap("rprefix", X, i)
    def nth(self, X, i): return self._ap("rnth", X, i)
    def rput(self, r, t, v): return self._ap("rput", r, t, v)
    def rmask(self, P, r): return self._ap("rmask", P, r)
    def capp(self, cl, r): return self._ap("capp", cl, r)
    def sortc(self, cs, d, X): return self._ap("sortc", cs, d, X)
    def tsuffix(self, ts, a): return self._ap("tsuffix", ts, a)
    def tslice(self, ts, a, b): return self._ap("tslice", ts, a, b)
    def den_terms(self, cs, ts, a, b): return self._ap("den_terms", cs, ts, a, b)
    def same_dir(self, ts, a, b, d): return self._ap("same_dir", ts, a, b, d)
    # ints / optints
    def i(self, n): return f"({n} : Int)"
    def neg(self, a): return f"-{p(a)}"
    def emod(self, a, b): return f"{p(a)} % {p(b)}"
    def ediv(self, a, b): return f"{p(a)} / {p(b)}"
    def add(self, a, b): return f"{p(a)} + {p(b)}"
    def sub(self, a, b): return f"{p(a)} - {p(b)}"
    def mul(self, a, b): return f"{p(a)} * {p(b)}"
    def le(self, a, b): return f"{p(a)} ≤ {p(b)}"
    def lt(self, a, b): return f"{p(a)} < {p(b)}"
    def max(self, a, b): return self._ap("max", a, b)
    def min(self, a, b): return self._ap("min", a, b)
    def is_none(self, b): return self._ap("isNone", b)
    def val(self, b): return self._ap("val", b)
    def some(self, a): return f"(some {p(a)} : OptInt)"
    def none(self): return "(none : OptInt)"
    # sets
    def eset(self): return "(∅ : TagSet)"
    def sadd(self, S, t): return self._ap("insert", t, S)
    def sdel(self, S, t): return f"{p(S)}.erase {p(t)}"
    def union(self, A, B): return f"{p(A)} ∪ {p(B)}"
    def inter(self, A, B): return f"{p(A)} ∩ {p(B)}"
    def subset(self, A, B): return f"{p(A)} ⊆ {p(B)}"
    def member(self, t, S): return f"{p(t)} ∈ {p(S)}"
    # logic
    def eq(self, a, b): return f"{p(a)} = {p(b)}"
    def and_(self, *xs):
        flat = []
        for x in xs:
            flat.extend(x.parts if isinstance(x, Conj) else [x])
        c = Conj(" ∧ ".join(p(x) for x in flat) if flat else "True")
        c.parts = tuple(flat)
        return c

    def iff(self, a, b): return f"{p(a)} ↔ {p(b)}"
    def or_(self, *xs): return " ∨ ".join(p(x) for x in xs) if xs else "False"
    def not_(self, x): return f"¬ {p(x)}"
    def implies(self, a, b): return f"{p(a)} → {p(b)}"
    def ite(self, c, a, b): return f"if {c} then {a} else {b}"


def statement(l: L.Law) -> str:
    B = LeanBackend({n: k for n, k in l.vars})
    saved = (L.wf, L.win_equiv, L.noshadow)
    # the formula abbreviations exist as definitions of the same names in lean/RelAlg/Spec.lean
    L.wf = lambda B_, a, b: f"wf {p(a)} {p(b)}"
    L.win_equiv = lambda B_, *xs: "win_equiv " + " ".join(p(x) for x in xs)
    L.noshadow = lambda B_, *xs: "noshadow " + " ".join(p(x) for x in xs)
    try:
        return l.body(B, *[n for n, _ in l.vars])
    finally:
        L.wf, L.win_equiv, L.noshadow = saved


def main() -> int:
    import os
    import re

    here = os.path.dirname(os.path.dirname(os.path.abspath(__file__)))
    src = open(os.path.join(here, "lean", "RelAlg", "Laws.lean")).read()
    print("/-\n  GENERATED by /verif/spec/leanprint.py from the law table /verif/spec/laws.py -- do not edit.\n"
          "  Each `example` states a law exactly as the table prints it (the same entry gives the formula the SMT side assumes) and is closed by the\n"
          "  hand-written theorem of RelAlg/Laws.lean: it compiles iff that theorem proves the generated statement.\n-/")
    print("import RelAlg.Laws\n\nnamespace RelAlg.Generated\n\nopen Classical RelAlg\n")
    for l in L.LAWS:
        name = l.name.replace("-", "_")
        m = re.search(r"^theorem " + re.escape(name) + r"\b(.*?):=", src, re.S | re.M)
        masked = tuple(re.findall(r"\(h\w*\s*:\s*Masked (\w+)\)", m.group(1))) if m else ()
        binders = " ".join(f"({n} : {LEAN_TYPES[k]})" for n, k in l.vars)
        hyps = " ".join(f"(hM{n} : Masked {n})" for n in masked)
        args = " ".join([n for n, _ in l.vars] + [f"hM{n}" for n in masked])
        print(f"-- law {l.name}" + (f"   [Lean adds: Masked {', '.join(masked)}]" if masked else ""))
        print(f"example {binders} {hyps} :\n    {statement(l)} :=\n  Laws.{name} {args}\n".replace("  :", " :"))
    print("end RelAlg.Generated")
    return 0


if __name__ == "__main__":
    sys.exit(main())
