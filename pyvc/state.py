"""Execution state, python-level values and results for the symbolic executor."""
from __future__ import annotations

import ast
import dataclasses
from typing import Any

import z3

from .frontend import ClassInfo, FuncInfo
from .smt import SV


# ----------------------------------------------------- python-level values
class PyVal:
    """Values that exist only inside the executor (never stored in symbolic fields)."""


@dataclasses.dataclass
class PyTuple(PyVal):
    items: list[Any]


@dataclasses.dataclass
class PyList(PyVal):
    """A function-local list with a statically known number of elements."""

    items: list[Any]
    fresh: bool = True


@dataclasses.dataclass
class PyDict(PyVal):
    keys: list[Any]
    values: list[Any]
    fresh: bool = True


@dataclasses.dataclass
class ClassVal(PyVal):
    cls: ClassInfo


@dataclasses.dataclass
class FuncVal(PyVal):
    fi: FuncInfo
    self_val: Any = None  # bound receiver (SV or ClassVal) or None
    dispatch_cls: ClassInfo | None = None  # class used for super() resolution


@dataclasses.dataclass
class Closure(PyVal):
    node: ast.Lambda | ast.FunctionDef
    env: dict[str, Any]
    module: str
    cls: ClassInfo | None


@dataclasses.dataclass
class Builtin(PyVal):
    name: str
    self_val: Any = None


@dataclasses.dataclass
class ModuleVal(PyVal):
    name: str


@dataclasses.dataclass
class ExcVal(PyVal):
    cls_name: str


@dataclasses.dataclass
class Opaque(PyVal):
    """A value we do not model (strings built by f-strings in messages, foreign objects)."""

    what: str = ""


@dataclasses.dataclass
class SuperVal(PyVal):
    self_val: Any
    after: ClassInfo


@dataclasses.dataclass
class UnderConstruction(PyVal):
    """``self`` inside __post_init__ / __init__: fields are read from the pending dict."""

    ref: SV
    cls: ClassInfo

    def pending(self, st: "State") -> dict[str, Any]:
        return st.ghost.get("pending", {}).get(self.ref.z.get_id(), {})

    def set_pending(self, st: "State", name: str, value: Any) -> None:
        allp = dict(st.ghost.get("pending", {}))
        mine = dict(allp.get(self.ref.z.get_id(), {}))
        mine[name] = value
        allp[self.ref.z.get_id()] = mine
        st.ghost["pending"] = allp


@dataclasses.dataclass
class StarSeq(PyVal):
    """``*seq`` argument whose sequence has symbolic length."""

    seq: SV


# ------------------------------------------------------------------ state
class State:
    def __init__(self) -> None:
        self.pc: list[z3.BoolRef] = []
        self.env: dict[str, Any] = {}
        self.heap: dict[str, z3.ExprRef] = {}
        self.heap_version = 0
        self.path: list[str] = []
        self.owned: dict[int, dict[str, bool]] = {}  # z3 id of fresh object -> field freshness
        self.ghost: dict[str, Any] = {}
        self.depth = 0

    def fork(self) -> "State":
        s = State.__new__(State)
        s.pc = list(self.pc)
        s.env = dict(self.env)
        s.heap = dict(self.heap)
        s.heap_version = self.heap_version
        s.path = list(self.path)
        s.owned = {k: dict(v) for k, v in self.owned.items()}
        s.ghost = dict(self.ghost)
        s.depth = self.depth
        return s

    def assume(self, *facts: z3.BoolRef) -> "State":
        for f in facts:
            if z3.is_true(f):
                continue
            self.pc.append(f)
        return self

    def with_env(self, env: dict[str, Any]) -> "State":
        s = self.fork()
        s.env = env
        return s


@dataclasses.dataclass
class Res:
    """Result of evaluating an expression / executing a block on one path."""

    kind: str  # ok | raise | return | fall | break | continue
    value: Any
    state: State
    exc: str | None = None
    node: ast.AST | None = None
    note: str = ""


@dataclasses.dataclass
class Obligation:
    """A proof obligation generated while executing a path."""

    label: str
    pc: list[z3.BoolRef]
    goal: z3.BoolRef
    node: ast.AST | None
    func: str
    path: list[str]
    kind: str = "post"  # post | pre | loop-init | loop-preserve | frame | raises | implicit
    info: dict = dataclasses.field(default_factory=dict)
