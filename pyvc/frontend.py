"""Front end: parse the real sources of lsst.daf.relation and build the class table.

Nothing here is cached across runs: every check re-reads /repo's working tree.
"""
from __future__ import annotations

import ast
import dataclasses
import hashlib
import os
from typing import Any

REPO = os.environ.get("PYVC_REPO", "/repo")
PKG_DIR = os.path.join(REPO, "python", "lsst", "daf", "relation")
PKG = "lsst.daf.relation"

SKIP_MODULES = {"tests", "version"}


@dataclasses.dataclass
class FieldInfo:
    name: str
    annotation: ast.expr | None
    default: ast.expr | None  # raw default expression (may be dataclasses.field(...))
    default_factory: ast.expr | None
    has_default: bool
    compare: bool
    init: bool
    initvar: bool
    kw_only: bool
    owner: str  # qualified class name
    lineno: int


@dataclasses.dataclass
class FuncInfo:
    qualname: str  # "module:Class.name" or "module:name"
    name: str
    module: str
    cls: "ClassInfo | None"
    node: ast.FunctionDef
    kind: str  # method | classmethod | staticmethod | property | function
    cached: bool
    final: bool
    abstract: bool

    @property
    def key(self) -> str:
        """Registry key: the qualified name without the package prefix."""
        q = self.qualname
        return q[len(PKG) + 1:] if q.startswith(PKG + ".") else q

    @property
    def params(self) -> list[str]:
        a = self.node.args
        return [x.arg for x in a.posonlyargs + a.args] + ([a.vararg.arg] if a.vararg else []) + [
            x.arg for x in a.kwonlyargs
        ]

    def source_hash(self) -> str:
        return hashlib.sha256(ast.dump(self.node).encode()).hexdigest()[:16]


@dataclasses.dataclass
class ClassInfo:
    name: str
    module: str
    node: ast.ClassDef
    base_exprs: list[ast.expr]
    bases: list["ClassInfo"] = dataclasses.field(default_factory=list)
    mro: list["ClassInfo"] = dataclasses.field(default_factory=list)
    is_dataclass: bool = False
    dc_frozen: bool = False
    dc_eq: bool = True
    dc_kw_only: bool = False
    dc_repr: bool = True
    own_fields: list[FieldInfo] = dataclasses.field(default_factory=list)
    methods: dict[str, FuncInfo] = dataclasses.field(default_factory=dict)
    classvars: dict[str, ast.expr] = dataclasses.field(default_factory=dict)
    final: bool = False
    closed_set: set[str] | None = None  # names allowed by __init_subclass__
    closed_open: bool = False  # __init_subclass__ also allows indirect subclasses

    @property
    def qname(self) -> str:
        return f"{self.module}.{self.name}"

    def __hash__(self) -> int:
        return hash(self.qname)

    def __eq__(self, other: Any) -> bool:
        return isinstance(other, ClassInfo) and other.qname == self.qname

    def __repr__(self) -> str:
        return f"<class {self.qname}>"

    def is_subclass_of(self, other: "ClassInfo") -> bool:
        return other in self.mro

    def lookup(self, name: str) -> FuncInfo | None:
        for c in self.mro:
            if name in c.methods:
                return c.methods[name]
        return None

    def lookup_after(self, after: "ClassInfo", name: str) -> FuncInfo | None:
        """super() lookup: first definition in the MRO after ``after``."""
        seen = False
        for c in self.mro:
            if seen and name in c.methods:
                return c.methods[name]
            if c == after:
                seen = True
        return None

    def lookup_classvar(self, name: str) -> ast.expr | None:
        for c in self.mro:
            if name in c.classvars:
                return c.classvars[name]
        return None

    def all_fields(self) -> list[FieldInfo]:
        """Dataclass fields in dataclass order (base first, overriding keeps position)."""
        out: dict[str, FieldInfo] = {}
        for c in reversed(self.mro):
            if c.is_dataclass:
                for f in c.own_fields:
                    out[f.name] = f
        return list(out.values())

    def field(self, name: str) -> FieldInfo | None:
        for f in self.all_fields():
            if f.name == name:
                return f
        return None

    @property
    def is_abstract(self) -> bool:
        # BaseRelation is an implementation base (no columns/engine of its own, closed by
        # __init_subclass__); it is never instantiated directly
        if self.name == "BaseRelation":
            return True
        # abstract if any abstract method remains un-overridden
        seen: set[str] = set()
        for c in self.mro:
            for n, m in c.methods.items():
                if n in seen:
                    continue
                seen.add(n)
                if m.abstract:
                    return True
        return False


class Module:
    def __init__(self, name: str, path: str):
        self.name = name
        self.path = path
        self.src = open(path, encoding="utf-8").read()
        self.tree = ast.parse(self.src, filename=path)
        self.is_pkg = os.path.basename(path) == "__init__.py"
        self.imports: dict[str, tuple[str, str | None]] = {}  # local name -> (module, attr|None)
        self.classes: dict[str, ClassInfo] = {}
        self.functions: dict[str, FuncInfo] = {}
        self.globals: dict[str, ast.expr] = {}
        self.star_imports: list[str] = []


def _decorator_names(node: ast.FunctionDef | ast.ClassDef) -> list[str]:
    out = []
    for d in node.decorator_list:
        f = d.func if isinstance(d, ast.Call) else d
        out.append(ast.unparse(f))
    return out


class Repo:
    """All modules of lsst.daf.relation parsed from the working tree."""

    def __init__(self, pkg_dir: str = PKG_DIR):
        self.pkg_dir = pkg_dir
        self.modules: dict[str, Module] = {}
        self._load()
        self._index()

    # ------------------------------------------------------------------ load
    def _load(self) -> None:
        for root, dirs, files in os.walk(self.pkg_dir):
            dirs[:] = sorted(d for d in dirs if d != "__pycache__")
            for fn in sorted(files):
                if not fn.endswith(".py"):
                    continue
                rel = os.path.relpath(os.path.join(root, fn), self.pkg_dir)
                parts = rel[:-3].split(os.sep)
                if parts[-1] == "__init__":
                    parts = parts[:-1]
                if parts and parts[0] in SKIP_MODULES:
                    continue
                name = ".".join([PKG] + parts)
                self.modules[name] = Module(name, os.path.join(root, fn))

    def _resolve_relative(self, mod: Module, level: int, target: str | None) -> str:
        if level == 0:
            return target or ""
        parts = mod.name.split(".")
        if not mod.is_pkg:
            parts = parts[:-1]
        if level > 1:
            parts = parts[: -(level - 1)]
        if target:
            parts = parts + target.split(".")
        return ".".join(parts)

    def _collect_imports(self, mod: Module, body: list[ast.stmt]) -> None:
        for node in ast.walk(ast.Module(body=body, type_ignores=[])):
            if isinstance(node, ast.ImportFrom):
                target = self._resolve_relative(mod, node.level, node.module)
                for a in node.names:
                    if a.name == "*":
                        mod.star_imports.append(target)
                    else:
                        # don't let a function-local import override a module-level def
                        mod.imports.setdefault(a.asname or a.name, (target, a.name))
            elif isinstance(node, ast.Import):
                for a in node.names:
                    mod.imports.setdefault(a.asname or a.name.split(".")[0], (a.name, None))

    def _index(self) -> None:
        for mod in self.modules.values():
            self._collect_imports(mod, mod.tree.body)
            for node in mod.tree.body:
                if isinstance(node, ast.ClassDef):
                    mod.classes[node.name] = self._make_class(mod, node)
                elif isinstance(node, ast.FunctionDef):
                    mod.functions[node.name] = self._make_func(mod, None, node)
                elif isinstance(node, ast.Assign) and len(node.targets) == 1 and isinstance(node.targets[0], ast.Name):
                    mod.globals[node.targets[0].id] = node.value
        # bases + mro
        for mod in self.modules.values():
            for ci in mod.classes.values():
                for b in ci.base_exprs:
                    bn = b.value if isinstance(b, ast.Subscript) else b  # Generic[...] / GenericConcreteEngine[...]
                    if isinstance(bn, ast.Name):
                        r = self.resolve(mod.name, bn.id)
                        if isinstance(r, ClassInfo):
                            ci.bases.append(r)
        for mod in self.modules.values():
            for ci in mod.classes.values():
                ci.mro = self._c3(ci)

    def _c3(self, ci: ClassInfo) -> list[ClassInfo]:
        def merge(seqs: list[list[ClassInfo]]) -> list[ClassInfo]:
            res: list[ClassInfo] = []
            seqs = [list(s) for s in seqs if s]
            while seqs:
                for s in seqs:
                    cand = s[0]
                    if not any(cand in t[1:] for t in seqs):
                        break
                else:
                    raise TypeError("inconsistent MRO for " + ci.qname)
                res.append(cand)
                seqs = [[x for x in s if x != cand] for s in seqs]
                seqs = [s for s in seqs if s]
            return res

        return [ci] + merge([self._c3(b) for b in ci.bases] + [list(ci.bases)])

    def _make_func(self, mod: Module, cls: ClassInfo | None, node: ast.FunctionDef) -> FuncInfo:
        decs = _decorator_names(node)
        kind = "method" if cls is not None else "function"
        if "property" in decs:
            kind = "property"
        elif "classmethod" in decs:
            kind = "classmethod"
        elif "staticmethod" in decs:
            kind = "staticmethod"
        q = f"{mod.name}:{cls.name + '.' if cls else ''}{node.name}"
        return FuncInfo(
            qualname=q,
            name=node.name,
            module=mod.name,
            cls=cls,
            node=node,
            kind=kind,
            cached="cached_getter" in decs,
            final="final" in decs,
            abstract="abstractmethod" in decs,
        )

    def _make_class(self, mod: Module, node: ast.ClassDef) -> ClassInfo:
        ci = ClassInfo(name=node.name, module=mod.name, node=node, base_exprs=list(node.bases))
        for d in node.decorator_list:
            f = d.func if isinstance(d, ast.Call) else d
            dn = ast.unparse(f)
            if dn in ("dataclasses.dataclass", "dataclass"):
                ci.is_dataclass = True
                if isinstance(d, ast.Call):
                    for kw in d.keywords:
                        v = kw.value.value if isinstance(kw.value, ast.Constant) else None
                        if kw.arg == "frozen":
                            ci.dc_frozen = bool(v)
                        elif kw.arg == "eq":
                            ci.dc_eq = bool(v)
                        elif kw.arg == "kw_only":
                            ci.dc_kw_only = bool(v)
                        elif kw.arg == "repr":
                            ci.dc_repr = bool(v)
            elif dn == "final":
                ci.final = True
        for st in node.body:
            if isinstance(st, ast.FunctionDef):
                if st.name == "__init_subclass__":
                    self._closed_set(ci, st)
                ci.methods[st.name] = self._make_func(mod, ci, st)
            elif isinstance(st, ast.AnnAssign) and isinstance(st.target, ast.Name):
                ann = ast.unparse(st.annotation)
                if ann.startswith("ClassVar"):
                    if st.value is not None:
                        ci.classvars[st.target.id] = st.value
                    continue
                if not ci.is_dataclass:
                    continue
                ci.own_fields.append(self._make_field(ci, st))
            elif isinstance(st, ast.Assign) and len(st.targets) == 1 and isinstance(st.targets[0], ast.Name):
                ci.classvars[st.targets[0].id] = st.value
        return ci

    def _make_field(self, ci: ClassInfo, st: ast.AnnAssign) -> FieldInfo:
        ann = st.annotation
        initvar = ast.unparse(ann).startswith("dataclasses.InitVar")
        default = st.value
        default_factory = None
        has_default = st.value is not None
        compare = True
        init = True
        kw_only = ci.dc_kw_only
        if isinstance(st.value, ast.Call) and ast.unparse(st.value.func) in ("dataclasses.field", "field"):
            default = None
            has_default = False
            for kw in st.value.keywords:
                if kw.arg == "default":
                    default = kw.value
                    has_default = True
                elif kw.arg == "default_factory":
                    default_factory = kw.value
                    has_default = True
                elif kw.arg == "compare":
                    compare = bool(getattr(kw.value, "value", True))
                elif kw.arg == "init":
                    init = bool(getattr(kw.value, "value", True))
                elif kw.arg == "kw_only":
                    kw_only = bool(getattr(kw.value, "value", False))
        return FieldInfo(
            name=st.target.id,  # type: ignore[union-attr]
            annotation=ann,
            default=default,
            default_factory=default_factory,
            has_default=has_default,
            compare=compare,
            init=init,
            initvar=initvar,
            kw_only=kw_only,
            owner=ci.qname,
            lineno=st.lineno,
        )

    def _closed_set(self, ci: ClassInfo, fn: ast.FunctionDef) -> None:
        names: set[str] = set()
        for n in ast.walk(fn):
            if isinstance(n, ast.Set):
                for e in n.elts:
                    if isinstance(e, ast.Constant) and isinstance(e.value, str):
                        names.add(e.value)
        ci.closed_set = names
        ci.closed_open = any(isinstance(n, ast.Attribute) and n.attr == "__base__" for n in ast.walk(fn))

    # --------------------------------------------------------------- resolve
    def resolve(self, modname: str, name: str, _depth: int = 0) -> Any:
        """Resolve a bare name used in ``modname`` to a ClassInfo / FuncInfo / ('module', name) / None."""
        if _depth > 12:
            return None
        mod = self.modules.get(modname)
        if mod is None:
            return ("external", modname, name)
        if name in mod.classes:
            return mod.classes[name]
        if name in mod.functions:
            return mod.functions[name]
        if name in mod.imports:
            tmod, attr = mod.imports[name]
            if attr is None:
                return ("module", tmod)
            if tmod in self.modules:
                # "from . import sub" style
                sub = f"{tmod}.{attr}"
                r = self.resolve(tmod, attr, _depth + 1)
                if r is None and sub in self.modules:
                    return ("module", sub)
                return r
            return ("external", tmod, attr)
        for s in mod.star_imports:
            r = self.resolve(s, name, _depth + 1)
            if r is not None and not (isinstance(r, tuple) and r[0] == "external"):
                return r
        if name in mod.globals:
            return ("global", modname, name)
        return None

    # ---------------------------------------------------------------- access
    def cls(self, qname_or_name: str) -> ClassInfo:
        if "." in qname_or_name and qname_or_name.rsplit(".", 1)[0] in self.modules:
            m, n = qname_or_name.rsplit(".", 1)
            return self.modules[m].classes[n]
        hits = [c for m in self.modules.values() for c in m.classes.values() if c.name == qname_or_name]
        if len(hits) == 1:
            return hits[0]
        if not hits:
            raise KeyError(qname_or_name)
        # ambiguous bare name (Engine): prefer the base package module
        for h in hits:
            if h.module == f"{PKG}._engine":
                return h
        raise KeyError(f"ambiguous class {qname_or_name}: {[h.qname for h in hits]}")

    def all_classes(self) -> list[ClassInfo]:
        return [c for m in self.modules.values() for c in m.classes.values()]

    def subclasses(self, ci: ClassInfo, concrete_only: bool = True) -> list[ClassInfo]:
        out = [c for c in self.all_classes() if ci in c.mro]
        if concrete_only:
            out = [c for c in out if not c.is_abstract]
        return sorted(out, key=lambda c: c.qname)

    def func(self, key: str) -> FuncInfo:
        """Look up "short.module:Class.method" where the module may omit the package prefix."""
        modpart, _, rest = key.partition(":")
        if not modpart.startswith(PKG):
            modpart = PKG + ("." + modpart if modpart else "")
        mod = self.modules[modpart]
        if "." in rest:
            cn, fn = rest.split(".", 1)
            return mod.classes[cn].methods[fn]
        return mod.functions[rest]

    def all_functions(self) -> list[FuncInfo]:
        out: list[FuncInfo] = []
        for m in self.modules.values():
            out.extend(m.functions.values())
            for c in m.classes.values():
                out.extend(c.methods.values())
        return out

    def tree_hash(self) -> str:
        h = hashlib.sha256()
        for name in sorted(self.modules):
            h.update(name.encode())
            h.update(self.modules[name].src.encode())
        return h.hexdigest()[:16]


if __name__ == "__main__":
    r = Repo()
    for c in sorted(r.all_classes(), key=lambda c: c.qname):
        print(c.qname, [b.name for b in c.mro[1:]], "dc" if c.is_dataclass else "", "frozen" if c.dc_frozen else "",
              [f.name for f in c.all_fields()], "abstract" if c.is_abstract else "")
    print(len(r.all_functions()), "functions; tree", r.tree_hash())
