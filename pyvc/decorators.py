"""Decorators of the functions under contract.

The symbolic executor runs a function's *body*; a decorator wraps that body in something else.  The ones lsst.daf.relation
uses are understood by the front end (property, classmethod, staticmethod, abstractmethod, final, cached_getter -- a cache on
an immutable object --, _copy_relation_docs, overload).  Anything else used to be dropped silently, which made the verified text
differ from the code that runs (seeded change C14-agent5: ``functools.lru_cache`` on ``is_supported_by``, keyed on a dataclass
``__eq__`` that ignores the very field the body reads).  Now every verified function gets an obligation:

* memoising decorators (functools.lru_cache / functools.cache): **the cache key determines the result**.  Decided by a sound,
  conservative syntactic analysis: the key is the tuple of arguments compared with ``==``; for a frozen dataclass that ignores the
  ``compare=False`` fields, for any other class of the package (identity hash, mutable state) it ignores every attribute.  The
  obligation holds if none of the ignored attribute names is read by the body or by anything reachable from it in the name-based
  call graph of the package (an over-approximation of what the call can read; reflection is not used by the package).
  When it does not hold the result of a call may depend on what an *earlier, equal-keyed* call was given -- the obligation is
  reported as failed (no input is constructed: ``no-failing-input-found``).
  A second obligation, **the result belongs to this call's arguments**, fails when a parameter is compared by value and the result is a
  relation: the later caller would get the earlier caller's nodes (identity and payload cells are what C10 / C15 speak about).
* any other unknown decorator: the function is outside the verifier's subset (undecided, never a pass).
"""
from __future__ import annotations

import ast

KNOWN = {"property", "classmethod", "staticmethod", "abstractmethod", "abc.abstractmethod", "final", "typing.final", "cached_getter",
         "_copy_relation_docs", "overload", "typing.overload"}
MEMO = {"functools.lru_cache", "lru_cache", "functools.cache", "cache", "functools.cached_property", "cached_property"}


def decorator_names(node) -> list[str]:
    out = []
    for d in node.decorator_list:
        f = d.func if isinstance(d, ast.Call) else d
        out.append(ast.unparse(f))
    return out


def _is_setter(name: str) -> bool:
    return name.endswith(".setter") or name.endswith(".getter") or name.endswith(".deleter")


def _all_functions(repo):
    for mod in repo.modules.values():
        for fi in getattr(mod, "functions", {}).values():
            yield fi
        for ci in getattr(mod, "classes", {}).values():
            for fi in ci.methods.values():
                yield fi


def _reads_and_calls(node) -> tuple[set[str], set[str]]:
    reads, calls = set(), set()
    for n in ast.walk(node):
        if isinstance(n, ast.Attribute):
            reads.add(n.attr)  # loads and stores alike: over-approximation
            calls.add(n.attr)  # a property read runs the property's body
        elif isinstance(n, ast.Call) and isinstance(n.func, ast.Name):
            calls.add(n.func.id)
        elif isinstance(n, ast.Name):
            calls.add(n.id)  # a function handed on as a value
    return reads, calls


def reachable_reads(repo, fi) -> set[str]:
    by_name: dict[str, list] = {}
    for f in _all_functions(repo):
        by_name.setdefault(f.name, []).append(f)
    seen_fn: set[str] = set()
    reads: set[str] = set()
    todo = [fi]
    while todo:
        f = todo.pop()
        if f.qualname in seen_fn:
            continue
        seen_fn.add(f.qualname)
        r, c = _reads_and_calls(f.node)
        reads |= r
        for nm in c:
            for g in by_name.get(nm, []):
                if g.qualname not in seen_fn:
                    todo.append(g)
    return reads


def _classes_of_annotation(repo, ann: str) -> list:
    import re

    names = set(re.findall(r"[A-Za-z_][A-Za-z_0-9]*", ann or ""))
    out = []
    # a Protocol named X is implemented by the hierarchy under BaseX (Relation / BaseRelation): annotations use the protocol's name
    names |= {"Base" + n for n in list(names)}
    for mod in repo.modules.values():
        for ci in getattr(mod, "classes", {}).values():
            if ci.name in names and ci not in out:
                out.append(ci)
    return out


def value_keyed_params(repo, fi) -> list[str]:
    """Parameters whose class (or a subclass) is compared by value: two distinct objects can be the same cache key."""
    out = []
    for a in fi.node.args.args + fi.node.args.kwonlyargs:
        if a.annotation is None:
            continue
        todo = list(_classes_of_annotation(repo, ast.unparse(a.annotation)))
        seen = []
        while todo:
            ci = todo.pop()
            if ci in seen:
                continue
            seen.append(ci)
            todo.extend(repo.subclasses(ci, concrete_only=False))
        if any(ci.is_dataclass and getattr(ci, "dc_eq", True) for ci in seen):
            out.append(a.arg)
    return out


def returns_an_object(repo, fi) -> bool:
    """Does the function return something whose *identity* matters?  Relation nodes do (they carry payload cells, and C10 / C15 speak about
    identical objects); operations, expressions and scalars are pure values, for which an equal object is as good as the same one."""
    r = fi.node.returns
    if r is None:
        return True
    for ci in _classes_of_annotation(repo, ast.unparse(r)):
        todo, seen = [ci], []
        while todo:
            c = todo.pop()
            if c in seen:
                continue
            seen.append(c)
            todo.extend(repo.subclasses(c, concrete_only=False))
        if any(c.name in ("BaseRelation", "Relation") or any(b.name in ("BaseRelation", "Relation") for b in getattr(c, "mro", [])) for c in seen):
            return True
    return False


def ignored_by_key(repo, fi) -> dict[str, str]:
    """attribute name -> why a cache keyed on the arguments ignores it."""
    start = []
    if fi.cls is not None and fi.kind in ("method", "property"):
        start.append(fi.cls)
    for a in fi.node.args.args + fi.node.args.kwonlyargs:
        if a.annotation is not None:
            start.extend(_classes_of_annotation(repo, ast.unparse(a.annotation)))
    seen, todo = [], list(start)
    while todo:
        ci = todo.pop()
        if ci in seen:
            continue
        seen.append(ci)
        todo.extend(repo.subclasses(ci, concrete_only=False))
        for f in getattr(ci, "own_fields", []):
            todo.extend(_classes_of_annotation(repo, ast.unparse(f.annotation) if getattr(f, "annotation", None) is not None else ""))
        for b in getattr(ci, "mro", [])[1:]:
            todo.append(b)
    out: dict[str, str] = {}
    for ci in seen:
        value_keyed = ci.is_dataclass and getattr(ci, "dc_eq", True) and getattr(ci, "dc_frozen", False)
        for f in getattr(ci, "own_fields", []):
            if value_keyed and not getattr(f, "compare", True):
                out.setdefault(f.name, f"{ci.name}.{f.name} is compare=False: equal keys may differ in it")
            elif not value_keyed and ci.is_dataclass:
                out.setdefault(f.name, f"{ci.name} is not a frozen value class: {ci.name}.{f.name} may change after the result was cached")
    return out


def obligations(repo, fi, key: str, mk):
    """Results for the decorators of ``fi``.  ``mk(label, clause, kind, status, reason)`` builds an OblResult."""
    res = []
    for d in decorator_names(fi.node):
        if d in KNOWN or _is_setter(d):
            continue
        if d in MEMO:
            ign = ignored_by_key(repo, fi)
            reads = reachable_reads(repo, fi)
            bad = sorted(set(ign) & reads)
            if bad:
                why = "; ".join(ign[b] for b in bad[:4])
                res.append(mk(f"{key}/memoised-result-is-determined-by-the-cache-key", "memoised-result-is-determined-by-the-cache-key", "decorator", "unknown",
                              f"@{d}: the cache key ignores attribute(s) {bad[:8]} that the call may read ({why}); the result of a call may then depend on an earlier call with an equal key"))
            else:
                res.append(mk(f"{key}/memoised-result-is-determined-by-the-cache-key", "memoised-result-is-determined-by-the-cache-key", "decorator", "proved", ""))
            # identity: with value-compared keys a later caller gets the object computed for (and possibly taken out of) an earlier, merely
            # *equal* argument -- harmless for scalars, not for relations / operations, whose identity and payloads the properties speak about
            vk = value_keyed_params(repo, fi)
            if vk and returns_an_object(repo, fi):
                res.append(mk(f"{key}/memoised-result-belongs-to-this-calls-arguments", "memoised-result-belongs-to-this-calls-arguments", "decorator", "unknown",
                              f"@{d}: parameter(s) {vk} are compared by value, so a call may be answered with the object cached for an earlier, equal but distinct argument "
                              f"(its nodes, payloads and identity are the earlier caller's); the function returns an object ({ast.unparse(fi.node.returns) if fi.node.returns else 'unannotated'})"))
            else:
                res.append(mk(f"{key}/memoised-result-belongs-to-this-calls-arguments", "memoised-result-belongs-to-this-calls-arguments", "decorator", "proved", ""))
        else:
            res.append(mk(f"{key}/subset", "subset", "subset", "error", f"OutsideSubset: decorator @{d} is not modelled (the body alone is not the code that runs)"))
    return res
