"""Forward symbolic execution of the real function bodies (DESIGN.md section 2.2).

Every function body executed here is the AST parsed from /repo on this run.
"""
from __future__ import annotations

import ast
from typing import Any, Callable

import z3

from . import smt
from .contracts import Clause, Contract, Ctx, Registry
from .frontend import ClassInfo, FuncInfo, Repo
from .smt import SV, TAny, TBool, TInt, TOptInt, TOptTagSet, TRange, TRefT, TSeqT, TStr, TTag, TTagSet, TTri
from .state import (
    Builtin,
    ClassVal,
    Closure,
    ExcVal,
    FuncVal,
    ModuleVal,
    Obligation,
    Opaque,
    PyDict,
    PyList,
    PyTuple,
    PyVal,
    Res,
    State,
    StarSeq,
    SuperVal,
    UnderConstruction,
)
from .types import NeedsContract, OutsideSubset, TCallable, TFlat, TOptStr, TypeTable, Flat, OptStr

MAX_INLINE_DEPTH = 14

EXC_PARENTS = {
    "ColumnError": "RelationalAlgebraError",
    "EngineError": "RelationalAlgebraError",
    "RelationalAlgebraError": "RuntimeError",
    "KeyError": "LookupError",
    "IndexError": "LookupError",
}


def exc_matches(raised: str, allowed: str) -> bool:
    while raised is not None:
        if raised == allowed:
            return True
        raised = EXC_PARENTS.get(raised)  # type: ignore[assignment]
    return False


class Frame:
    def __init__(self, fi: FuncInfo | None, module: str, cls: ClassInfo | None, contract: Contract | None = None):
        self.fi = fi
        self.module = module
        self.cls = cls
        self.contract = contract
        self.loop_ordinal = 0
        self.ctx: Ctx | None = None


class Executor:
    def __init__(self, repo: Repo, registry: Registry, axioms: list[z3.BoolRef] | None = None):
        self.repo = repo
        self.types = TypeTable(repo)
        self.reg = registry
        self.axioms = list(axioms or [])
        self.obligations: list[Obligation] = []
        self.frames: list[Frame] = []
        self.pure_syms: dict[str, z3.FuncDeclRef] = {}
        self.feas_solver = z3.Solver()
        self.feas_solver.set("timeout", 400)
        self.stats = {"paths": 0, "feas_checks": 0, "inlined": 0, "contract_calls": 0}
        self.assumed_contracts_used: set[str] = set()
        self.contracts_used: set[str] = set()  # keys of every contract applied at a call site / attribute read (dependency closure)
        self.modular = True
        self.verifying: str | None = None
        self.born_clock: Any = 1
        self.clock_facts: list[Any] = []  # exit_clock >= entry_clock of every contract call (ground facts over fresh constants)
        self.spec: Any = None  # spec vocabulary object, set by the driver
        self.hooks: dict[str, Callable] = {}

    # ------------------------------------------------------------ utilities
    @property
    def frame(self) -> Frame:
        return self.frames[-1]

    def feasible(self, st: State, *extra: z3.BoolRef) -> bool:
        self.stats["feas_checks"] += 1
        s = self.feas_solver
        s.push()
        try:
            for f in st.pc:
                if not _has_quantifier(f):
                    s.add(f)
            for f in self.clock_facts:
                s.add(f)
            for e in extra:
                s.add(e)
            return s.check() != z3.unsat
        finally:
            s.pop()

    def oblige(self, st: State, label: str, goal: z3.BoolRef, node: ast.AST | None, kind: str = "post", **info: Any) -> None:
        self.obligations.append(
            Obligation(
                label=label,
                pc=list(st.pc),
                goal=goal,
                node=node,
                func=self.verifying or "?",
                path=list(st.path),
                kind=kind,
                info=info,
            )
        )

    def ok(self, v: Any, st: State) -> list[Res]:
        return [Res("ok", v, st)]

    def raise_(self, exc: str, st: State, node: ast.AST | None, note: str = "") -> list[Res]:
        return [Res("raise", None, st, exc=exc, node=node, note=note)]

    def bind(self, results: list[Res], f: Callable[[Any, State], list[Res]]) -> list[Res]:
        out: list[Res] = []
        for r in results:
            if r.kind == "ok":
                out.extend(f(r.value, r.state))
            else:
                out.append(r)
        return out

    def ev_list(self, nodes: list[ast.expr], st: State) -> list[Res]:
        """Evaluate expressions left to right; value = python list of values."""
        results = [Res("ok", [], st)]
        for n in nodes:
            if isinstance(n, ast.Starred):
                def step(acc, s, n=n):
                    def spread(v, s2):
                        if isinstance(v, SV) and isinstance(v.td, TSeqT):
                            return self.ok(acc + [StarSeq(v)], s2)
                        if isinstance(v, SV) and v.td == TFlat:
                            return self.ok(acc + [StarSeq(SV(TSeqT(TRefT(None)), Flat.flat_val(v.z)))], s2)
                        return self.ok(acc + self.unpack_iterable(v, s2, n), s2)
                    return self.bind(self.ev(n.value, s), spread)
            else:
                def step(acc, s, n=n):
                    return self.bind(self.ev(n, s), lambda v, s2: self.ok(acc + [v], s2))
            results = self.bind(results, step)
        return results

    def unpack_iterable(self, v: Any, st: State, node: ast.AST) -> list[Any]:
        if isinstance(v, (PyTuple, PyList)):
            return list(v.items)
        raise OutsideSubset(f"cannot unpack a symbolic-length iterable {v!r}", node)

    def type_facts(self, z: z3.ExprRef, td: smt.TD, st: State, depth: int = 1) -> list[z3.BoolRef]:
        """Typing facts plus the object invariants of every class the value may have."""
        facts = list(self.types.typing_fact(z, td))
        if isinstance(td, TRefT) and td.cls is not None and self.reg.object_invariants:
            key = (z.get_id(), depth)
            cache = st.ghost.get("invfacts", {})
            if key in cache:
                return list(cache[key])
            for c in self.types.concrete_subclasses(td.cls):
                clauses = [cl for a in c.mro for cl in self.reg.object_invariants.get(a.name, [])]
                # declared field types are part of every object's invariant (one level deep)
                ftyp = []
                if c.is_dataclass:
                    for f in c.all_fields():
                        if f.initvar:
                            continue
                        ftd = self.field_td(self.repo.cls(f.owner), f)
                        if isinstance(ftd, TRefT) and ftd.cls is not None and not self.is_heap_attr(self.repo.cls(f.owner), f.name, "field", self.repo.cls(f.owner)):
                            fz = self.types.attr_symbol(self.repo.cls(f.owner), f.name, ftd)(z)
                            if depth > 0 and ftd.cls.name in ("Relation", "BaseRelation"):
                                ftyp.extend(self.type_facts(fz, ftd, st, depth - 1))
                            else:
                                ftyp.extend(self.types.typing_fact(fz, ftd))
                if ftyp:
                    facts.append(z3.Implies(smt.typ(z) == self.types.cid(c), z3.And(*ftyp)))
                if not clauses:
                    continue
                obj = SV(TRefT(c), z)
                ctx = Ctx(self, {"self": obj}, "assume", st)
                body = [smt.lift(cl.fn(ctx, obj)).z for cl in clauses]
                facts.append(z3.Implies(smt.typ(z) == self.types.cid(c), z3.And(*body)))
            cache = dict(st.ghost.get("invfacts", {}))
            cache[key] = list(facts)
            st.ghost["invfacts"] = cache
        return facts

    # ------------------------------------------------------------ truthiness
    def truth(self, v: Any, st: State, node: ast.AST | None = None) -> z3.BoolRef:
        if isinstance(v, SV):
            return v.td.truthy(v)
        if isinstance(v, (PyTuple, PyList)):
            return z3.BoolVal(bool(v.items))
        if isinstance(v, PyDict):
            return z3.BoolVal(bool(v.keys))
        if isinstance(v, (ClassVal, FuncVal, Closure, Builtin)):
            return z3.BoolVal(True)
        raise OutsideSubset(f"truthiness of {v!r}", node)

    # ------------------------------------------------------------ attributes
    def known_class(self, obj: SV, st: State) -> ClassInfo | None:
        return st.ghost.get("cls", {}).get(obj.z.get_id())

    def set_known_class(self, obj: SV, ci: ClassInfo, st: State) -> None:
        d = dict(st.ghost.get("cls", {}))
        d[obj.z.get_id()] = ci
        st.ghost["cls"] = d

    def candidates(self, obj: SV, st: State) -> list[ClassInfo]:
        k = self.known_class(obj, st)
        if k is not None:
            return [k]
        assert isinstance(obj.td, TRefT)
        cands = self.types.concrete_subclasses(obj.td.cls)
        if len(cands) <= 1:
            return cands
        out = [c for c in cands if self.feasible(st, smt.typ(obj.z) == self.types.cid(c))]
        return out

    def heap_key(self, ci: ClassInfo, attr: str) -> str:
        return f"{self.types.root_of(ci).name}.{attr}"

    def is_heap_attr(self, ci: ClassInfo, attr: str, decl_kind: str, owner: ClassInfo) -> bool:
        if attr in self.types.mutated_attrs():
            # the LeafRelation payload is set once by the (frozen) constructor, but it shares the
            # Relation.payload symbol with markers, which are written by attach_payload
            return True
        if decl_kind == "field":
            return False
        return True  # attributes set in a plain __init__ (RowIterable classes)

    def heap_array(self, st: State, key: str, sort: z3.SortRef) -> z3.ExprRef:
        if key not in st.heap:
            name = smt.fresh_name(f"H_{key}") if key in st.ghost.get("havocked_heaps", ()) else f"H0_{key}"
            st.heap[key] = z3.Const(name, z3.ArraySort(smt.Ref, sort))
        return st.heap[key]

    def field_td(self, owner: ClassInfo, decl: Any) -> smt.TD:
        return self.types.td_of_annotation(decl.annotation, owner.module)

    def read_field(self, obj: SV, ci: ClassInfo, attr: str, td: smt.TD, st: State, heap: bool) -> SV:
        if heap:
            arr = self.heap_array(st, self.heap_key(ci, attr), td.sort)
            z = z3.Select(arr, obj.z)
        else:
            z = self.types.attr_symbol(ci, attr, td)(obj.z)
        v = SV(td, z)
        st.assume(*self.type_facts(z, td, st))
        if isinstance(td, TRefT):
            st.assume(smt.born(z) <= smt.born(obj.z))
        own = st.owned.get(obj.z.get_id())
        if own is not None and own.get(attr, False):
            v.fresh = True
        return v

    @staticmethod
    def annotation_kind(decl: Any) -> str | None:
        """'frozen' when the declared type of a field / the return type of a property is ``frozenset[...]`` (| None)."""
        if decl is None:
            return None
        kind, owner, d = decl
        ann = d.annotation if kind == "field" else getattr(getattr(d, "node", None), "returns", None)
        if ann is None:
            return None
        txt = ast.unparse(ann).replace(" ", "")
        if isinstance(ann, ast.Constant) and isinstance(ann.value, str):
            txt = ann.value.replace(" ", "")
        return "frozen" if txt.startswith("frozenset[") or txt == "frozenset" else None

    def spec_attr(self, obj: SV, attr: str, st: State) -> SV:
        """Pure attribute read for contracts (no forking, no exceptions)."""
        ci = obj.td.cls if isinstance(obj.td, TRefT) else None
        if ci is None:
            raise OutsideSubset(f"spec_attr on untyped value {obj}")
        if ci.name == "Relation":
            ci = self.types.relation_root
        decl = None
        for c in [ci] + self.types.concrete_subclasses(ci):
            decl = self.types.attr_decl(c, attr)
            if decl is not None and decl[0] in ("field", "property"):
                break
        if decl is None:
            raise OutsideSubset(f"no attribute {attr} on {ci.name}")
        kind, owner, d = decl
        if kind == "field":
            td = self.field_td(owner, d)
            heap = self.is_heap_attr(owner, attr, kind, owner)
        else:
            td = self.types.td_of_annotation(d.node.returns, owner.module)
            heap = False
        if heap:
            arr = self.heap_array(st, self.heap_key(owner, attr), td.sort)
            return SV(td, z3.Select(arr, obj.z))
        return SV(td, self.types.attr_symbol(owner, attr, td)(obj.z))

    def attr_contract(self, ci: ClassInfo, attr: str) -> Contract | None:
        return self.reg.get(f"attr:{self.types.root_of(ci).name}.{attr}")

    def getattr_val(self, obj: Any, attr: str, st: State, node: ast.AST) -> list[Res]:
        if isinstance(obj, UnderConstruction):
            if attr in obj.pending(st):
                return self.ok(obj.pending(st)[attr], st)
            decl = self.types.attr_decl(obj.cls, attr)
            if decl is None:
                raise OutsideSubset(f"attribute {attr} of object under construction", node)
            kind, owner, d = decl
            if kind == "property":
                return self.call_function(d, obj, [], {}, st, node, dispatch_cls=obj.cls)
            if kind in ("method", "classmethod", "staticmethod"):
                return self.ok(FuncVal(d, obj, obj.cls), st)
            raise OutsideSubset(f"attribute {attr} of object under construction", node)
        if isinstance(obj, SuperVal):
            recv = obj.self_val
            cls = recv.cls if isinstance(recv, (UnderConstruction, ClassVal)) else self.static_or_known(recv, st)
            fi = cls.lookup_after(obj.after, attr)
            if fi is None:
                raise OutsideSubset(f"super().{attr} not found", node)
            if fi.kind == "property":
                return self.call_function(fi, recv, [], {}, st, node, dispatch_cls=cls)
            return self.ok(FuncVal(fi, recv, cls), st)
        if isinstance(obj, ClassVal):
            return self.getattr_class(obj, attr, st, node)
        if isinstance(obj, ModuleVal):
            return self.ok(self.module_attr(obj, attr, node), st)
        if isinstance(obj, Opaque):
            return self.ok(Opaque(f"{obj.what}.{attr}"), st)
        if isinstance(obj, (PyList, PyDict, PyTuple)):
            return self.ok(Builtin(f"{type(obj).__name__}.{attr}", obj), st)
        if isinstance(obj, Builtin) and obj.self_val is None:
            return self.ok(Builtin(f"{obj.name}.{attr}"), st)
        if isinstance(obj, Closure):
            raise OutsideSubset(f"attribute {attr} of closure", node)
        if isinstance(obj, SV):
            td = obj.td
            if isinstance(td, TRefT) and td.cls is not None:
                return self.getattr_ref(obj, attr, st, node)
            if td == TRange and attr in ("start", "stop", "step"):
                acc = {"start": smt.Range.r_start, "stop": smt.Range.r_stop, "step": smt.Range.r_step}[attr]
                return self.ok(SV(TInt, acc(obj.z)), st)
            if td == TTag and attr in ("is_key", "qualified_name"):
                return self.ok(self.spec.tag_attr(obj, attr), st)
            if isinstance(td, TRefT):  # Any
                h = self.hooks.get("getattr_any")
                if h is not None:
                    r = h(self, obj, attr, st, node)
                    if r is not None:
                        return r
                return self.ok(Builtin(f"any.{attr}", obj), st)
            return self.ok(Builtin(f"{td.name}.{attr}", obj), st)
        raise OutsideSubset(f"getattr {attr} on {obj!r}", node)

    def static_or_known(self, obj: SV, st: State) -> ClassInfo:
        k = self.known_class(obj, st)
        if k is not None:
            return k
        assert isinstance(obj.td, TRefT) and obj.td.cls is not None
        return obj.td.cls

    def getattr_class(self, obj: ClassVal, attr: str, st: State, node: ast.AST) -> list[Res]:
        ci = obj.cls
        if attr == "__name__":
            return self.ok(smt.lift(ci.name), st)
        decl = self.types.attr_decl(ci, attr)
        if decl is None:
            raise OutsideSubset(f"class attribute {ci.name}.{attr}", node)
        kind, owner, d = decl
        if kind == "classmethod":
            return self.ok(FuncVal(d, obj, ci), st)
        if kind in ("method", "staticmethod"):
            return self.ok(FuncVal(d, None, ci), st)
        if kind == "classvar":
            self.frames.append(Frame(None, owner.module, owner))
            try:
                return self.ev(d, st)
            finally:
                self.frames.pop()
        raise OutsideSubset(f"class attribute {ci.name}.{attr} of kind {kind}", node)

    def module_attr(self, m: ModuleVal, attr: str, node: ast.AST) -> Any:
        full = f"{m.name}.{attr}"
        if full in ("dataclasses.replace", "dataclasses.field", "itertools.groupby", "itertools.chain", "uuid.uuid4"):
            return Builtin(full)
        if m.name in self.repo.modules:
            r = self.repo.resolve(m.name, attr)
            return self.wrap_resolved(r, attr, node)
        # foreign modules: a call into them yields an unmodelled value (Opaque) unless a contract module gives it a meaning.  random / secrets /
        # time / os were added after seeded change C19-agent4 (uuid4 replaced by random.getrandbits): nothing is known about what they return,
        # in particular not that it was never returned before
        if m.name.split(".")[0] in ("sqlalchemy", "operator", "itertools", "uuid", "typing", "dataclasses", "random", "secrets", "time", "os"):
            return ModuleVal(full)
        raise OutsideSubset(f"module attribute {full}", node)

    def wrap_resolved(self, r: Any, name: str, node: ast.AST) -> Any:
        if isinstance(r, ClassInfo):
            return ClassVal(r)
        if isinstance(r, FuncInfo):
            return FuncVal(r)
        if isinstance(r, tuple):
            if r[0] == "module":
                return ModuleVal(r[1])
            if r[0] == "external":
                return ModuleVal(f"{r[1]}.{r[2]}")
            if r[0] == "global":
                return ("global", r[1], r[2])
        raise OutsideSubset(f"unresolved name {name}", node)

    def getattr_ref(self, obj: SV, attr: str, st: State, node: ast.AST) -> list[Res]:
        assert isinstance(obj.td, TRefT)
        h = self.hooks.get("getattr_ref")
        if h is not None:
            r = h(self, obj, attr, st, node)
            if r is not None:
                return r
        cands = self.candidates(obj, st)
        if not cands:
            raise OutsideSubset(f"no concrete class for {obj.td} when reading .{attr}", node)
        groups: dict[tuple, list[ClassInfo]] = {}
        missing: list[ClassInfo] = []
        for c in cands:
            d = self.types.attr_decl(c, attr)
            if d is None:
                missing.append(c)
                continue
            kind, owner, decl = d
            ac = None
            if kind == "property":
                k = self.find_contract(decl, None)
                if k is not None and k.attr:
                    ac = "attr"
            gk = ("sym", attr) if (kind == "field" or ac == "attr") else (kind, owner.qname)
            if kind in ("method", "property") and ac is None and self.modular:
                vk = self.find_virtual(decl)
                if vk is not None and vk.virtual and not vk.inline:
                    gk = ("virtual", vk.key)
            groups.setdefault(gk, []).append(c)
        out: list[Res] = []
        if missing and self.feasible(st, z3.Or(*[smt.typ(obj.z) == self.types.cid(c) for c in missing])):
            s2 = st.fork()
            s2.assume(z3.Or(*[smt.typ(obj.z) == self.types.cid(c) for c in missing]))
            s2.path.append(f"L{getattr(node, 'lineno', 0)}:{attr}:AttributeError")
            out.extend(self.raise_("AttributeError", s2, node, f"no attribute {attr}"))
        single = len(groups) == 1 and not missing
        for gk, classes in groups.items():
            s2 = st if single else st.fork()
            if not single:
                cond = z3.Or(*[smt.typ(obj.z) == self.types.cid(c) for c in classes])
                if not self.feasible(s2, cond):
                    continue
                s2.assume(cond)
                s2.path.append(f"L{getattr(node, 'lineno', 0)}:{attr}@{'|'.join(c.name for c in classes)}")
                if len(classes) == 1:
                    self.set_known_class(obj, classes[0], s2)
            c0 = classes[0]
            kind, owner, decl = self.types.attr_decl(c0, attr)
            if gk[0] == "sym":
                # find a type descriptor: prefer a field declaration
                td = None
                heap = False
                for c in classes:
                    k2, o2, d2 = self.types.attr_decl(c, attr)
                    if k2 == "field":
                        td = self.field_td(o2, d2)
                        heap = self.is_heap_attr(o2, attr, k2, o2)
                        break
                if td is None:
                    td = self.types.td_of_annotation(decl.node.returns, owner.module)
                v = self.read_field(obj, c0, attr, td, s2, heap)
                v.kind = self.annotation_kind(self.types.attr_decl(c0, attr))
                k = self.attr_contract(c0, attr)
                if k is None and kind == "property":
                    k = self.find_contract(decl, None)
                if k is not None:
                    self.contracts_used.add(k.key)
                    ctx = Ctx(self, {"self": obj}, "assume", s2)
                    ctx.result = v
                    for cl in k.ensures:
                        s2.assume(smt.lift(cl.fn(ctx)).z)
                out.extend(self.ok(v, s2))
            elif kind == "property":
                dc = classes[0] if len(classes) == 1 and gk[0] != "virtual" else None
                out.extend(self.call_function(decl, obj, [], {}, s2, node, dispatch_cls=dc))
            elif kind in ("method", "classmethod", "staticmethod"):
                recv: Any = obj if kind == "method" else (ClassVal(c0) if kind == "classmethod" else None)
                out.extend(self.ok(FuncVal(decl, recv, classes[0] if len(classes) == 1 and gk[0] != "virtual" else None), s2))
            elif kind == "classvar":
                self.frames.append(Frame(None, owner.module, owner))
                try:
                    out.extend(self.ev(decl, s2))
                finally:
                    self.frames.pop()
            else:
                raise OutsideSubset(f"attribute kind {kind} for {attr}", node)
        return out

    # ------------------------------------------------------------ names
    BUILTINS = {
        "len", "min", "max", "isinstance", "set", "frozenset", "tuple", "list", "dict", "all", "any", "bool", "str",
        "sorted", "getattr", "enumerate", "type", "super", "object", "cast", "iter", "range", "hasattr", "repr", "id",
        "int", "sum", "zip", "reversed", "abs", "setattr", "slice",
    }
    EXC_NAMES = {
        "ValueError", "TypeError", "KeyError", "NotImplementedError", "AssertionError", "RuntimeError",
        "AttributeError", "IndexError",
    }

    def ev_name(self, node: ast.Name, st: State) -> list[Res]:
        n = node.id
        if n in st.env:
            return self.ok(st.env[n], st)
        r = self.repo.resolve(self.frame.module, n)
        if r is not None:
            w = self.wrap_resolved(r, n, node)
            if isinstance(w, tuple) and w[0] == "global":
                gmod = self.repo.modules[w[1]]
                self.frames.append(Frame(None, w[1], None))
                try:
                    return self.ev(gmod.globals[w[2]], st)
                finally:
                    self.frames.pop()
            if isinstance(w, ClassVal) and w.cls.name in ("ColumnError", "EngineError", "RelationalAlgebraError"):
                return self.ok(w, st)
            return self.ok(w, st)
        if n in self.BUILTINS:
            return self.ok(Builtin(n), st)
        if n in self.EXC_NAMES:
            return self.ok(Builtin("exc:" + n), st)
        raise OutsideSubset(f"unbound name {n}", node)

    # ------------------------------------------------------------ expressions
    def ev(self, node: ast.expr, st: State) -> list[Res]:
        m = getattr(self, "ev_" + type(node).__name__, None)
        if m is None:
            raise OutsideSubset(f"expression {type(node).__name__}", node)
        return m(node, st)

    def ev_Name(self, node: ast.Name, st: State) -> list[Res]:
        return self.ev_name(node, st)

    def ev_Constant(self, node: ast.Constant, st: State) -> list[Res]:
        v = node.value
        if v is Ellipsis:
            return self.ok(Opaque("..."), st)
        if isinstance(v, (bool, int, str)) or v is None:
            return self.ok(smt.lift(v), st)
        raise OutsideSubset(f"constant {v!r}", node)

    def ev_JoinedStr(self, node: ast.JoinedStr, st: State) -> list[Res]:
        h = self.hooks.get("fstring")
        if h is not None:
            r = h(self, node, st)
            if r is not None:
                return r
        # message text: an unconstrained string (DESIGN 2.1); embedded expressions are not evaluated
        return self.ok(TStr.fresh("fstr"), st)

    def ev_Attribute(self, node: ast.Attribute, st: State) -> list[Res]:
        return self.bind(self.ev(node.value, st), lambda v, s: self.getattr_val(v, node.attr, s, node))

    def ev_NamedExpr(self, node: ast.NamedExpr, st: State) -> list[Res]:
        def f(v, s):
            s.env = dict(s.env)
            s.env[node.target.id] = v
            return self.ok(v, s)

        return self.bind(self.ev(node.value, st), f)

    def ev_Tuple(self, node: ast.Tuple, st: State) -> list[Res]:
        return self.bind(self.ev_list(node.elts, st), lambda vs, s: self.ok(PyTuple(vs), s))

    def ev_List(self, node: ast.List, st: State) -> list[Res]:
        return self.bind(self.ev_list(node.elts, st), lambda vs, s: self.ok(PyList(vs, True), s))

    def ev_Set(self, node: ast.Set, st: State) -> list[Res]:
        def f(vs, s):
            if all(isinstance(v, SV) and v.td == TTag for v in vs):
                z = smt.EMPTY_TAGS
                for v in vs:
                    z = z3.SetAdd(z, v.z)
                return self.ok(SV(TTagSet, z, fresh=True, kind="mutable"), s)
            raise OutsideSubset("set display of non-tags", node)

        return self.bind(self.ev_list(node.elts, st), f)

    def ev_Dict(self, node: ast.Dict, st: State) -> list[Res]:
        h = self.hooks.get("dict_display")
        if h is not None:
            r = h(self, node, st)
            if r is not None:
                return r
        if any(k is None for k in node.keys):
            raise OutsideSubset("dict display with ** needs a hook", node)
        def f(ks, s):
            return self.bind(self.ev_list(node.values, s), lambda vs, s2: self.ok(PyDict(ks, vs, True), s2))
        return self.bind(self.ev_list(node.keys, st), f)  # type: ignore[arg-type]

    def ev_Lambda(self, node: ast.Lambda, st: State) -> list[Res]:
        return self.ok(Closure(node, dict(st.env), self.frame.module, self.frame.cls), st)

    def ev_IfExp(self, node: ast.IfExp, st: State) -> list[Res]:
        def f(c, s):
            cz = self.truth(c, s, node)
            out: list[Res] = []
            for branch, cond, lab in ((node.body, cz, "T"), (node.orelse, z3.Not(cz), "F")):
                if self.feasible(s, cond):
                    s2 = s.fork().assume(cond)
                    s2.path.append(f"L{node.lineno}:ifexp:{lab}")
                    out.extend(self.ev(branch, s2))
            return self.merge_pure(out, s)

        return self.bind(self.ev(node.test, st), f)

    def merge_pure(self, results: list[Res], base: State) -> list[Res]:
        """Merge forked results of a side-effect-free expression back into one ITE value."""
        if len(results) <= 1:
            return results
        if not all(r.kind == "ok" and isinstance(r.value, SV) for r in results):
            return results
        td0 = results[0].value.td
        for r in results:
            if r.value.td.sort != td0.sort or r.state.env is not base.env and r.state.env != base.env:
                return results
            if r.state.heap != base.heap or len(r.state.pc) < len(base.pc):
                return results
            if any(a is not b for a, b in zip(r.state.pc, base.pc)):
                return results
            if r.state.ghost.get("cls") != base.ghost.get("cls") and False:
                return results
        # all extra facts of each branch: split into its guard (everything added)
        n = len(base.pc)
        guards = [z3.And(*r.state.pc[n:]) if len(r.state.pc) > n else z3.BoolVal(True) for r in results]
        z = results[-1].value.z
        for g, r in zip(reversed(guards[:-1]), reversed(results[:-1])):
            z = z3.If(g, r.value.z, z)
        s = base.fork()
        # side facts (typing etc.) that hold under each guard remain valid as implications
        s.assume(z3.Or(*guards))
        kinds = {getattr(r.value, "kind", None) for r in results}
        v = SV(td0, z, fresh=all(r.value.fresh for r in results), kind=kinds.pop() if len(kinds) == 1 else None)
        return [Res("ok", v, s)]

    def ev_BoolOp(self, node: ast.BoolOp, st: State) -> list[Res]:
        is_and = isinstance(node.op, ast.And)

        def go(i: int, s: State) -> list[Res]:
            def f(v, s1):
                if i == len(node.values) - 1:
                    return self.ok(v, s1)
                t = self.truth(v, s1, node)
                out: list[Res] = []
                stop_c, go_c = (z3.Not(t), t) if is_and else (t, z3.Not(t))
                if self.feasible(s1, stop_c):
                    s2 = s1.fork().assume(stop_c)
                    s2.path.append(f"L{node.lineno}:{'and' if is_and else 'or'}{i}:stop")
                    out.extend(self.ok(v, s2))
                if self.feasible(s1, go_c):
                    s3 = s1.fork().assume(go_c)
                    s3.path.append(f"L{node.lineno}:{'and' if is_and else 'or'}{i}:go")
                    out.extend(go(i + 1, s3))
                return out

            return self.bind(self.ev(node.values[i], s), f)

        res = go(0, st)
        # bring mixed bool / tri / other values to bool when every operand is boolean
        return self.merge_pure(res, st)

    def ev_UnaryOp(self, node: ast.UnaryOp, st: State) -> list[Res]:
        def f(v, s):
            if isinstance(node.op, ast.Not):
                return self.ok(SV(TBool, z3.Not(self.truth(v, s, node))), s)
            if isinstance(node.op, ast.USub) and isinstance(v, SV) and v.td == TInt:
                return self.ok(SV(TInt, -v.z), s)
            raise OutsideSubset(f"unary {type(node.op).__name__} on {v!r}", node)

        return self.bind(self.ev(node.operand, st), f)

    def need_int(self, v: Any, st: State, node: ast.AST) -> list[Res]:
        """Use a value as an int: int|None forks into a TypeError outcome when None is feasible."""
        if isinstance(v, SV):
            if v.td == TInt:
                return self.ok(v, st)
            if v.td == TBool:
                return self.ok(SV(TInt, z3.If(v.z, 1, 0)), st)
            if v.td == TOptInt:
                out: list[Res] = []
                isn = smt.OptInt.is_oi_none(v.z)
                if self.feasible(st, isn):
                    s2 = st.fork().assume(isn)
                    s2.path.append(f"L{getattr(node, 'lineno', 0)}:None-as-int")
                    out.extend(self.raise_("TypeError", s2, node, "None used as int"))
                if self.feasible(st, z3.Not(isn)):
                    s3 = st.assume(z3.Not(isn))
                    out.extend(self.ok(SV(TInt, smt.OptInt.oi_val(v.z)), s3))
                return out
        raise OutsideSubset(f"expected int, got {v!r} [{ast.unparse(node) if isinstance(node, ast.AST) else node}]", node)

    def ev_BinOp(self, node: ast.BinOp, st: State) -> list[Res]:
        def f(vs, s):
            a, b = vs
            return self.binop(node.op, a, b, s, node)

        return self.bind(self.ev_list([node.left, node.right], st), f)

    def binop(self, op: ast.operator, a: Any, b: Any, s: State, node: ast.AST) -> list[Res]:
        if isinstance(a, SV) and isinstance(b, SV):
            if a.td == TTagSet and b.td == TOptTagSet or a.td == TOptTagSet and b.td == TTagSet:
                o = a if a.td == TOptTagSet else b
                isn = smt.OptTagSet.is_ots_none(o.z)
                out: list[Res] = []
                if self.feasible(s, isn):
                    out.extend(self.raise_("TypeError", s.fork().assume(isn), node, "None used as a set"))
                if self.feasible(s, z3.Not(isn)):
                    s2 = s.assume(z3.Not(isn))
                    ov = SV(TTagSet, smt.OptTagSet.ots_val(o.z), kind=o.kind)
                    out.extend(self.binop(op, ov if a is o else a, ov if b is o else b, s2, node))
                return out
            if a.td == TTagSet and b.td == TTagSet:
                # set | frozenset etc.: the result has the type of the LEFT operand
                if isinstance(op, ast.BitOr):
                    return self.ok(SV(TTagSet, z3.SetUnion(a.z, b.z), True, kind=a.kind), s)
                if isinstance(op, ast.BitAnd):
                    return self.ok(SV(TTagSet, z3.SetIntersect(a.z, b.z), True, kind=a.kind), s)
                if isinstance(op, ast.Sub):
                    return self.ok(SV(TTagSet, z3.SetDifference(a.z, b.z), True, kind=a.kind), s)
            if a.td in (TInt, TOptInt, TBool) and b.td in (TInt, TOptInt, TBool):
                def g(x, s1):
                    def h(y, s2):
                        if isinstance(op, ast.Add):
                            return self.ok(SV(TInt, x.z + y.z), s2)
                        if isinstance(op, ast.Sub):
                            return self.ok(SV(TInt, x.z - y.z), s2)
                        if isinstance(op, ast.Mult):
                            return self.ok(SV(TInt, x.z * y.z), s2)
                        if isinstance(op, (ast.Mod, ast.FloorDiv)):
                            out: list[Res] = []
                            if self.feasible(s2, y.z == 0):
                                out.extend(self.raise_("ZeroDivisionError", s2.fork().assume(y.z == 0), node))
                            s3 = s2.assume(y.z != 0)
                            # Python floor semantics: sign of the remainder follows the divisor.  When the path condition
                            # fixes the sign of the divisor the plain SMT term is used (same value, simpler term).
                            pos = (x.z % y.z) if isinstance(op, ast.Mod) else (x.z / y.z)
                            neg = (-((-x.z) % (-y.z))) if isinstance(op, ast.Mod) else ((-x.z) / (-y.z))
                            if not self.feasible(s3, y.z < 0):
                                r = pos
                            elif not self.feasible(s3, y.z > 0):
                                r = neg
                            else:
                                r = z3.If(y.z > 0, pos, neg)
                            out.extend(self.ok(SV(TInt, r), s3))
                            return out
                        raise OutsideSubset(f"int operator {type(op).__name__}", node)

                    return self.bind(self.need_int(b, s1, node), h)

                return self.bind(self.need_int(a, s, node), g)
            if isinstance(a.td, TSeqT) and isinstance(b.td, TSeqT) and isinstance(op, ast.Add):
                return self.ok(self.seq_concat(a, b, s), s)
        if isinstance(a, PyTuple) and isinstance(b, PyTuple) and isinstance(op, ast.Add):
            return self.ok(PyTuple(a.items + b.items), s)
        if isinstance(a, PyList) and isinstance(b, PyList) and isinstance(op, ast.Add):
            return self.ok(PyList(a.items + b.items, True), s)
        if isinstance(a, PyTuple) and isinstance(b, SV) and isinstance(b.td, TSeqT) and isinstance(op, ast.Add):
            return self.ok(self.seq_concat(self.seq_from_items(a.items, b.td, s), b, s), s)
        if isinstance(b, PyTuple) and isinstance(a, SV) and isinstance(a.td, TSeqT) and isinstance(op, ast.Add):
            return self.ok(self.seq_concat(a, self.seq_from_items(b.items, a.td, s), s), s)
        h = self.hooks.get("binop")
        if h is not None:
            r = h(self, op, a, b, s, node)
            if r is not None:
                return r
        raise OutsideSubset(f"binary {type(op).__name__} on {a!r}, {b!r}", node)

    # --- sequences
    def seq_from_items(self, items: list[Any], td: TSeqT, st: State) -> SV:
        z = smt.fresh_const("seq", td.sort)
        svs: list[SV] = []
        st.assume(td.info.len(z) == len(items))
        for i, it in enumerate(items):
            v = smt.coerce_to(it, td.elem) if isinstance(it, SV) else it
            if not isinstance(v, SV):
                raise OutsideSubset(f"sequence element {it!r}")
            st.assume(td.info.at(z, i) == v.z)
            svs.append(v)
        h = self.hooks.get("seq_literal")
        if h is not None:
            h(self, svs, SV(td, z), st)
        return SV(td, z, fresh=True)

    def seq_concat(self, a: SV, b: SV, st: State) -> SV:
        td = a.td
        assert isinstance(td, TSeqT)
        z = td.info.cat(a.z, b.z)
        h = self.hooks.get("seq_concat")
        if h is not None:
            h(self, a, b, SV(td, z), st)
        return SV(td, z, fresh=True)

    def seq_snoc(self, a: SV, x: SV, st: State) -> SV:
        td = a.td
        assert isinstance(td, TSeqT)
        z = td.info.snoc(a.z, smt.coerce_to(x, td.elem).z)
        h = self.hooks.get("seq_snoc")
        if h is not None:
            h(self, a, x, SV(td, z), st)
        return SV(td, z, fresh=True)

    def seq_elem(self, s: SV, i: z3.ExprRef, st: State) -> SV:
        td = s.td
        assert isinstance(td, TSeqT)
        z = td.info.at(s.z, i)
        st.assume(*self.type_facts(z, td.elem, st))
        return SV(td.elem, z)

    # --- comparisons
    def equals(self, a: Any, b: Any, st: State, node: ast.AST | None = None) -> z3.BoolRef:
        if isinstance(a, SV) and isinstance(b, SV):
            if isinstance(a.td, TRefT) and isinstance(b.td, TRefT):
                if a.z.eq(smt.NONE) or b.z.eq(smt.NONE):
                    return a.z == b.z
                if self.identity_eq(a) or self.identity_eq(b):
                    return a.z == b.z
                return smt.deq(a.z, b.z)
            if isinstance(a.td, TSeqT) and isinstance(b.td, TSeqT):
                h = self.hooks.get("seq_eq")
                if h is not None:
                    return h(self, a, b, st)
                raise OutsideSubset("sequence equality", node)
            for u, w in ((a, b), (b, a)):
                if isinstance(u.td, TRefT) and u.z.eq(smt.NONE) and w.td in (TInt, TBool, TStr, TTag, TTagSet, TRange) :
                    return z3.BoolVal(False)
            try:
                x, y = smt.coerce_pair(a, b)
            except TypeError:
                return z3.BoolVal(False) if node is None else _raise(OutsideSubset(f"== between {a.td} and {b.td}", node))
            return x.z == y.z
        if isinstance(a, ClassVal) and isinstance(b, ClassVal):
            return z3.BoolVal(a.cls == b.cls)
        if isinstance(a, PyTuple) and isinstance(b, PyTuple):
            if len(a.items) != len(b.items):
                return z3.BoolVal(False)
            return z3.And(*[self.equals(x, y, st, node) for x, y in zip(a.items, b.items)]) if a.items else z3.BoolVal(True)
        h = self.hooks.get("equals")
        if h is not None:
            r = h(self, a, b, st, node)
            if r is not None:
                return r
        raise OutsideSubset(f"== between {a!r} and {b!r}", node)

    def identity_eq(self, v: SV) -> bool:
        """Does ``==`` on this static class mean identity?  (engines; classes without dataclass eq)"""
        ci = v.td.cls if isinstance(v.td, TRefT) else None
        if ci is None:
            return False
        for c in ci.mro:
            if "__eq__" in c.methods:
                src = ast.unparse(c.methods["__eq__"].node)
                return "self is other" in src
            if c.is_dataclass and c.dc_eq:
                return False
        # abstract static type: look at the concrete subclasses
        subs = self.types.concrete_subclasses(ci)
        if subs and all(self.identity_eq(SV(TRefT(c), v.z)) for c in subs if c != ci):
            return True
        return not any(c.is_dataclass and c.dc_eq for s in subs for c in s.mro) if subs else True

    def ev_Compare(self, node: ast.Compare, st: State) -> list[Res]:
        if len(node.ops) != 1:
            raise OutsideSubset("chained comparison", node)
        op = node.ops[0]

        def f(vs, s):
            a, b = vs
            return self.compare(op, a, b, s, node)

        return self.bind(self.ev_list([node.left, node.comparators[0]], st), f)

    def compare(self, op: ast.cmpop, a: Any, b: Any, s: State, node: ast.AST) -> list[Res]:
        hc = self.hooks.get("compare")
        if hc is not None:
            r = hc(self, op, a, b, s, node)
            if r is not None:
                return r
        if isinstance(op, (ast.Is, ast.IsNot)):
            z = self.identical(a, b, s, node)
            return self.ok(SV(TBool, z if isinstance(op, ast.Is) else z3.Not(z)), s)
        if isinstance(op, (ast.Eq, ast.NotEq)):
            z = self.equals(a, b, s, node)
            return self.ok(SV(TBool, z if isinstance(op, ast.Eq) else z3.Not(z)), s)
        if isinstance(op, (ast.In, ast.NotIn)):
            z = self.contains(b, a, s, node)
            return self.ok(SV(TBool, z if isinstance(op, ast.In) else z3.Not(z)), s)
        if isinstance(a, SV) and isinstance(b, SV):
            if {a.td, b.td} == {TTagSet, TOptTagSet}:
                o = a if a.td == TOptTagSet else b
                isn = smt.OptTagSet.is_ots_none(o.z)
                out: list[Res] = []
                if self.feasible(s, isn):
                    out.extend(self.raise_("TypeError", s.fork().assume(isn), node, "None compared with a set"))
                if self.feasible(s, z3.Not(isn)):
                    s2 = s.assume(z3.Not(isn))
                    ov = SV(TTagSet, smt.OptTagSet.ots_val(o.z))
                    out.extend(self.compare(op, ov if a is o else a, ov if b is o else b, s2, node))
                return out
            if a.td == TTagSet and b.td == TTagSet:
                sub = {ast.LtE: lambda: z3.IsSubset(a.z, b.z), ast.GtE: lambda: z3.IsSubset(b.z, a.z),
                       ast.Lt: lambda: z3.And(z3.IsSubset(a.z, b.z), a.z != b.z),
                       ast.Gt: lambda: z3.And(z3.IsSubset(b.z, a.z), a.z != b.z)}
                return self.ok(SV(TBool, sub[type(op)]()), s)

            def g(x, s1):
                def h(y, s2):
                    fn = {ast.Lt: lambda: x.z < y.z, ast.LtE: lambda: x.z <= y.z, ast.Gt: lambda: x.z > y.z, ast.GtE: lambda: x.z >= y.z}
                    return self.ok(SV(TBool, fn[type(op)]()), s2)

                return self.bind(self.need_int(b, s1, node), h)

            return self.bind(self.need_int(a, s, node), g)
        raise OutsideSubset(f"comparison {type(op).__name__} on {a!r}, {b!r}", node)

    def identical(self, a: Any, b: Any, st: State, node: ast.AST) -> z3.BoolRef:
        if isinstance(a, SV) and isinstance(b, SV):
            if isinstance(a.td, TRefT) and isinstance(b.td, TRefT):
                return a.z == b.z
            if b.z.sort() == smt.Ref and b.z.eq(smt.NONE):
                return smt.is_none_z(a)
            if a.z.sort() == smt.Ref and a.z.eq(smt.NONE):
                return smt.is_none_z(b)
            if a.td == TTri or b.td == TTri or a.td == TBool and b.td == TBool:
                x, y = smt.coerce_pair(a, b)
                return x.z == y.z
            if a.td == TFlat and b.td == TBool:
                return z3.And(Flat.is_flat_false(a.z), z3.Not(b.z))
            if a.td.sort == b.td.sort and a.td in (TInt,):
                return a.z == b.z
            if isinstance(a.td, TSeqT) and b.td == TBool:
                return z3.BoolVal(False)
            if a.td == TOptStr and b.z.sort() == smt.Ref:
                return OptStr.is_os_none(a.z)
        if isinstance(a, (PyList, PyTuple, PyDict)) and isinstance(b, SV):
            return z3.BoolVal(False)
        if isinstance(a, ClassVal) and isinstance(b, ClassVal):
            return z3.BoolVal(a.cls == b.cls)
        h = self.hooks.get("identical")
        if h is not None:
            r = h(self, a, b, st, node)
            if r is not None:
                return r
        raise OutsideSubset(f"'is' between {a!r} and {b!r}", node)

    def contains(self, container: Any, item: Any, st: State, node: ast.AST) -> z3.BoolRef:
        if isinstance(container, SV) and container.td == TTagSet and isinstance(item, SV) and item.td == TTag:
            return z3.IsMember(item.z, container.z)
        if isinstance(container, (PyTuple, PyList)):
            if not container.items:
                return z3.BoolVal(False)
            return z3.Or(*[self.equals(item, x, st, node) for x in container.items])
        if isinstance(container, SV) and isinstance(container.td, TSeqT) and isinstance(item, SV):
            h = self.hooks.get("seq_contains")
            if h is not None:
                return h(self, container, item, st)
            info = container.td.info
            i = z3.Int(smt.fresh_name("k"))
            eqf = (lambda x: smt.deq(x, item.z)) if isinstance(container.td.elem, TRefT) else (lambda x: x == item.z)
            return z3.Exists([i], z3.And(0 <= i, i < info.len(container.z), eqf(info.at(container.z, i))))
        if isinstance(container, PyDict) and isinstance(item, SV) and item.td == TStr \
                and all(isinstance(k, str) or (isinstance(k, SV) and k.td == TStr) for k in container.keys):
            # membership of a string among the (string) keys of a dict display
            return z3.Or(*[self.equals(item, smt.lift(k) if isinstance(k, str) else k, st, node) for k in container.keys]) if container.keys else z3.BoolVal(False)
        if isinstance(container, ClassVal) or isinstance(container, PyDict):
            raise OutsideSubset("'in' on dict/class", node)
        h = self.hooks.get("contains")
        if h is not None:
            r = h(self, container, item, st, node)
            if r is not None:
                return r
        raise OutsideSubset(f"'in' on {container!r}", node)

    def ev_Subscript(self, node: ast.Subscript, st: State) -> list[Res]:
        def f(v, s):
            if isinstance(node.slice, ast.Slice):
                return self.do_slice(v, node.slice, s, node)
            return self.bind(self.ev(node.slice, s), lambda i, s2: self.index(v, i, s2, node))

        return self.bind(self.ev(node.value, st), f)

    def index(self, v: Any, i: Any, s: State, node: ast.AST) -> list[Res]:
        if isinstance(v, (PyTuple, PyList)) and isinstance(i, SV) and z3.is_int_value(i.z):
            k = i.z.as_long()
            if -len(v.items) <= k < len(v.items):
                return self.ok(v.items[k], s)
            return self.raise_("IndexError", s, node)
        if isinstance(v, SV) and isinstance(v.td, TSeqT) and isinstance(i, SV) and i.td == TInt:
            info = v.td.info
            inb = z3.And(0 <= i.z, i.z < info.len(v.z))
            out: list[Res] = []
            if self.feasible(s, z3.Not(inb)) and not z3.is_int_value(i.z):
                out.extend(self.raise_("IndexError", s.fork().assume(z3.Not(inb)), node))
            elif z3.is_int_value(i.z) and self.feasible(s, z3.Not(inb)):
                out.extend(self.raise_("IndexError", s.fork().assume(z3.Not(inb)), node))
            s2 = s.assume(inb)
            out.extend(self.ok(self.seq_elem(v, i.z, s2), s2))
            return out
        if isinstance(v, ClassVal):  # Payload[_L](...) style generic subscripts
            return self.ok(v, s)
        if isinstance(v, PyDict) and isinstance(i, SV) and i.td == TStr and v.keys \
                and all(isinstance(k, str) or (isinstance(k, SV) and z3.is_string_value(k.z)) for k in v.keys):
            # d[key] with a symbolic string key over constant string keys: one path per entry, KeyError otherwise
            out2: list[Res] = []
            rest = s
            for k, val in zip(v.keys, v.values):
                eq = self.equals(i, smt.lift(k) if isinstance(k, str) else k, rest, node)
                if self.feasible(rest, eq):
                    out2.append(Res("ok", val, rest.fork().assume(eq)))
                rest = rest.fork().assume(z3.Not(eq))
            if self.feasible(rest, z3.BoolVal(True)):
                out2.extend(self.raise_("KeyError", rest, node))
            return out2
        h = self.hooks.get("index")
        if h is not None:
            r = h(self, v, i, s, node)
            if r is not None:
                return r
        raise OutsideSubset(f"subscript of {v!r}", node)

    def do_slice(self, v: Any, sl: ast.Slice, s: State, node: ast.AST) -> list[Res]:
        if isinstance(v, (PyList, PyTuple)):
            def g(parts, s2):
                lo, hi, step = [None if (isinstance(p, SV) and p.z.eq(smt.NONE)) else p for p in parts]
                def c(p):
                    if p is None:
                        return None
                    if isinstance(p, SV) and z3.is_int_value(p.z):
                        return p.z.as_long()
                    raise OutsideSubset("symbolic slice of concrete list", node)
                items = v.items[c(lo) : c(hi) : c(step)]
                return self.ok(type(v)(items) if isinstance(v, PyTuple) else PyList(items, True), s2)
            nodes = [x if x is not None else ast.Constant(None) for x in (sl.lower, sl.upper, sl.step)]
            return self.bind(self.ev_list(nodes, s), g)
        h = self.hooks.get("slice")
        if h is not None:
            r = h(self, v, sl, s, node)
            if r is not None:
                return r
        if isinstance(v, SV) and isinstance(v.td, TSeqT) and sl.upper is None and sl.step is None and isinstance(sl.lower, ast.Constant) \
                and isinstance(sl.lower.value, int) and sl.lower.value >= 0:
            k = sl.lower.value
            info = v.td.info
            z = smt.fresh_const("tail", v.td.sort)
            i = z3.Int(smt.fresh_name("ti"))
            s.assume(info.len(z) == smt.zmax(info.len(v.z) - k, 0))
            s.assume(z3.ForAll([i], z3.Implies(z3.And(0 <= i, i < info.len(z)), info.at(z, i) == info.at(v.z, i + k)), patterns=[info.at(z, i)]))
            return self.ok(SV(v.td, z, True), s)
        raise OutsideSubset(f"slice of {v!r}", node)

    def ev_Starred(self, node: ast.Starred, st: State) -> list[Res]:
        raise OutsideSubset("starred expression outside call/display", node)

    def ev_GeneratorExp(self, node: ast.GeneratorExp, st: State) -> list[Res]:
        return self.ok(Closure(node, dict(st.env), self.frame.module, self.frame.cls), st)  # type: ignore[arg-type]

    def ev_ListComp(self, node: ast.ListComp, st: State) -> list[Res]:
        return self.comprehension(node, st, "list")

    def ev_SetComp(self, node: ast.SetComp, st: State) -> list[Res]:
        return self.comprehension(node, st, "set")

    def ev_DictComp(self, node: ast.DictComp, st: State) -> list[Res]:
        h = self.hooks.get("dictcomp")
        if h is not None:
            r = h(self, node, st)
            if r is not None:
                return r
        raise OutsideSubset("dict comprehension", node)

    def comprehension(self, node: Any, st: State, kind: str) -> list[Res]:
        if len(node.generators) != 1:
            raise OutsideSubset("nested comprehension", node)
        gen = node.generators[0]

        def f(it, s):
            if isinstance(it, (PyTuple, PyList)):
                # unroll
                results = [Res("ok", [], s)]
                for item in it.items:
                    def step(acc, s1, item=item):
                        s1 = s1.fork()
                        s1.env = dict(s1.env)
                        self.assign_target(gen.target, item, s1, node)
                        conds = [Res("ok", True, s1)]
                        keep = z3.BoolVal(True)
                        for cnd in gen.ifs:
                            raise OutsideSubset("filtered comprehension over a concrete list", node)
                        return self.bind(self.ev(node.elt, s1), lambda v, s2: self.ok(acc + [v], s2.with_env(s.env)))
                    results = self.bind(results, step)
                if kind == "list":
                    return self.bind(results, lambda vs, s2: self.ok(PyList(vs, True), s2))
                def mkset(vs, s2):
                    if all(isinstance(v, SV) and v.td == TTag for v in vs):
                        z = smt.EMPTY_TAGS
                        for v in vs:
                            z = z3.SetAdd(z, v.z)
                        return self.ok(SV(TTagSet, z, True, kind="mutable"), s2)
                    raise OutsideSubset("set comprehension of non-tags", node)
                return self.bind(results, mkset)
            if isinstance(it, SV) and it.td == TTagSet and kind == "set" and isinstance(gen.target, ast.Name):
                # {f(t) for t in S if c(t)} with f = identity: a filtered copy
                if not (isinstance(node.elt, ast.Name) and node.elt.id == gen.target.id):
                    raise OutsideSubset("set comprehension with a non-identity element", node)
                t = z3.Const(smt.fresh_name("t"), smt.Tag)
                s1 = s.fork()
                s1.env = dict(s1.env)
                s1.env[gen.target.id] = SV(TTag, t)
                cond = z3.IsMember(t, it.z)
                for cnd in gen.ifs:
                    rs = self.ev(cnd, s1)
                    if len(rs) != 1 or rs[0].kind != "ok":
                        raise OutsideSubset("impure comprehension condition", node)
                    cond = z3.And(cond, self.truth(rs[0].value, rs[0].state, node))
                return self.ok(SV(TTagSet, z3.Lambda([t], cond), True, kind="mutable"), s)
            if isinstance(it, SV) and isinstance(it.td, TSeqT):
                h = self.hooks.get("seq_comprehension")
                if h is not None:
                    r = h(self, node, gen, it, s, kind)
                    if r is not None:
                        return r
                return self.seq_map(node, gen, it, s, kind)
            h = self.hooks.get("comprehension_over")
            if h is not None:
                r = h(self, node, gen, it, s, kind)
                if r is not None:
                    return r
            raise OutsideSubset(f"comprehension over {it!r}", node)

        return self.bind(self.ev(gen.iter, st), f)

    def seq_map(self, node: Any, gen: ast.comprehension, it: SV, s: State, kind: str) -> list[Res]:
        """[f(x) for x in seq] over a symbolic-length sequence: pointwise-defined fresh sequence."""
        if gen.ifs or kind != "list" or not isinstance(gen.target, ast.Name):
            raise OutsideSubset("comprehension over symbolic sequence with filter/non-list", node)
        info = it.td.info
        i = z3.Int(smt.fresh_name("ci"))
        s1 = s.fork()
        s1.env = dict(s1.env)
        s1.assume(0 <= i, i < info.len(it.z))
        s1.env[gen.target.id] = self.seq_elem(it, i, s1)
        snapshot = smt._counter[0]
        n_obl = len(self.obligations)
        rs = self.ev(node.elt, s1)
        if len(rs) != 1 or rs[0].kind != "ok" or not isinstance(rs[0].value, SV):
            raise OutsideSubset("comprehension element is not a single pure value", node)
        v = rs[0].value
        td = TSeqT(v.td)
        z = smt.fresh_const("map", td.sort)
        s.assume(td.info.len(z) == info.len(it.z))
        extra = rs[0].state.pc[len(s1.pc):]
        # values created while evaluating the element for the arbitrary index i depend on i: skolem functions of i
        vz, extra = _lift_fresh([v.z] + list(extra), i, snapshot)[0], _lift_fresh([v.z] + list(extra), i, snapshot)[1:]
        body = z3.Implies(z3.And(0 <= i, i < info.len(it.z)), z3.And(td.info.at(z, i) == vz, *extra))
        s.assume(z3.ForAll([i], body, patterns=[td.info.at(z, i), info.at(it.z, i)]))
        return self.ok(SV(td, z, True), s)

    # ------------------------------------------------------------ assignment
    def assign_target(self, target: ast.expr, value: Any, st: State, node: ast.AST) -> list[Res] | None:
        if isinstance(target, ast.Name):
            st.env = dict(st.env)
            td = st.ghost.get("decl", {}).get((st.depth, target.id))
            if td is not None and not (isinstance(value, SV) and value.td.sort == td.sort):
                try:
                    value = self.to_sv(value, td, st, node)
                except (TypeError, OutsideSubset):
                    pass
            st.env[target.id] = value
            return None
        if isinstance(target, (ast.Tuple, ast.List)):
            star = [i for i, e in enumerate(target.elts) if isinstance(e, ast.Starred)]
            if isinstance(value, (PyTuple, PyList)):
                items = value.items
                if star:
                    k = star[0]
                    n_after = len(target.elts) - k - 1
                    if len(items) < len(target.elts) - 1:
                        return self.raise_("ValueError", st, node, "not enough values to unpack")
                    self.assign_target(target.elts[k].value, PyList(items[k : len(items) - n_after], True), st, node)  # type: ignore
                    for e, v in zip(target.elts[:k], items[:k]):
                        self.assign_target(e, v, st, node)
                    for e, v in zip(target.elts[k + 1 :], items[len(items) - n_after :]):
                        self.assign_target(e, v, st, node)
                    return None
                if len(items) != len(target.elts):
                    return self.raise_("ValueError", st, node, "unpack length mismatch")
                for e, v in zip(target.elts, items):
                    self.assign_target(e, v, st, node)
                return None
            h = self.hooks.get("unpack")
            if h is not None:
                r = h(self, target, value, st, node)
                if r is not None:
                    return None if r is True else r
            if isinstance(value, SV) and isinstance(value.td, TSeqT) and len(star) <= 1 and all(isinstance(e, (ast.Name, ast.Starred)) for e in target.elts):
                # a, *rest, z = <sequence of symbolic length>: ValueError unless it is long enough
                info = value.td.info
                n_fixed = len(target.elts) - len(star)
                short = (info.len(value.z) < n_fixed) if star else (info.len(value.z) != n_fixed)
                if self.feasible(st, short):
                    s2 = st.fork().assume(short)
                    s2.path.append(f"L{getattr(node, 'lineno', 0)}:unpack-length-mismatch")
                    bad = self.raise_("ValueError", s2, node, "wrong number of values to unpack")
                    if not self.feasible(st, z3.Not(short)):
                        return bad
                else:
                    bad = []
                st.assume(z3.Not(short))
                k = star[0] if star else len(target.elts)
                n_after = len(target.elts) - k - 1 if star else 0
                st.env = dict(st.env)
                for idx, e in enumerate(target.elts[:k]):
                    st.env[e.id] = self.seq_elem(value, z3.IntVal(idx), st)
                for j, e in enumerate(target.elts[k + 1:] if star else []):
                    st.env[e.id] = self.seq_elem(value, info.len(value.z) - n_after + j, st)
                if star:
                    mid = smt.fresh_const("mid", value.td.sort)
                    i = z3.Int(smt.fresh_name("mi"))
                    st.assume(info.len(mid) == info.len(value.z) - n_fixed)
                    st.assume(z3.ForAll([i], z3.Implies(z3.And(0 <= i, i < info.len(mid)), info.at(mid, i) == info.at(value.z, i + k)), patterns=[info.at(mid, i)]))
                    st.env[target.elts[k].value.id] = SV(value.td, mid, True)
                if bad:
                    # the failing alternative is reported through a ghost list the statement handlers pick up
                    pend = list(st.ghost.get("pending_raises", []))
                    st.ghost["pending_raises"] = pend + bad
                return None
            raise OutsideSubset(f"unpacking {value!r}", node)
        if isinstance(target, ast.Attribute):
            rs = self.ev(target.value, st)
            if len(rs) != 1 or rs[0].kind != "ok":
                raise OutsideSubset("attribute assignment with forking receiver", node)
            self.store_attr(rs[0].value, target.attr, value, st, node)
            return None
        if isinstance(target, ast.Subscript):
            h = self.hooks.get("store_subscript")
            if h is not None:
                r = h(self, target, value, st, node)
                if r is not None:
                    return None
            rs = self.ev(target.value, st)
            if len(rs) == 1 and rs[0].kind == "ok" and isinstance(rs[0].value, PyDict) and rs[0].value.fresh and isinstance(target.value, ast.Name):
                ks = self.ev(target.slice, rs[0].state)
                if len(ks) == 1 and ks[0].kind == "ok":
                    # a dict built in this function: functional update of the local name (aliases of local dicts are outside the subset)
                    d = rs[0].value
                    st.env[target.value.id] = PyDict(list(d.keys) + [ks[0].value], list(d.values) + [value], True)
                    return None
            if len(rs) == 1 and rs[0].kind == "ok" and isinstance(rs[0].value, SV) and isinstance(rs[0].value.td, TRefT) and rs[0].value.td.cls is None \
                    and isinstance(target.value, ast.Name) and not getattr(rs[0].value, "fresh", False):
                ks = self.ev(target.slice, rs[0].state)
                if len(ks) == 1 and ks[0].kind == "ok":
                    # a mapping handed in by the caller: reads of it are arbitrary (call_builtin 'any.get'), so the store itself needs
                    # no model -- but it is a write outside this call's own objects, and whatever is stored is shared from now on
                    fr = self.hooks.get("frame_mutation")
                    if fr is not None:
                        fr(self, rs[0].value, "[...] = ", st, node)
                    if isinstance(value, SV) and isinstance(value.td, TRefT):
                        st.ghost["escaped"] = frozenset(st.ghost.get("escaped", frozenset())) | {value.z.get_id()}
                    elif not isinstance(value, SV) or isinstance(value.td, TSeqT):
                        raise OutsideSubset("storing a container into a caller's mapping", node)
                    return None
            raise OutsideSubset("subscript assignment", node)
        raise OutsideSubset(f"assignment target {type(target).__name__}", node)

    def store_attr(self, obj: Any, attr: str, value: Any, st: State, node: ast.AST, via_setattr: bool = False) -> None:
        if isinstance(obj, UnderConstruction):
            obj.set_pending(st, attr, value)
            return
        if not (isinstance(obj, SV) and isinstance(obj.td, TRefT) and obj.td.cls is not None):
            raise OutsideSubset(f"attribute store on {obj!r}", node)
        ci = self.static_or_known(obj, st)
        decl = None
        for c in [ci] + self.types.concrete_subclasses(ci):
            decl = self.types.attr_decl(c, attr)
            if decl is not None:
                break
        if decl is None or decl[0] != "field":
            td = value.td if isinstance(value, SV) else TAny
            owner = ci
        else:
            owner = decl[1]
            td = self.field_td(owner, decl[2])
        if not isinstance(value, SV):
            value = self.to_sv(value, td, st, node)
        v = smt.coerce_to(value, td)
        key = self.heap_key(owner, attr)
        arr = self.heap_array(st, key, td.sort)
        # frame obligation (C09): writes go to objects allocated by this call or to declared cells
        fr = self.hooks.get("frame_write")
        if fr is not None:
            fr(self, obj, owner, attr, st, node, via_setattr)
        st.heap = dict(st.heap)
        st.heap[key] = z3.Store(arr, obj.z, v.z)
        st.heap_version += 1
        own = st.owned.get(obj.z.get_id())
        if own is not None:
            own[attr] = bool(getattr(value, "fresh", False))

    def to_sv(self, value: Any, td: smt.TD, st: State, node: ast.AST | None = None) -> SV:
        """Convert a python-level value into a symbolic value of the given descriptor."""
        if td == TFlat:
            if isinstance(value, SV) and value.td == TFlat:
                return value
            if isinstance(value, SV) and value.td == TBool:
                return SV(TFlat, Flat.flat_false)  # the only boolean flatten_logical_and returns is False
            seq_td = TSeqT(TRefT(None))
            sq = value if isinstance(value, SV) else self.to_sv(value, seq_td, st, node)
            return SV(TFlat, Flat.flat_list(sq.z), getattr(sq, "fresh", False))
        if isinstance(value, SV):
            return smt.coerce_to(value, td)
        if isinstance(value, (PyTuple, PyList)) and isinstance(td, TSeqT):
            items = [self.to_sv(x, td.elem, st, node) for x in value.items]
            return self.seq_from_items(items, td, st)
        if isinstance(value, (PyTuple, PyList)) and isinstance(td, TRefT):
            # an untyped (Any) slot holding a tuple/list: opaque fresh object
            z = smt.fresh_const("obj", smt.Ref)
            st.assume(z != smt.NONE)
            return SV(td, z, fresh=True)
        if isinstance(value, (Opaque, Closure, FuncVal, Builtin, ClassVal, PyDict, ModuleVal)):
            z = smt.fresh_const("opq", td.sort)
            if td.sort == smt.Ref:
                st.assume(z != smt.NONE)
            sv = SV(td, z, fresh=isinstance(value, PyDict) and value.fresh)
            if isinstance(value, (Closure, FuncVal, PyDict)):
                reg = dict(st.ghost.get("pyobjs", {}))
                reg[z.get_id()] = value
                st.ghost["pyobjs"] = reg
            return sv
        raise OutsideSubset(f"cannot store {value!r} as {td}", node)


_lift_cache: dict = {}


def _lift_fresh(exprs: list, i: z3.ExprRef, snapshot: int) -> list:
    """Everything created after ``snapshot`` (names ``prefix!k`` with k > snapshot) while evaluating the element for the
    arbitrary index i depends on i: constants become functions of i, and Skolem functions that an inner comprehension
    introduced for its own index get i as an additional argument."""
    decls: dict[str, z3.FuncDeclRef] = {}
    seen = set()
    stack = list(exprs)
    while stack:
        t = stack.pop()
        if t.get_id() in seen:
            continue
        seen.add(t.get_id())
        if z3.is_quantifier(t):
            stack.append(t.body())
            for pi in range(t.num_patterns()):
                stack.extend(t.pattern(pi).children())
            continue
        if z3.is_app(t) and t.decl().kind() == z3.Z3_OP_UNINTERPRETED and not t.eq(i):
            n = t.decl().name()
            if "!" in n:
                try:
                    k = int(n.rsplit("!", 1)[1])
                except ValueError:
                    k = -1
                if k > snapshot:
                    decls[n] = t.decl()
        stack.extend(t.children())
    if not decls:
        return list(exprs)
    consts, funs = [], []
    for n, d in decls.items():
        dom = [d.domain(a) for a in range(d.arity())]
        if d.arity() == 0:
            consts.append((d(), z3.Function(f"sk_{n}", smt.IntS, d.range())(i)))
        else:
            nf = z3.Function(f"sk_{n}", smt.IntS, *dom, d.range())
            funs.append((d, nf(i, *[z3.Var(a, dom[a]) for a in range(d.arity())])))
    out = []
    for e in exprs:
        if funs:
            e = z3.substitute_funs(e, *funs)
        if consts:
            e = z3.substitute(e, *consts)
        out.append(e)
    return out


def _raise(e: Exception):
    raise e


def _has_quantifier(f: z3.ExprRef) -> bool:
    seen = set()
    stack = [f]
    while stack:
        t = stack.pop()
        if t.get_id() in seen:
            continue
        seen.add(t.get_id())
        if z3.is_quantifier(t):
            return True
        stack.extend(t.children())
    return False
