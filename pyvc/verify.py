"""Driver: verify real functions against their sidecar contracts and discharge the obligations."""
from __future__ import annotations

import ast
import dataclasses
import os
import time
import traceback
from typing import Any, Callable

import z3

from . import smt
from .contracts import Contract, Ctx, Registry
from .execs import Exec
from .frontend import ClassInfo, FuncInfo, Repo
from .smt import SV, TRefT, TSeqT
from .state import Obligation, Res, State
from .symex import Frame, exc_matches
from .types import NeedsContract, OutsideSubset

PROVED, REFUTED, UNKNOWN, ERROR = "proved", "refuted", "unknown", "error"


_INNER: Any = None


def _inner_discharge(i: int) -> OblResult:
    v, ex, obls, key, env = _INNER
    return v.discharge(ex, obls[i], key, env)


def _has_q(f: z3.ExprRef) -> bool:
    from .symex import _has_quantifier

    return _has_quantifier(f)


def _conjuncts(goal: z3.ExprRef, hyp: tuple = ()) -> list[tuple[tuple, z3.ExprRef]]:
    """Split  h1 => (h2 => (a & b))  into [((h1,h2), a), ((h1,h2), b)]."""
    if z3.is_implies(goal):
        return _conjuncts(goal.arg(1), hyp + (goal.arg(0),))
    if z3.is_and(goal):
        out = []
        for c in goal.children():
            out.extend(_conjuncts(c, hyp))
        return out
    return [(hyp, goal)]


def _chain(fns: list[Callable]) -> Callable:
    def dispatch(*a: Any, **kw: Any) -> Any:
        for f in fns:
            r = f(*a, **kw)
            if r is not None:
                return r
        return None

    return dispatch


class NoReceiver(Exception):
    pass


@dataclasses.dataclass
class OblResult:
    label: str  # func/clause
    func: str
    clause: str
    path: str
    kind: str
    status: str
    solver: str = "z3"
    seconds: float = 0.0
    model: dict | None = None
    reason: str = ""
    lineno: int | None = None
    info: dict = dataclasses.field(default_factory=dict)

    def to_json(self) -> dict:
        return dataclasses.asdict(self)


class Verifier:
    def __init__(self, repo: Repo, registry: Registry, spec_factory: Callable[[Exec], Any], timeout_ms: int = 10000):
        self.repo = repo
        self.reg = registry
        self.spec_factory = spec_factory
        self.timeout_ms = int(os.environ.get("PYVC_TIMEOUT_MS", timeout_ms))
        self.model_extractors: dict[str, Callable] = {}

    def new_exec(self) -> Exec:
        ex = Exec(self.repo, self.reg)
        for name, fns in self.reg.exec_hooks.items():
            ex.hooks[name] = _chain(fns)
        ex.spec = self.spec_factory(ex)
        return ex

    # ------------------------------------------------------------------
    def receiver_classes(self, fi: FuncInfo, ex: Exec, k: Contract) -> list[ClassInfo]:
        """Concrete classes whose method resolution for fi.name yields exactly this implementation."""
        assert fi.cls is not None
        out = [c for c in ex.types.concrete_subclasses(fi.cls) if c.lookup(fi.name) is fi]
        if k.self_classes is not None:
            out = [c for c in out if c.name in k.self_classes]
        return out

    def fresh_args(self, fi: FuncInfo, ex: Exec, st: State, k: Contract) -> dict[str, Any]:
        a = fi.node.args
        env: dict[str, Any] = {}
        params = a.posonlyargs + a.args + a.kwonlyargs
        for idx, p in enumerate(params):
            if idx == 0 and fi.cls is not None and fi.name == "__post_init__":
                # ``self`` is an object under construction: fields are the (arbitrary) constructor arguments
                from .state import UnderConstruction

                classes = self.receiver_classes(fi, ex, k)
                if len(classes) != 1:
                    raise OutsideSubset(f"__post_init__ of {fi.cls.name} shared by several classes")
                ci = classes[0]
                ref = SV(TRefT(ci), smt.fresh_const("self", smt.Ref), fresh=True)
                st.assume(ref.z != smt.NONE, smt.typ(ref.z) == ex.types.cid(ci), smt.born(ref.z) == ex.born_clock)
                ex.born_clock += 1
                ex.set_known_class(ref, ci, st)
                uc = UnderConstruction(ref, ci)
                for f in ci.all_fields():
                    if f.initvar:
                        continue
                    td = ex.field_td(ex.repo.cls(f.owner), f)
                    v = td.fresh("init_" + f.name)
                    v.kind = ex.annotation_kind(("field", None, f))
                    st.assume(*ex.type_facts(v.z, td, st))
                    if isinstance(td, TRefT):
                        st.assume(smt.born(v.z) <= 0)
                    uc.set_pending(st, f.name, v)
                env[p.arg] = uc
                continue
            if idx == 0 and fi.cls is not None and fi.name == "__init__" and not fi.cls.is_dataclass and p.arg == "self":
                # a hand-written constructor: ``self`` is an object under construction without any attribute yet
                from .state import UnderConstruction

                ci = fi.cls
                ref = SV(TRefT(ci), smt.fresh_const("self", smt.Ref), fresh=True)
                st.assume(ref.z != smt.NONE, smt.typ(ref.z) == ex.types.cid(ci), smt.born(ref.z) == ex.born_clock)
                ex.born_clock += 1
                ex.set_known_class(ref, ci, st)
                env[p.arg] = UnderConstruction(ref, ci)
                continue
            if idx == 0 and fi.cls is not None and fi.kind in ("method", "property") and p.arg == "self":
                classes = self.receiver_classes(fi, ex, k)
                if not classes and fi.cls.name in ("Processor",):
                    # abstract base meant to be subclassed by users: verified for an arbitrary subclass that keeps this
                    # method; the abstract hooks are called through their (assumed) contracts
                    v = SV(TRefT(fi.cls), smt.fresh_const("self", smt.Ref))
                    st.assume(v.z != smt.NONE, smt.born(v.z) <= 0)
                    ex.set_known_class(v, fi.cls, st)
                    env[p.arg] = v
                    continue
                if not classes:
                    raise NoReceiver(f"no provided concrete class uses {fi.qualname} (reachable only through user-defined subclasses)")
                v = SV(TRefT(fi.cls), smt.fresh_const("self", smt.Ref))
                st.assume(v.z != smt.NONE, z3.Or(*[smt.typ(v.z) == ex.types.cid(c) for c in classes]), smt.born(v.z) <= 0)
                st.assume(*[f for f in ex.type_facts(v.z, TRefT(fi.cls), st) if True])
                if len(classes) == 1:
                    v = SV(TRefT(classes[0]), v.z)
                    ex.set_known_class(v, classes[0], st)
                env[p.arg] = v
                continue
            if idx == 0 and fi.kind == "classmethod":
                from .state import ClassVal

                env[p.arg] = ClassVal(fi.cls)  # type: ignore[arg-type]
                continue
            td = ex.types.td_of_annotation(p.annotation, fi.module)
            if fi.kind == "method" and idx == 0 and fi.cls is not None and p.annotation is not None and ast.unparse(p.annotation) == "Relation":
                # "self: Relation" on BaseRelation mixin methods
                td = TRefT(fi.cls)
            v = td.fresh(p.arg)
            if p.annotation is not None and ast.unparse(p.annotation).replace(" ", "").startswith("frozenset["):
                v.kind = "frozen"
            st.assume(*ex.type_facts(v.z, td, st))
            if isinstance(td, TRefT):
                st.assume(smt.born(v.z) <= 0)
            if isinstance(td, TSeqT):
                st.assume(td.info.len(v.z) >= 0)
            env[p.arg] = v
        if a.vararg is not None:
            ann = a.vararg.annotation
            td = TSeqT(ex.types.td_of_annotation(ann, fi.module))
            v = td.fresh(a.vararg.arg)
            st.assume(td.info.len(v.z) >= 0)
            env[a.vararg.arg] = v
        return env

    def verify_function(self, key: str, extra_requires: list | None = None, only_labels: set | None = None) -> tuple[list[OblResult], dict]:
        """Verify the function named by a contract key.  Returns obligation results and stats."""
        t0 = time.time()
        meta: dict[str, Any] = {"function": key, "paths": 0, "error": None}
        try:
            fi = self.repo.func(key)
        except KeyError:
            meta["error"] = f"function {key} not found in the current tree"
            return [OblResult(f"{key}/exists", key, "exists", "", "structure", REFUTED, reason=meta["error"])], meta
        k = self.new_exec().find_contract(fi, None)
        if k is None:
            meta["error"] = f"no contract for {key}"
            return [OblResult(f"{key}/contract", key, "contract", "", "subset", ERROR, reason=meta["error"])], meta
        meta["contract"] = k.key
        meta["source_hash"] = fi.source_hash()
        meta["lineno"] = fi.node.lineno
        try:
            ex = self.new_exec()
            ex.verifying = fi.qualname
            st = State()
            env = self.fresh_args(fi, ex, st, k)
            st.env = dict(env)
            ctx = Ctx(ex, env, "prove", st, st)
            if k.setup is not None:
                k.setup(ctx)
            for cl in k.requires:
                st.assume(smt.lift(cl.fn(ctx)).z)
            for fn in extra_requires or []:
                st.assume(smt.lift(fn(ctx)).z)
            pre_pc = list(st.pc)
            frame = Frame(fi, fi.module, fi.cls, k)
            frame.ctx = ctx
            ex.frames.append(frame)
            old = st.fork()
            ctx.old = old
            outcomes = ex.exec_block(fi.node.body, st.fork())
            fo = ex.hooks.get("finish_outcomes")
            if fo is not None:
                # e.g. a function returning a generator: the outcome of interest is what iterating it to the end yields
                outcomes = fo(ex, fi, k, outcomes) or outcomes
            ex.frames.pop()
            meta["paths"] = len(outcomes)
            obls: list[Obligation] = list(ex.obligations)
            if k.split is not None and getattr(k, "split_all", False):
                sctx = Ctx(ex, env, "prove", old, old)
                allcells = [(n, smt.lift(cnd).z) for n, cnd in k.split(sctx)]
                split_obls: list[Obligation] = []
                for o in obls:
                    for n, cnd in allcells:
                        fs = z3.Solver()
                        fs.set("timeout", 300)
                        fs.add(*[f for f in o.pc if not _has_q(f)], cnd)
                        if fs.check() == z3.unsat:
                            continue
                        split_obls.append(Obligation(f"{o.label}[{n}]", o.pc + [cnd], o.goal, o.node, o.func, o.path, o.kind, dict(o.info, cell=n)))
                obls = split_obls
            for r in outcomes:
                obls.extend(self.outcome_obligations(ex, k, fi, env, old, r))
            if only_labels is not None:
                obls = [o for o in obls if f"{key}/{o.label}" in only_labels]
            oo = (getattr(self, "only_obligations", None) or {}).get(key)
            if oo:
                obls = [o for o in obls if any(sub in o.label for sub in oo)]
            if getattr(self, "only_kinds", None):
                obls = [o for o in obls if o.kind in self.only_kinds]
            results = self.discharge_all(ex, obls, key, env) if not getattr(self, "dry_run", False) else []
            # vacuity: the precondition must be satisfiable
            vs = z3.Solver()
            vs.set("timeout", 5000)
            for f in pre_pc:
                vs.add(f)
            pre_sat = vs.check()
            meta["pre_sat"] = str(pre_sat)
            if pre_sat == z3.unsat:
                results.append(OblResult(f"{key}/vacuity", key, "vacuity", "", "vacuity", ERROR, reason="precondition unsatisfiable"))
            if not outcomes:
                results.append(OblResult(f"{key}/vacuity", key, "vacuity", "", "vacuity", ERROR, reason="no execution path"))
            meta["stats"] = dict(ex.stats)
            meta["assumed_contracts_used"] = sorted(ex.assumed_contracts_used)
            meta["contracts_used"] = sorted(ex.contracts_used)
        except NoReceiver as e:
            meta["skipped"] = str(e)
            results = []
        except (OutsideSubset, NeedsContract) as e:
            meta["error"] = f"{type(e).__name__}: {e}"
            results = [OblResult(f"{key}/subset", key, "subset", "", "subset", ERROR, reason=meta["error"])]
        except Exception as e:  # checker fault
            meta["error"] = "checker fault: " + "".join(traceback.format_exception(e))[-1500:]
            results = [OblResult(f"{key}/fault", key, "fault", "", "fault", ERROR, reason=meta["error"])]
        # decorators wrap the body in something else: obligations of pyvc/decorators.py
        from . import decorators as _dec
        results = list(results) + _dec.obligations(self.repo, fi, key, lambda label, clause, kind, status, reason:
                                                   OblResult(label, key, clause, "", kind, status, reason=reason, lineno=fi.node.lineno))
        meta["seconds"] = round(time.time() - t0, 3)
        return results, meta

    def discharge_all(self, ex: Exec, obls: list[Obligation], key: str, env: dict) -> list[OblResult]:
        """Discharge the obligations of one function, in forked sub-processes when there are many."""
        jobs = getattr(self, "inner_jobs", 1)
        if jobs <= 1 or len(obls) < 60:
            return [self.discharge(ex, o, key, env) for o in obls]
        import multiprocessing as mp

        global _INNER
        _INNER = (self, ex, obls, key, env)
        ctx = mp.get_context("fork")
        with ctx.Pool(min(jobs, max(2, len(obls) // 12))) as pool:
            return pool.map(_inner_discharge, range(len(obls)), chunksize=4)

    def outcome_obligations(self, ex: Exec, k: Contract, fi: FuncInfo, env: dict, old: State, r: Res) -> list[Obligation]:
        out: list[Obligation] = []
        st = r.state
        ctx = Ctx(ex, env, "prove", st, old)

        def mk(label: str, goal: z3.BoolRef, kind: str, **info: Any) -> Obligation:
            return Obligation(label, list(st.pc), goal, r.node, fi.qualname, list(st.path), kind, info)

        cells = None
        if k.split is not None:
            cells = [(n, smt.lift(cnd).z) for n, cnd in k.split(ctx)]
            cells = [(n, cnd) for n, cnd in cells if ex.feasible(st, cnd)]

        if r.kind in ("return", "fall"):
            val = r.value if r.kind == "return" else smt.lift(None)
            td = ex.result_td(k, fi)
            if isinstance(td, smt.TTupleT):
                pass  # python-level tuple: clauses index its items
            elif td != smt.TAny and not isinstance(td, TRefT):
                fresh = getattr(val, "fresh", False)
                val = ex.to_sv(val, td, st, r.node)
                val.fresh = fresh
            elif not isinstance(val, SV):
                val = ex.to_sv(val, td, st, r.node)
            ctx.result = val
            for cl in k.ensures:
                only = getattr(self, "only_clauses", None)
                if only is not None and k.key in only and cl.label not in only[k.key]:
                    continue  # this run is about other clauses of the contract (they are the subject of another property's check)
                hz = []
                lz = [smt.lift(x).z for x in cl.lemmas(ctx)] if cl.lemmas is not None else []  # instances of laws (spec/laws.py)
                if cl.hints is not None:
                    for hi, h in enumerate(cl.hints(ctx)):
                        z = smt.lift(h).z
                        ho = mk(f"{cl.label}/hint{hi}", z, "hint")
                        ho.pc = ho.pc + hz + lz  # earlier hints and the law instances are available to later hints
                        out.append(ho)
                        hz.append(z)
                o = mk(cl.label, smt.lift(cl.fn(ctx)).z, "post")
                o.pc = o.pc + hz + lz  # each hint is proved separately (obligation above) before it is used
                out.append(o)
            for lab, excs, cond in k.must_raise:
                out.append(mk(lab, z3.Not(smt.lift(cond(ctx)).z), "must-raise", excs=list(excs)))
            if k.fresh_result and isinstance(val, SV):
                shared = val.z.get_id() in r.state.ghost.get("escaped", ())  # stored into a caller's container on this path
                out.append(mk("fresh-result", z3.BoolVal(bool(val.fresh) and not shared), "frame"))
            if isinstance(r.value, SV) and r.value.td in (smt.TTagSet, smt.TOptTagSet) and ex.annotation_kind(("method", fi.cls, fi)) == "frozen":
                # callers rely on the declared ``-> frozenset[...]`` (C09: what gets stored in frozen dataclasses is hashable)
                okk = z3.BoolVal(getattr(r.value, "kind", None) == "frozen")
                if r.value.td == smt.TOptTagSet:
                    okk = z3.Or(smt.OptTagSet.is_ots_none(r.value.z), okk)
                out.append(mk("returns-a-frozenset-as-declared", okk, "frozen-field"))
        elif r.kind == "raise":
            ctx.exc = r.exc
            allowed = [(e, c) for e, c in k.may_raise.items() if exc_matches(r.exc or "", e)]
            if not allowed:
                out.append(mk(f"no-{r.exc}", z3.BoolVal(False), "raises", exc=r.exc, note=r.note))
            else:
                conds = [smt.lift(c(ctx)).z if c is not None else z3.BoolVal(True) for _, c in allowed]
                out.append(mk(f"raises-{r.exc}-only-when-allowed", z3.Or(*conds), "raises", exc=r.exc))
            for cl in k.exc_ensures:
                out.append(mk(cl.label, smt.lift(cl.fn(ctx)).z, "exc-post", exc=r.exc))
        else:
            raise OutsideSubset(f"outcome {r.kind} at function end")
        if cells is not None:
            split_out: list[Obligation] = []
            for o in out:
                for n, cnd in cells:
                    split_out.append(Obligation(f"{o.label}[{n}]", o.pc + [cnd], o.goal, o.node, o.func, o.path, o.kind, dict(o.info, cell=n)))
            return split_out
        return out

    # ------------------------------------------------------------------
    def discharge(self, ex: Exec, o: Obligation, key: str, env: dict | None = None) -> OblResult:
        t0 = time.time()
        path = ";".join(o.path)
        res = OblResult(f"{key}/{o.label}", key, o.label, path, o.kind, UNKNOWN, lineno=getattr(o.node, "lineno", None), info=dict(o.info))
        if z3.is_true(o.goal):
            res.status = PROVED
            res.solver = "trivial"
            return res
        # E-matching only (MBQI off): valid obligations are engineered to discharge by E-matching, and a failing one
        # ends in "unknown (incomplete quantifiers)" instead of a timeout.  A small portfolio of instantiation
        # thresholds is tried in turn -- any "unsat" is a proof; measured: eager_threshold 2 discharges in
        # 0.03-0.2 s what the default (10) needs 4-25 s for.
        r = z3.unknown
        s = None
        for cfg, share in (({"smt.qi.eager_threshold": 2.0}, 0.5), ({"smt.qi.eager_threshold": 5.0, "smt.random_seed": 1}, 0.25), ({}, 0.25)):
            s = z3.Solver()
            s.set("auto_config", False)
            s.set("smt.mbqi", False)
            s.set("timeout", max(1000, int(self.timeout_ms * share)))
            for kk, vv in cfg.items():
                s.set(kk, vv)
            for a in ex.spec.axioms():
                s.add(a)
            for a in smt.seq_axioms():
                s.add(a)
            for f in ex.clock_facts:
                s.add(f)
            for f in o.pc:
                s.add(f)
            s.add(z3.Not(o.goal))
            r = s.check()
            if r != z3.unknown:
                break
            if "incomplete" in s.reason_unknown() and not cfg:
                break
        res.seconds = round(time.time() - t0, 4)
        if r == z3.unsat and getattr(self, "recheck", False):
            # thorough tier: the proof must not depend on one solver configuration -- re-prove with another random seed, the default
            # instantiation threshold and the other arithmetic solver; a proof that does not reproduce is reported as undecided
            s2 = z3.Solver()
            s2.set("auto_config", False)
            s2.set("smt.mbqi", False)
            s2.set("smt.random_seed", 7)
            s2.set("smt.arith.solver", 2)
            s2.set("timeout", self.timeout_ms)
            for a in ex.spec.axioms():
                s2.add(a)
            for a in smt.seq_axioms():
                s2.add(a)
            for f in ex.clock_facts:
                s2.add(f)
            for f in o.pc:
                s2.add(f)
            s2.add(z3.Not(o.goal))
            r2 = s2.check()
            res.info["rechecked"] = str(r2)
            res.solver = "z3 (two configurations)" if r2 == z3.unsat else "z3"
            if r2 == z3.sat:
                r = z3.unknown  # the two configurations disagree: a solver problem, never a verdict
                res.info["recheck_disagreement"] = True
            res.seconds = round(time.time() - t0, 4)
        if r == z3.unsat:
            res.status = PROVED
        elif r == z3.sat:
            res.status = REFUTED
            res.model = self.extract_model(ex, s.model(), o, env)
            res.reason = "sat"
        else:
            res.status = UNKNOWN
            res.reason = s.reason_unknown()
            # diagnosis: which conjunct of the goal is the one that is not discharged
            parts = _conjuncts(o.goal)
            if len(parts) > 1 and not os.environ.get("PYVC_NO_DIAG"):
                failing = []
                for idx, (hyp, cj) in enumerate(parts):
                    s3 = z3.Solver()
                    s3.set("auto_config", False)
                    s3.set("smt.mbqi", False)
                    s3.set("timeout", 3000)
                    for a in ex.spec.axioms():
                        s3.add(a)
                    for a in smt.seq_axioms():
                        s3.add(a)
                    for f in ex.clock_facts:
                        s3.add(f)
                    for f in o.pc:
                        s3.add(f)
                    for h in hyp:
                        s3.add(h)
                    s3.add(z3.Not(cj))
                    if s3.check() != z3.unsat:
                        failing.append(f"#{idx}: {str(cj)[:160]}")
                res.info["failing_conjuncts"] = failing
            # second stage: the same query without quantified axioms often yields a concrete model
            s2 = z3.Solver()
            s2.set("timeout", min(self.timeout_ms, 5000))
            from .symex import _has_quantifier

            for f in o.pc:
                if not _has_quantifier(f):
                    s2.add(f)
            s2.add(z3.Not(o.goal)) if not _has_quantifier(o.goal) else None
            if s2.check() == z3.sat:
                res.model = self.extract_model(ex, s2.model(), o, env)
                res.info["model_stage"] = "quantifier-free relaxation (candidate only)"
                if o.kind == "must-raise":
                    # a normal return on a path where the contract demands an exception: the path is reachable as far as
                    # the quantifier-free facts go and the solver could not show otherwise
                    res.status = REFUTED
                    res.reason = "normal return where an exception is required; path condition satisfiable (quantifier-free relaxation)"
        return res

    def extract_model(self, ex: Exec, m: z3.ModelRef, o: Obligation, env: dict | None = None) -> dict:
        out: dict[str, Any] = {}
        d = ModelDescriber(ex, m)
        for name, v in (env or {}).items():
            try:
                out[name] = d.describe(v, 3)
            except Exception as e:  # pragma: no cover
                out[name] = f"<undescribable: {e!r}>"
        for name, v in (o.info.get("ghosts") or {}).items():
            try:
                out["ghost:" + name] = d.describe(v, 2)
            except Exception:
                pass
        return out


def short_key(fi: FuncInfo) -> str:
    from .frontend import PKG

    return fi.qualname[len(PKG) + 1:] if fi.qualname.startswith(PKG + ".") else fi.qualname


def unverified_impls(repo: Repo, reg: Registry, pid: str) -> list[str]:
    out = []
    for key, c in reg.contracts.items():
        if pid not in c.properties or not c.unverified_impls or not c.virtual:
            continue
        try:
            fi = repo.func(key)
        except KeyError:
            continue
        for sub in repo.subclasses(fi.cls, concrete_only=False):
            m = sub.methods.get(fi.name)
            if m is not None and any(m.key.startswith(pfx) for pfx in c.unverified_impls):
                out.append(f"{m.key} is assumed (not verified here) to satisfy the contract of {key}")
    return out


def expand_keys(repo: Repo, reg: Registry, pid: str) -> list[str]:
    """Functions to verify for a property: every contract tagged with it; virtual contracts expand
    to every non-abstract implementation found in the current tree."""
    out: list[str] = []
    for key, c in reg.contracts.items():
        if pid not in c.properties or c.assumed or key.startswith("attr:"):
            continue
        try:
            fi = repo.func(key)
        except KeyError:
            out.append(key)  # reported as a structural failure by verify_function
            continue
        if c.virtual and fi.cls is not None:
            for sub in repo.subclasses(fi.cls, concrete_only=False):
                m = sub.methods.get(fi.name)
                if m is not None and not m.abstract:
                    k2 = m.key
                    if any(k2.startswith(pfx) for pfx in c.unverified_impls):
                        continue
                    if k2 in reg.contracts and reg.contracts[k2] is not c and pid not in reg.contracts[k2].properties:
                        continue
                    if k2 not in out:
                        out.append(k2)
        elif not fi.abstract:
            if key not in out:
                out.append(key)
    return out


def closure_keys(repo: Repo, reg: Registry, used: list[str]) -> list[str]:
    """Functions whose contracts were applied at call sites: they must be verified too (a caller is checked against the
    callee's contract, so the callee has to be checked against it as well).  Virtual contracts expand to every
    implementation, attribute contracts to every property implementing the attribute; assumed contracts are skipped
    (they are listed as assumptions)."""
    out: list[str] = []

    def add(ck: str) -> None:
        c = reg.contracts.get(ck)
        if c is None or c.assumed:
            return
        try:
            fi = repo.func(ck)
        except KeyError:
            return
        if c.virtual and fi.cls is not None:
            for sub in repo.subclasses(fi.cls, concrete_only=False):
                m = sub.methods.get(fi.name)
                if m is not None and not m.abstract and not any(m.key.startswith(pfx) for pfx in c.unverified_impls):
                    k2 = m.key
                    if k2 in reg.contracts and reg.contracts[k2].assumed:
                        continue
                    if k2 not in out:
                        out.append(k2)
        elif not fi.abstract and ck not in out:
            out.append(ck)

    for ck in used:
        if ck.startswith("attr:"):
            attr = ck.rsplit(".", 1)[1]
            for k2, c2 in list(reg.contracts.items()):
                if c2.attr and not k2.startswith("attr:") and k2.rsplit(".", 1)[1] == attr:
                    add(k2)
        else:
            add(ck)
    return out


class ModelDescriber:
    """Turn a z3 model into plain Python data describing the arguments (used by replay builders)."""

    def __init__(self, ex: Exec, m: z3.ModelRef):
        self.ex = ex
        self.m = m

    def ev(self, z: z3.ExprRef) -> z3.ExprRef:
        return self.m.eval(z, model_completion=True)

    def tags(self) -> list[z3.ExprRef]:
        try:
            return list(self.m.get_universe(smt.Tag) or [])
        except Exception:
            return []

    def describe(self, v: Any, depth: int) -> Any:
        from .state import PyList, PyTuple

        if isinstance(v, (PyTuple, PyList)):
            return [self.describe(x, depth) for x in v.items]
        if not isinstance(v, SV):
            return repr(v)
        td, z = v.td, v.z
        if td == smt.TInt:
            return self.ev(z).as_long()
        if td == smt.TBool:
            return z3.is_true(self.ev(z))
        if td == smt.TOptInt:
            e = self.ev(z)
            return None if z3.is_true(self.ev(smt.OptInt.is_oi_none(e))) else self.ev(smt.OptInt.oi_val(e)).as_long()
        if td == smt.TTri:
            return {"TriTrue": True, "TriFalse": False, "TriNone": None}[str(self.ev(z))]
        if td == smt.TTag:
            return {"tag": str(self.ev(z)), "is_key": z3.is_true(self.ev(self.ex.spec.tag_attr(v, "is_key").z))}
        if td == smt.TTagSet:
            return [str(t) for t in self.tags() if z3.is_true(self.ev(z3.IsMember(t, z)))]
        if td == smt.TOptTagSet:
            e = self.ev(z)
            if z3.is_true(self.ev(smt.OptTagSet.is_ots_none(e))):
                return None
            return self.describe(SV(smt.TTagSet, smt.OptTagSet.ots_val(z)), depth)
        if td == smt.TStr:
            return self.ev(z).as_string()
        if td == smt.TRange:
            e = self.ev(z)
            return {"range": [self.ev(f(e)).as_long() for f in (smt.Range.r_start, smt.Range.r_stop, smt.Range.r_step)]}
        if isinstance(td, TSeqT):
            n = self.ev(td.info.len(z)).as_long()
            return {"len": n, "items": [self.describe(SV(td.elem, td.info.at(z, i)), depth - 1) for i in range(max(0, min(n, 5)))]}
        if isinstance(td, TRefT):
            e = self.ev(z)
            if e.eq(self.ev(smt.NONE)):
                return None
            cid = self.ev(smt.typ(z)).as_long()
            ci = self.ex.types.id_class.get(cid)
            d: dict[str, Any] = {"class": ci.name if ci else f"?{cid}", "ref": str(e)}
            if ci is not None and depth > 0:
                for f in ci.all_fields():
                    if f.initvar:
                        continue
                    try:
                        fv = self.ex.spec_attr(SV(TRefT(ci), z), f.name, State())
                        d[f.name] = self.describe(fv, depth - 1)
                    except Exception:
                        pass
                for extra in self.ex.hooks.get("describe_extra", lambda *_: [])(self.ex, ci):
                    try:
                        d[extra] = self.describe(self.ex.spec_attr(SV(TRefT(ci), z), extra, State()), depth - 1)
                    except Exception:
                        pass
            return d
        return str(self.ev(z))
