"""SMT sorts, type descriptors and symbolic values for pyvc.

Encoding decisions (DESIGN.md section 2.3):
  * every Python object is a value of the uninterpreted sort ``Ref``; ``None`` is a
    distinguished Ref constant; the class of an object is ``typ(ref)`` (an Int id);
  * fields of frozen dataclasses are *pure* functions Ref -> sort, keyed by the root of
    the closed hierarchy the class belongs to and the attribute name (so an attribute that
    is a field in one subclass and a property in another is one symbol);
  * sequences are values of per-element uninterpreted sorts with ``len``/``at``
    functions (never z3 Seq);
  * ``int | None`` and friends are small datatypes.
"""
from __future__ import annotations

import z3

# --------------------------------------------------------------------- sorts
Ref = z3.DeclareSort("Ref")
Tag = z3.DeclareSort("Tag")
TagSet = z3.SetSort(Tag)
IntS = z3.IntSort()
BoolS = z3.BoolSort()
StrS = z3.StringSort()

NONE = z3.Const("None", Ref)

Tri, (TRI_T, TRI_F, TRI_N) = z3.EnumSort("Tri", ["TriTrue", "TriFalse", "TriNone"])

_OptInt = z3.Datatype("OptInt")
_OptInt.declare("oi_none")
_OptInt.declare("oi_some", ("oi_val", IntS))
OptInt = _OptInt.create()

_OptTagSet = z3.Datatype("OptTagSet")
_OptTagSet.declare("ots_none")
_OptTagSet.declare("ots_some", ("ots_val", TagSet))
OptTagSet = _OptTagSet.create()

_Range = z3.Datatype("PyRange")
_Range.declare("mk_range", ("r_start", IntS), ("r_stop", IntS), ("r_step", IntS))
Range = _Range.create()

typ = z3.Function("typ", Ref, IntS)
born = z3.Function("born", Ref, IntS)
deq = z3.Function("deq", Ref, Ref, BoolS)  # dataclass structural equality (==)

truthy_obj = z3.Function("truthy_obj", Ref, BoolS)  # bool(obj) for objects whose class defines __len__/__bool__ (or is unknown)

EMPTY_TAGS = z3.EmptySet(Tag)

_seq_sorts: dict[str, "SeqSortInfo"] = {}


class SeqSortInfo:
    def __init__(self, elem_sort: z3.SortRef):
        n = str(elem_sort).replace("(", "_").replace(")", "_").replace(" ", "").replace(",", "_")
        self.elem = elem_sort
        self.sort = z3.DeclareSort(f"Seq_{n}")
        self.len = z3.Function(f"len_{n}", self.sort, IntS)
        self.at = z3.Function(f"at_{n}", self.sort, IntS, elem_sort)
        self.empty = z3.Const(f"empty_{n}", self.sort)
        self.snoc = z3.Function(f"snoc_{n}", self.sort, elem_sort, self.sort)
        self.cat = z3.Function(f"cat_{n}", self.sort, self.sort, self.sort)


def seq_sort(elem_sort: z3.SortRef) -> SeqSortInfo:
    k = str(elem_sort)
    if k not in _seq_sorts:
        _seq_sorts[k] = SeqSortInfo(elem_sort)
    return _seq_sorts[k]


def seq_axioms() -> list[z3.BoolRef]:
    out = []
    for info in _seq_sorts.values():
        s = z3.Const("s", info.sort)
        out.append(z3.ForAll([s], info.len(s) >= 0, patterns=[info.len(s)]))
        out.append(info.len(info.empty) == 0)
        t = z3.Const("t", info.sort)
        x = z3.Const("x", info.elem)
        i = z3.Int("i")
        sn = info.snoc(s, x)
        out.append(z3.ForAll([s, x], z3.And(info.len(sn) == info.len(s) + 1, info.at(sn, info.len(s)) == x), patterns=[sn]))
        out.append(z3.ForAll([s, x, i], z3.Implies(z3.And(0 <= i, i < info.len(s)), info.at(sn, i) == info.at(s, i)), patterns=[info.at(sn, i)]))
        ct = info.cat(s, t)
        out.append(z3.ForAll([s, t], info.len(ct) == info.len(s) + info.len(t), patterns=[ct]))
        out.append(z3.ForAll([s, t, i], z3.Implies(z3.And(0 <= i, i < info.len(s)), info.at(ct, i) == info.at(s, i)), patterns=[info.at(ct, i)]))
        out.append(z3.ForAll([s, t, i], z3.Implies(z3.And(info.len(s) <= i, i < info.len(ct)), info.at(ct, i) == info.at(t, i - info.len(s))), patterns=[info.at(ct, i)]))
        # extensionality for the empty sequence
        out.append(z3.ForAll([s], z3.Implies(info.len(s) == 0, s == info.empty), patterns=[info.len(s)]))
    return out


_counter = [0]


def fresh_name(prefix: str) -> str:
    _counter[0] += 1
    return f"{prefix}!{_counter[0]}"


def fresh_const(prefix: str, sort: z3.SortRef) -> z3.ExprRef:
    return z3.Const(fresh_name(prefix), sort)


# ----------------------------------------------------------- type descriptors
class TD:
    """Static type descriptor: decides the z3 sort and Python semantics of a value."""

    sort: z3.SortRef
    name = "?"

    def __repr__(self) -> str:
        return self.name

    def __eq__(self, other: object) -> bool:
        return isinstance(other, TD) and repr(self) == repr(other)

    def __hash__(self) -> int:
        return hash(repr(self))

    def fresh(self, prefix: str = "v") -> "SV":
        return SV(self, fresh_const(prefix, self.sort))

    def truthy(self, sv: "SV") -> z3.BoolRef:
        raise NotImplementedError(f"truthiness of {self}")

    def side_facts(self, z: z3.ExprRef) -> list[z3.BoolRef]:
        """Facts that hold for every value of this type (e.g. typing of a Ref)."""
        return []


class TIntT(TD):
    sort = IntS
    name = "int"

    def truthy(self, sv):
        return sv.z != 0


class TBoolT(TD):
    sort = BoolS
    name = "bool"

    def truthy(self, sv):
        return sv.z


class TStrT(TD):
    sort = StrS
    name = "str"

    def truthy(self, sv):
        return z3.Length(sv.z) > 0


class TTagT(TD):
    sort = Tag
    name = "tag"


class TTagSetT(TD):
    sort = TagSet
    name = "tagset"

    def truthy(self, sv):
        return sv.z != EMPTY_TAGS


class TTriT(TD):
    sort = Tri
    name = "bool|None"

    def truthy(self, sv):
        return sv.z == TRI_T


class TOptIntT(TD):
    sort = OptInt
    name = "int|None"

    def truthy(self, sv):
        return z3.And(OptInt.is_oi_some(sv.z), OptInt.oi_val(sv.z) != 0)


class TOptTagSetT(TD):
    sort = OptTagSet
    name = "tagset|None"

    def truthy(self, sv):
        return z3.And(OptTagSet.is_ots_some(sv.z), OptTagSet.ots_val(sv.z) != EMPTY_TAGS)


class TRangeT(TD):
    sort = Range
    name = "range"


class TRefT(TD):
    """A Python object reference.  ``cls`` is the static upper bound (ClassInfo or None)."""

    sort = Ref

    def __init__(self, cls=None, nullable: bool = False):
        self.cls = cls
        self.nullable = nullable
        self.name = f"ref[{cls.name if cls is not None else 'Any'}{'?' if nullable else ''}]"

    def truthy(self, sv):
        # bool(obj): not None, and -- when the object's class (or, for Any, possibly its class) defines __len__ /
        # __bool__ -- whatever that method says (an uninterpreted predicate: code must not rely on it)
        cls = self.cls
        special = cls is None
        if cls is not None:
            for c in [cls] + list(getattr(cls, "_subclasses_cache", [])):
                if any(m in k.methods for k in c.mro for m in ("__len__", "__bool__")):
                    special = True
        if special:
            return z3.And(sv.z != NONE, truthy_obj(sv.z))
        return sv.z != NONE


class TSeqT(TD):
    def __init__(self, elem: TD):
        self.elem = elem
        self.info = seq_sort(elem.sort)
        self.sort = self.info.sort
        self.name = f"seq[{elem.name}]"

    def truthy(self, sv):
        return self.info.len(sv.z) > 0


class TTupleT(TD):
    """A fixed-arity heterogeneous tuple: a python-level value, not one z3 term."""

    sort = None  # type: ignore[assignment]

    def __init__(self, items: list[TD]):
        self.items = items
        self.name = f"tuple[{', '.join(t.name for t in items)}]"

    def fresh(self, prefix: str = "v"):
        from .state import PyTuple

        return PyTuple([t.fresh(f"{prefix}{i}") for i, t in enumerate(self.items)])


TInt = TIntT()
TBool = TBoolT()
TStr = TStrT()
TTag = TTagT()
TTagSet = TTagSetT()
TTri = TTriT()
TOptInt = TOptIntT()
TOptTagSet = TOptTagSetT()
TRange = TRangeT()
TAny = TRefT(None, True)


# ------------------------------------------------------------ symbolic values
class SV:
    """A symbolic value: a type descriptor plus one z3 term.

    Arithmetic/comparison operators are overloaded so that contracts read like Python.
    ``fresh`` is a static ownership flag used by the C09 frame obligations.
    """

    def __init__(self, td: TD, z: z3.ExprRef, fresh: bool = False, kind: str | None = None):
        self.td = td
        self.z = z
        self.fresh = fresh
        self.kind = kind  # for sets of tags: "frozen" (a frozenset), "mutable" (a set) or None (not known statically)

    def __repr__(self) -> str:
        return f"SV<{self.td}:{self.z}>"

    # --- contract-side sugar (pure; never forks) ---
    def _bin(self, other, f, td=None):
        o = lift(other, self.td)
        a, b = coerce_pair(self, o)
        return SV(td or a.td, f(a.z, b.z))

    def __add__(self, o):
        return self._bin(o, lambda a, b: a + b)

    def __radd__(self, o):
        return lift(o, self.td)._bin(self, lambda a, b: a + b)

    def __sub__(self, o):
        return self._bin(o, lambda a, b: a - b)

    def __rsub__(self, o):
        return lift(o, self.td)._bin(self, lambda a, b: a - b)

    def __mul__(self, o):
        return self._bin(o, lambda a, b: a * b)

    def __neg__(self):
        return SV(self.td, -self.z)

    def __lt__(self, o):
        return self._bin(o, lambda a, b: a < b, TBool)

    def __le__(self, o):
        if self.td == TTagSet:
            return self._bin(o, lambda a, b: z3.IsSubset(a, b), TBool)
        return self._bin(o, lambda a, b: a <= b, TBool)

    def __gt__(self, o):
        return self._bin(o, lambda a, b: a > b, TBool)

    def __ge__(self, o):
        if self.td == TTagSet:
            return self._bin(o, lambda a, b: z3.IsSubset(b, a), TBool)
        return self._bin(o, lambda a, b: a >= b, TBool)

    def eq(self, o):
        return self._bin(o, lambda a, b: a == b, TBool)

    def ne(self, o):
        return self._bin(o, lambda a, b: a != b, TBool)

    def __and__(self, o):
        if self.td == TTagSet:
            return self._bin(o, lambda a, b: z3.SetIntersect(a, b))
        return self._bin(o, lambda a, b: z3.And(a, b), TBool)

    def __or__(self, o):
        if self.td == TTagSet:
            return self._bin(o, lambda a, b: z3.SetUnion(a, b))
        return self._bin(o, lambda a, b: z3.Or(a, b), TBool)

    def __invert__(self):
        return SV(TBool, z3.Not(self.z))

    def implies(self, o):
        return self._bin(o, lambda a, b: z3.Implies(a, b), TBool)

    def contains(self, tag):
        assert self.td == TTagSet
        return SV(TBool, z3.IsMember(tag.z, self.z))

    def is_none(self):
        return SV(TBool, is_none_z(self))

    def val(self):
        """Payload of an int|None / tagset|None value."""
        if self.td == TOptInt:
            return SV(TInt, OptInt.oi_val(self.z))
        if self.td == TOptTagSet:
            return SV(TTagSet, OptTagSet.ots_val(self.z))
        return self


def is_none_z(sv: SV) -> z3.BoolRef:
    if sv.td == TOptInt:
        return OptInt.is_oi_none(sv.z)
    if sv.td == TOptTagSet:
        return OptTagSet.is_ots_none(sv.z)
    if sv.td == TTri:
        return sv.z == TRI_N
    if isinstance(sv.td, TRefT):
        return sv.z == NONE
    if sv.td.name == "str|None":
        return sv.td.sort.is_os_none(sv.z)
    return z3.BoolVal(False)


def lift(x, hint: TD | None = None) -> SV:
    if isinstance(x, SV):
        return x
    if isinstance(x, bool):
        if hint == TTri:
            return SV(TTri, TRI_T if x else TRI_F)
        return SV(TBool, z3.BoolVal(x))
    if isinstance(x, int):
        if hint == TOptInt:
            return SV(TOptInt, OptInt.oi_some(z3.IntVal(x)))
        return SV(TInt, z3.IntVal(x))
    if x is None:
        if hint == TOptInt:
            return SV(TOptInt, OptInt.oi_none)
        if hint == TOptTagSet:
            return SV(TOptTagSet, OptTagSet.ots_none)
        if hint == TTri:
            return SV(TTri, TRI_N)
        return SV(TAny, NONE)
    if isinstance(x, str):
        return SV(TStr, z3.StringVal(x))
    if isinstance(x, z3.ExprRef):
        s = x.sort()
        for td in (TInt, TBool, TStr, TTag, TTagSet, TTri, TOptInt, TOptTagSet, TRange):
            if td.sort == s:
                return SV(td, x)
        if s == Ref:
            return SV(TAny, x)
    raise TypeError(f"cannot lift {x!r}")


def coerce_pair(a: SV, b: SV) -> tuple[SV, SV]:
    """Bring two values to a common type descriptor (Python's dynamic typing of ==, <, ...)."""
    if a.td.sort == b.td.sort:
        return a, b
    for x, y, swap in ((a, b, False), (b, a, True)):
        r = None
        if x.td == TOptInt and y.td == TInt:
            r = (x, SV(TOptInt, OptInt.oi_some(y.z)))
        elif x.td == TOptTagSet and y.td == TTagSet:
            r = (x, SV(TOptTagSet, OptTagSet.ots_some(y.z)))
        elif x.td == TTri and y.td == TBool:
            r = (x, SV(TTri, z3.If(y.z, TRI_T, TRI_F)))
        elif x.td == TInt and y.td == TBool:
            r = (x, SV(TInt, z3.If(y.z, 1, 0)))
        elif isinstance(y.td, TRefT) and y.z.eq(NONE):
            r = (x, lift(None, x.td))
        if r is not None:
            return (r[1], r[0]) if swap else r
    raise TypeError(f"cannot coerce {a.td} and {b.td}")


def coerce_to(v: SV, td: TD) -> SV:
    """Convert ``v`` to type ``td`` (used when storing into fields / passing arguments)."""
    r = _coerce_to(v, td)
    if r is not v and getattr(v, "kind", None) is not None and r.kind is None:
        r.kind = v.kind
    return r


def _coerce_to(v: SV, td: TD) -> SV:
    if v.td.sort == td.sort:
        if isinstance(td, TRefT) and isinstance(v.td, TRefT):
            return v  # keep the more precise static class
        return SV(td, v.z, v.fresh)
    if td == TOptInt and v.td == TInt:
        return SV(TOptInt, OptInt.oi_some(v.z))
    if td == TOptTagSet and v.td == TTagSet:
        return SV(TOptTagSet, OptTagSet.ots_some(v.z))
    if td == TTri and v.td == TBool:
        return SV(TTri, z3.If(v.z, TRI_T, TRI_F))
    if td == TInt and v.td == TBool:
        return SV(TInt, z3.If(v.z, 1, 0))
    if isinstance(v.td, TRefT) and v.z.eq(NONE):
        return lift(None, td)
    if td == TInt and v.td == TOptInt:
        return SV(TInt, OptInt.oi_val(v.z))
    if td == TTagSet and v.td == TOptTagSet:
        return SV(TTagSet, OptTagSet.ots_val(v.z))
    if td == TBool and v.td == TTri:
        return SV(TBool, v.z == TRI_T)
    if td.name == "str" and v.td.name == "str|None":
        return SV(td, v.td.sort.os_val(v.z))
    if td.name == "str|None" and v.td.name == "str":
        return SV(td, td.sort.os_some(v.z))
    raise TypeError(f"cannot convert {v.td} to {td}")


def And(*xs) -> SV:
    zs = [lift(x).z for x in xs]
    return SV(TBool, z3.And(*zs) if zs else z3.BoolVal(True))


def Or(*xs) -> SV:
    zs = [lift(x).z for x in xs]
    return SV(TBool, z3.Or(*zs) if zs else z3.BoolVal(False))


def Not(x) -> SV:
    return SV(TBool, z3.Not(lift(x).z))


def Implies(a, b) -> SV:
    return SV(TBool, z3.Implies(lift(a).z, lift(b).z))


def If(c, a, b) -> SV:
    a, b = lift(a), lift(b)
    a, b = coerce_pair(a, b)
    return SV(a.td, z3.If(lift(c).z, a.z, b.z))


def zmin(a, b):
    return z3.If(a <= b, a, b)


def zmax(a, b):
    return z3.If(a >= b, a, b)
