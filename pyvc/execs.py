"""Statements, calls, constructors and contract application (second half of the executor)."""
from __future__ import annotations

import ast
from typing import Any

import z3

from . import smt
from .contracts import Contract, Ctx
from .frontend import ClassInfo, FuncInfo
from .smt import SV, TAny, TBool, TInt, TOptInt, TOptTagSet, TRange, TRefT, TSeqT, TStr, TTag, TTagSet, TTri
from .state import (
    Builtin,
    ClassVal,
    Closure,
    ExcVal,
    FuncVal,
    ModuleVal,
    Opaque,
    PyDict,
    PyList,
    PyTuple,
    Res,
    StarSeq,
    State,
    SuperVal,
    UnderConstruction,
)
from .symex import MAX_INLINE_DEPTH, Executor, Frame, exc_matches
from .types import NeedsContract, OutsideSubset, TFlat, Flat, TOptStr, OptStr

MUTATORS = {"append", "extend", "update", "add", "difference_update", "sort", "pop", "clear", "remove", "insert",
            "intersection_update", "discard", "setdefault", "reverse", "__setitem__"}


class Exec(Executor):
    # ================================================================ blocks
    def exec_block(self, stmts: list[ast.stmt], st: State) -> list[Res]:
        results = [Res("fall", None, st)]
        for stmt in stmts:
            nxt: list[Res] = []
            for r in results:
                if r.kind == "fall":
                    nxt.extend(self.exec_stmt(stmt, r.state))
                else:
                    nxt.append(r)
            results = nxt
            if not any(r.kind == "fall" for r in results):
                break
        return results

    def exec_stmt(self, stmt: ast.stmt, st: State) -> list[Res]:
        m = getattr(self, "st_" + type(stmt).__name__, None)
        if m is None:
            raise OutsideSubset(f"statement {type(stmt).__name__}", stmt)
        return m(stmt, st)

    def _fall(self, results: list[Res]) -> list[Res]:
        return [Res("fall", None, r.state) if r.kind == "ok" else r for r in results]

    def st_Pass(self, stmt: ast.Pass, st: State) -> list[Res]:
        return [Res("fall", None, st)]

    def st_Import(self, stmt: ast.Import, st: State) -> list[Res]:
        return [Res("fall", None, st)]

    def st_ImportFrom(self, stmt: ast.ImportFrom, st: State) -> list[Res]:
        return [Res("fall", None, st)]

    def st_Expr(self, stmt: ast.Expr, st: State) -> list[Res]:
        if isinstance(stmt.value, ast.Constant):
            return [Res("fall", None, st)]
        if isinstance(stmt.value, ast.Yield):
            h = self.hooks.get("yield")
            if h is None:
                raise OutsideSubset("yield", stmt)
            return self._fall(self.bind(self.ev(stmt.value.value, st), lambda v, s: h(self, v, s, stmt)))
        return self._fall(self.ev(stmt.value, st))

    def st_Assign(self, stmt: ast.Assign, st: State) -> list[Res]:
        def f(v, s):
            extra: list[Res] = []
            for t in stmt.targets:
                r = self.assign_target(t, v, s, stmt)
                if s.ghost.get("pending_raises"):
                    extra.extend(s.ghost.pop("pending_raises"))
                if r is not None:
                    return extra + r
            return extra + self.ok(None, s)

        return self._fall(self.bind(self.ev(stmt.value, st), f))

    def st_AnnAssign(self, stmt: ast.AnnAssign, st: State) -> list[Res]:
        if stmt.value is None:
            return [Res("fall", None, st)]

        def f(v, s):
            # honour the annotation for empty containers: "result: set[ColumnTag] = set()"
            td = self.types.td_of_annotation(stmt.annotation, self.frame.module)
            if isinstance(stmt.target, ast.Name) and td != TAny:
                d = dict(s.ghost.get("decl", {}))
                d[(s.depth, stmt.target.id)] = td
                s.ghost["decl"] = d
            if isinstance(v, PyList) and not v.items and isinstance(td, TSeqT):
                v = SV(td, td.info.empty, fresh=True)
            elif isinstance(v, SV) and v.td == TTagSet and td != TTagSet and isinstance(stmt.value, ast.Call) and not stmt.value.args:
                if td != TAny and not isinstance(td, TRefT):
                    raise OutsideSubset(f"empty set() annotated {td}", stmt)
            elif isinstance(v, SV) and td not in (TAny,) and not isinstance(td, TRefT) and v.td.sort != td.sort:
                try:
                    v = smt.coerce_to(v, td)
                except TypeError:
                    pass
            r = self.assign_target(stmt.target, v, s, stmt)
            return r if r is not None else self.ok(None, s)

        return self._fall(self.bind(self.ev(stmt.value, st), f))

    def st_AugAssign(self, stmt: ast.AugAssign, st: State) -> list[Res]:
        load = _as_load(stmt.target)

        def f(vs, s):
            cur, rhs = vs
            # in-place operators on shared containers are mutations (C09 frame)
            if isinstance(cur, SV) and cur.td == TTagSet and not cur.fresh:
                fr = self.hooks.get("frame_mutation")
                if fr is not None:
                    fr(self, cur, f"augmented assignment {type(stmt.op).__name__}", s, stmt)

            def g(v, s2):
                if isinstance(v, SV) and isinstance(cur, SV):
                    v.fresh = v.fresh or cur.fresh
                r = self.assign_target(stmt.target, v, s2, stmt)
                return r if r is not None else self.ok(None, s2)

            return self.bind(self.binop(stmt.op, cur, rhs, s, stmt), g)

        return self._fall(self.bind(self.ev_list([load, stmt.value], st), f))

    def st_Return(self, stmt: ast.Return, st: State) -> list[Res]:
        if stmt.value is None:
            return [Res("return", smt.lift(None), st, node=stmt)]
        return [Res("return", r.value, r.state, node=stmt) if r.kind == "ok" else r for r in self.ev(stmt.value, st)]

    def st_Raise(self, stmt: ast.Raise, st: State) -> list[Res]:
        if stmt.exc is None:
            raise OutsideSubset("bare raise", stmt)
        e = stmt.exc
        name = None
        f = e.func if isinstance(e, ast.Call) else e
        if isinstance(f, ast.Name):
            name = f.id
        if name is None:
            raise OutsideSubset("raise of a non-name exception", stmt)
        st.path.append(f"L{stmt.lineno}:raise {name}")
        return [Res("raise", None, st, exc=name, node=stmt)]

    def st_Assert(self, stmt: ast.Assert, st: State) -> list[Res]:
        def f(v, s):
            t = self.truth(v, s, stmt)
            out: list[Res] = []
            if self.feasible(s, z3.Not(t)):
                s2 = s.fork().assume(z3.Not(t))
                s2.path.append(f"L{stmt.lineno}:assert-fails")
                out.append(Res("raise", None, s2, exc="AssertionError", node=stmt))
            if self.feasible(s, t):
                out.append(Res("fall", None, s.assume(t)))
            return out

        return self.bind(self.ev(stmt.test, st), f)

    def st_If(self, stmt: ast.If, st: State) -> list[Res]:
        def f(v, s):
            t = self.truth(v, s, stmt)
            out: list[Res] = []
            ft, ff = self.feasible(s, t), self.feasible(s, z3.Not(t))
            if ft:
                s2 = (s.fork() if ff else s).assume(t)
                s2.path.append(f"L{stmt.lineno}:if:T")
                out.extend(self.exec_block(stmt.body, s2))
            if ff:
                s3 = s.fork().assume(z3.Not(t)) if ft else s.assume(z3.Not(t))
                s3.path.append(f"L{stmt.lineno}:if:F")
                out.extend(self.exec_block(stmt.orelse, s3) if stmt.orelse else [Res("fall", None, s3)])
            return out

        return self.bind(self.ev(stmt.test, st), f)

    def st_FunctionDef(self, stmt: ast.FunctionDef, st: State) -> list[Res]:
        st.env = dict(st.env)
        st.env[stmt.name] = Closure(stmt, st.env, self.frame.module, self.frame.cls)
        return [Res("fall", None, st)]

    def st_Break(self, stmt: ast.Break, st: State) -> list[Res]:
        return [Res("break", None, st)]

    def st_Continue(self, stmt: ast.Continue, st: State) -> list[Res]:
        return [Res("continue", None, st)]

    # ================================================================= match
    def st_Match(self, stmt: ast.Match, st: State) -> list[Res]:
        def f(subj, s):
            return self.match_cases(stmt, 0, subj, s)

        return self.bind(self.ev(stmt.subject, st), f)

    def match_cases(self, stmt: ast.Match, k: int, subj: Any, st: State) -> list[Res]:
        if k == len(stmt.cases):
            return [Res("fall", None, st)]
        case = stmt.cases[k]
        out: list[Res] = []
        for kind, cond, binds, s in self.match_pattern(case.pattern, subj, st, stmt):
            if kind == "raise":
                out.append(cond)  # a Res
                continue
            if kind == "match":
                s2 = s
                s2.env = dict(s2.env)
                s2.env.update(binds)
                s2.path.append(f"L{case.pattern.lineno}:case{k}")
                if case.guard is not None:
                    def g(v, s3):
                        t = self.truth(v, s3, case)
                        o: list[Res] = []
                        if self.feasible(s3, t):
                            o.extend(self.exec_block(case.body, s3.fork().assume(t)))
                        if self.feasible(s3, z3.Not(t)):
                            o.extend(self.match_cases(stmt, k + 1, subj, s3.fork().assume(z3.Not(t))))
                        return o
                    out.extend(self.bind(self.ev(case.guard, s2), g))
                else:
                    hb = self.hooks.get("case_body")
                    summarized = hb(self, stmt, case, s2) if hb is not None else None
                    out.extend(summarized if summarized is not None else self.exec_block(case.body, s2))
            else:  # nomatch
                out.extend(self.match_cases(stmt, k + 1, subj, s))
        return out

    def match_pattern(self, pat: ast.pattern, subj: Any, st: State, node: ast.AST) -> list[tuple]:
        """Return a list of ('match'|'nomatch', cond, bindings, state) / ('raise', Res, None, None)."""
        if isinstance(pat, ast.MatchAs):
            if pat.pattern is None:
                return [("match", None, ({pat.name: subj} if pat.name else {}), st)]
            out = []
            for kind, c, b, s in self.match_pattern(pat.pattern, subj, st, node):
                if kind == "match" and pat.name:
                    b = dict(b)
                    b[pat.name] = subj
                out.append((kind, c, b, s))
            return out
        if isinstance(pat, ast.MatchOr):
            out = []
            pending = [st]
            for alt in pat.patterns:
                nxt = []
                for s in pending:
                    for kind, c, b, s2 in self.match_pattern(alt, subj, s, node):
                        if kind == "nomatch":
                            nxt.append(s2)
                        else:
                            out.append((kind, c, b, s2))
                pending = nxt
            out.extend(("nomatch", None, {}, s) for s in pending)
            return out
        if isinstance(pat, ast.MatchValue) or isinstance(pat, ast.MatchSingleton):
            val = smt.lift(pat.value) if isinstance(pat, ast.MatchSingleton) else None
            if val is None:
                rs = self.ev(pat.value, st)
                assert len(rs) == 1 and rs[0].kind == "ok"
                val = rs[0].value
            c = self.identical(subj, val, st, node) if isinstance(pat, ast.MatchSingleton) else self.equals(subj, val, st, node)
            out = []
            if self.feasible(st, c):
                out.append(("match", c, {}, st.fork().assume(c)))
            if self.feasible(st, z3.Not(c)):
                out.append(("nomatch", None, {}, st.fork().assume(z3.Not(c))))
            return out
        if isinstance(pat, ast.MatchClass):
            return self.match_class(pat, subj, st, node)
        raise OutsideSubset(f"pattern {type(pat).__name__}", pat)

    def match_class(self, pat: ast.MatchClass, subj: Any, st: State, node: ast.AST) -> list[tuple]:
        if pat.patterns:
            raise OutsideSubset("positional class patterns", pat)
        cname = ast.unparse(pat.cls)
        if cname == "range":
            if isinstance(subj, SV) and subj.td == TRange:
                binds = {}
                for a, p in zip(pat.kwd_attrs, pat.kwd_patterns):
                    if not (isinstance(p, ast.MatchAs) and p.pattern is None):
                        raise OutsideSubset("nested range pattern", pat)
                    acc = {"start": smt.Range.r_start, "stop": smt.Range.r_stop, "step": smt.Range.r_step}[a]
                    binds[p.name] = SV(TInt, acc(subj.z))
                return [("match", None, binds, st)]
            raise OutsideSubset("range pattern on non-range", pat)
        rs = self.ev(pat.cls, st)
        cv = rs[0].value
        if not isinstance(cv, ClassVal):
            raise OutsideSubset(f"class pattern {cname}", pat)
        ci = cv.cls
        if not (isinstance(subj, SV) and isinstance(subj.td, TRefT)):
            if isinstance(subj, SV):
                return [("nomatch", None, {}, st)]
            raise OutsideSubset(f"class pattern on {subj!r}", pat)
        h = self.hooks.get("isinstance")
        inst = None
        if h is not None:
            inst = h(self, subj, ci, st)
        if inst is None:
            if subj.td.cls is None:
                raise OutsideSubset(f"class pattern {cname} on an untyped value", pat)
            inst = z3.And(subj.z != smt.NONE, self.types.is_instance_z(subj.z, ci))
        out: list[tuple] = []
        if self.feasible(st, z3.Not(inst)):
            out.append(("nomatch", None, {}, st.fork().assume(z3.Not(inst))))
        if not self.feasible(st, inst):
            return out
        s = st.fork().assume(inst)
        narrowed = SV(TRefT(ci if (subj.td.cls is None or ci.is_subclass_of(_rel(self, subj.td.cls)) or True) else subj.td.cls), subj.z, subj.fresh)
        subs = self.types.concrete_subclasses(ci)
        if len(subs) == 1:
            self.set_known_class(narrowed, subs[0], s)
        # keyword sub-patterns read attributes (properties may raise)
        partial = [("match", None, {}, s)]
        for a, p in zip(pat.kwd_attrs, pat.kwd_patterns):
            nxt = []
            for kind, c, b, s1 in partial:
                if kind != "match":
                    nxt.append((kind, c, b, s1))
                    continue
                for r in self.getattr_val(narrowed, a, s1, pat):
                    if r.kind != "ok":
                        nxt.append(("raise", r, None, None))
                        continue
                    for kind2, c2, b2, s2 in self.match_pattern(p, r.value, r.state, node):
                        if kind2 == "match":
                            bb = dict(b)
                            bb.update(b2)
                            nxt.append(("match", None, bb, s2))
                        else:
                            nxt.append((kind2, c2, b2, s2))
            partial = nxt
        # capture patterns bind the *narrowed* subject
        out.extend(partial)
        self._last_narrowed = narrowed
        return [(k, c, ({n: (narrowed if v is subj else v) for n, v in b.items()} if k == "match" else b), s) for k, c, b, s in out]

    # ================================================================= loops
    def st_For(self, stmt: ast.For, st: State) -> list[Res]:
        if stmt.orelse:
            raise OutsideSubset("for-else", stmt)
        fr = self.frame
        ordinal = fr.loop_ordinal
        fr.loop_ordinal += 1

        def f(it, s):
            if isinstance(it, (PyTuple, PyList)):
                return self.loop_unrolled(stmt, list(it.items), s)
            if isinstance(it, SV) and isinstance(it.td, TSeqT):
                return self.loop_invariant(stmt, it, s, ordinal)
            h = self.hooks.get("for_iter")
            if h is not None:
                r = h(self, stmt, it, s, ordinal)
                if r is not None:
                    return r
            raise OutsideSubset(f"for over {it!r}", stmt)

        return self.bind(self.ev(stmt.iter, st), f)

    def loop_unrolled(self, stmt: ast.For, items: list[Any], st: State) -> list[Res]:
        results = [Res("fall", None, st)]
        for item in items:
            nxt: list[Res] = []
            for r in results:
                if r.kind != "fall":
                    nxt.append(r)
                    continue
                s = r.state
                a = self.assign_target(stmt.target, item, s, stmt)
                if a is not None:
                    nxt.extend(a)
                    continue
                for b in self.exec_block(stmt.body, s):
                    if b.kind in ("fall", "continue"):
                        nxt.append(Res("fall", None, b.state))
                    elif b.kind == "break":
                        nxt.append(Res("broken", None, b.state))
                    else:
                        nxt.append(b)
            results = nxt
        return [Res("fall", None, r.state) if r.kind == "broken" else r for r in results]

    def loop_invariant(self, stmt: ast.For, it: SV, st: State, ordinal: int) -> list[Res]:
        k = self.frame.contract
        inv = k.invariants.get(ordinal) if k is not None else None
        if inv is None:
            raise NeedsContract(f"loop #{ordinal} over a symbolic sequence needs an invariant", stmt)
        info = it.td.info
        n = info.len(it.z)
        ctx = self.frame.ctx
        assigned = sorted(_assigned_names(stmt.body) | _mutated_names(stmt.body))
        label = f"loop{ordinal}"

        def inv_z(i: z3.ExprRef, s: State) -> z3.BoolRef:
            c = Ctx(self, ctx.args if ctx else {}, "prove", s, ctx.old if ctx else s)
            return smt.lift(inv(c, SV(TInt, i), _EnvView(s.env), it)).z

        # 1. init
        self.oblige(st, f"{label}/init", inv_z(z3.IntVal(0), st), stmt, kind="loop-init")
        # 2. havoc
        h = st.fork()
        h.env = dict(h.env)
        for name in assigned:
            if name in h.env:
                h.env[name] = self.havoc_value(h.env[name], name, h)
        hv = self.hooks.get("loop_havoc")
        if hv is not None:
            hv(self, stmt, h)
        # 3. arbitrary iteration
        i = z3.Int(smt.fresh_name("it"))
        b = h.fork()
        b.assume(0 <= i, i < n, inv_z(i, b))
        b.path.append(f"L{stmt.lineno}:{label}:iter")
        elem = self.seq_elem(it, i, b)
        out: list[Res] = []
        a = self.assign_target(stmt.target, elem, b, stmt)
        assert a is None
        for r in self.exec_block(stmt.body, b):
            if r.kind in ("fall", "continue"):
                self.oblige(r.state, f"{label}/preserve", inv_z(i + 1, r.state), stmt, kind="loop-preserve")
            elif r.kind == "break":
                out.append(Res("fall", None, r.state))
            else:
                out.append(r)
        # 4. exit
        e = h.fork()
        e.assume(inv_z(n, e))
        e.path.append(f"L{stmt.lineno}:{label}:exit")
        out.append(Res("fall", None, e))
        return out

    def havoc_value(self, v: Any, name: str, st: State) -> Any:
        if isinstance(v, SV):
            nv = v.td.fresh("hv_" + name)
            nv.fresh = v.fresh
            st.assume(*self.type_facts(nv.z, v.td, st))
            if isinstance(v.td, TSeqT):
                st.assume(v.td.info.len(nv.z) >= 0)
            return nv
        raise OutsideSubset(f"cannot havoc loop variable {name}={v!r}")

    # ================================================================= calls
    def ev_Call(self, node: ast.Call, st: State) -> list[Res]:
        # mutating method on an lvalue: needs write-back
        if isinstance(node.func, ast.Attribute) and node.func.attr in MUTATORS:
            return self.mutating_call(node, st)
        if isinstance(node.func, ast.Name) and node.func.id == "super" and not node.args:
            selfv = st.env.get("self") or st.env.get("cls")
            return self.ok(SuperVal(selfv, self.frame.cls), st)

        def f(callee, s):
            def g(args, s2):
                kwn = [k for k in node.keywords]
                def h(kwvals, s3):
                    kwargs: dict[str, Any] = {}
                    for k, v in zip(kwn, kwvals):
                        if k.arg is None:
                            if isinstance(v, PyDict):
                                for kk, vv in zip(v.keys, v.values):
                                    kwargs[_const_str(kk)] = vv
                            else:
                                raise OutsideSubset("**kwargs of a non-literal dict", node)
                        else:
                            kwargs[k.arg] = v
                    return self.call(callee, args, kwargs, s3, node)
                return self.bind(self.ev_list([k.value for k in kwn], s2), h)
            return self.bind(self.ev_list(node.args, s), g)

        return self.bind(self.ev(node.func, st), f)

    def mutating_call(self, node: ast.Call, st: State) -> list[Res]:
        recv_node = node.func.value  # type: ignore[union-attr]
        meth = node.func.attr  # type: ignore[union-attr]

        def f(recv, s):
            def g(args, s2):
                h = self.hooks.get("mutating_call")
                if h is not None:
                    r = h(self, recv, meth, args, recv_node, s2, node)
                    if r is not None:
                        return r
                if not getattr(recv, "fresh", False):
                    fr = self.hooks.get("frame_mutation")
                    if fr is not None:
                        fr(self, recv, f".{meth}()", s2, node)
                new = self.apply_mutator(recv, meth, args, s2, node)
                if new is not None:
                    if isinstance(new, SV):
                        new.fresh = getattr(recv, "fresh", False)
                        if new.td == TTagSet:
                            new.kind = "mutable"  # only a set has in-place mutators
                    r = self.assign_target(_as_store(recv_node), new, s2, node)
                    if r is not None:
                        return r
                return self.ok(smt.lift(None), s2)
            return self.bind(self.ev_list(node.args, s), g)

        return self.bind(self.ev(recv_node, st), f)

    def mapping_value_td(self, call: ast.Call) -> Any:
        """Value type of ``m.get(...)`` when ``m`` is a parameter of the function being executed annotated dict[K, V] / Mapping[K, V]."""
        f = call.func
        fi = self.frames[-1].fi if self.frames else None
        if not (isinstance(f, ast.Attribute) and isinstance(f.value, ast.Name)) or fi is None:
            return None
        a = fi.node.args
        for p in a.posonlyargs + a.args + a.kwonlyargs:
            if p.arg == f.value.id and p.annotation is not None:
                ann = p.annotation
                if isinstance(ann, ast.Constant) and isinstance(ann.value, str):
                    ann = ast.parse(ann.value, mode="eval").body
                parts = self.types._union_parts(ann)
                for q in parts:
                    if isinstance(q, ast.Subscript) and ast.unparse(q.value) in ("dict", "Mapping", "MutableMapping") and isinstance(q.slice, ast.Tuple) and len(q.slice.elts) == 2:
                        return self.types.td_of_annotation(q.slice.elts[1], fi.module)
        return None

    def apply_mutator(self, recv: Any, meth: str, args: list[Any], st: State, node: ast.AST) -> Any:
        if isinstance(recv, SV) and recv.td == TTagSet:
            a = args[0] if args else None
            if meth in ("update",) and isinstance(a, SV) and a.td == TTagSet:
                return SV(TTagSet, z3.SetUnion(recv.z, a.z))
            if meth == "add" and isinstance(a, SV) and a.td == TTag:
                return SV(TTagSet, z3.SetAdd(recv.z, a.z))
            if meth == "difference_update" and isinstance(a, SV) and a.td == TTagSet:
                return SV(TTagSet, z3.SetDifference(recv.z, a.z))
            if meth == "intersection_update" and isinstance(a, SV) and a.td == TTagSet:
                return SV(TTagSet, z3.SetIntersect(recv.z, a.z))
            if meth == "discard" and isinstance(a, SV) and a.td == TTag:
                return SV(TTagSet, z3.SetDel(recv.z, a.z))
        if isinstance(recv, PyList):
            if meth == "append":
                recv.items = recv.items + [args[0]]
                return PyList(list(recv.items), recv.fresh)
            if meth == "extend":
                a = args[0]
                if isinstance(a, (PyList, PyTuple)):
                    return PyList(recv.items + a.items, recv.fresh)
                if isinstance(a, Closure) and isinstance(a.node, ast.GeneratorExp):
                    lst = self.call_builtin("list", [a], {}, st, node)
                    if len(lst) == 1 and lst[0].kind == "ok" and isinstance(lst[0].value, PyList):
                        return PyList(recv.items + lst[0].value.items, recv.fresh)
                if isinstance(a, SV) and isinstance(a.td, TSeqT) and not recv.items:
                    return a
        if isinstance(recv, SV) and isinstance(recv.td, TSeqT):
            if meth == "append":
                return self.seq_snoc(recv, self.to_sv(args[0], recv.td.elem, st, node), st)
            if meth == "extend":
                a = args[0]
                if isinstance(a, (PyList, PyTuple)):
                    a = self.to_sv(a, recv.td, st, node)
                if isinstance(a, SV) and a.td.sort == recv.td.sort:
                    return self.seq_concat(recv, a, st)
                if isinstance(a, SV) and a.td == TFlat:
                    return self.seq_concat(recv, SV(recv.td, Flat.flat_val(a.z)), st)
        raise OutsideSubset(f"mutator .{meth} on {recv!r} with {args!r}", node)

    def call(self, callee: Any, args: list[Any], kwargs: dict[str, Any], st: State, node: ast.AST) -> list[Res]:
        if isinstance(callee, FuncVal):
            return self.call_function(callee.fi, callee.self_val, args, kwargs, st, node, dispatch_cls=callee.dispatch_cls)
        if isinstance(callee, ClassVal):
            return self.construct(callee.cls, args, kwargs, st, node)
        if isinstance(callee, Builtin):
            return self.call_builtin(callee.name, ([callee.self_val] if callee.self_val is not None else []) + args, kwargs, st, node)
        if isinstance(callee, Closure):
            return self.call_closure(callee, args, kwargs, st, node)
        if isinstance(callee, (ModuleVal, Opaque)):
            h = self.hooks.get("foreign_call")
            if h is not None:
                r = h(self, callee, args, kwargs, st, node)
                if r is not None:
                    return r
            name = callee.name if isinstance(callee, ModuleVal) else callee.what
            if name.startswith("typing."):
                return self.ok(args[-1] if args else Opaque(name), st)
            return self.ok(Opaque(f"{name}(...)"), st)
        if isinstance(callee, SV):
            h = self.hooks.get("call_value")
            if h is not None:
                r = h(self, callee, args, kwargs, st, node)
                if r is not None:
                    return r
        h = self.hooks.get("call_pyval")
        if h is not None:
            r = h(self, callee, args, kwargs, st, node)
            if r is not None:
                return r
        raise OutsideSubset(f"call of {callee!r}", node)

    def call_closure(self, c: Closure, args: list[Any], kwargs: dict[str, Any], st: State, node: ast.AST) -> list[Res]:
        if isinstance(c.node, ast.GeneratorExp):
            raise OutsideSubset("calling a generator expression", node)
        env = dict(c.env)
        a = c.node.args
        names = [x.arg for x in a.args]
        for n, v in zip(names, args):
            env[n] = v
        env.update(kwargs)
        self.frames.append(Frame(None, c.module, c.cls))
        try:
            s = st.fork()
            caller_env = st.env
            s.env = env
            if isinstance(c.node, ast.Lambda):
                return [Res(r.kind, r.value, r.state.with_env(caller_env) if r.kind == "ok" else r.state, r.exc, r.node, r.note) for r in self.ev(c.node.body, s)]
            out = []
            for r in self.exec_block(c.node.body, s):
                if r.kind == "return":
                    out.append(Res("ok", r.value, r.state.with_env(caller_env)))
                elif r.kind == "fall":
                    out.append(Res("ok", smt.lift(None), r.state.with_env(caller_env)))
                else:
                    out.append(r)
            return out
        finally:
            self.frames.pop()

    # ---------------------------------------------------------- parameters
    def bind_params(self, fi: FuncInfo, recv: Any, args: list[Any], kwargs: dict[str, Any], st: State, node: ast.AST) -> tuple[dict[str, Any], list[Res]]:
        a = fi.node.args
        pos = [x.arg for x in a.posonlyargs + a.args]
        env: dict[str, Any] = {}
        args = list(args)
        if fi.kind in ("method", "property", "classmethod") and recv is not None and fi.cls is not None:
            args = [recv] + args
        n_pos = len(pos)
        for name, v in zip(pos, args):
            if isinstance(v, StarSeq):
                raise OutsideSubset(f"symbolic *args bound to a positional parameter of {fi.qualname}", node)
            env[name] = v
        rest = args[n_pos:]
        if a.vararg is not None:
            if len(rest) == 1 and isinstance(rest[0], StarSeq):
                env[a.vararg.arg] = rest[0].seq
            elif any(isinstance(x, StarSeq) for x in rest):
                sq = [x for x in rest if isinstance(x, StarSeq)][0].seq
                acc = None
                for x in rest:
                    part = x.seq if isinstance(x, StarSeq) else self.seq_from_items([x], sq.td, st)
                    acc = part if acc is None else self.seq_concat(acc, part, st)
                env[a.vararg.arg] = acc
            else:
                tup = PyTuple(rest)
                etd = self.types.td_of_annotation(a.vararg.annotation, fi.module)
                if rest and all(isinstance(x, SV) for x in rest) and etd.sort is not None:
                    env[a.vararg.arg] = self.to_sv(tup, TSeqT(etd), st, node)
                elif not rest and etd.sort is not None:
                    env[a.vararg.arg] = SV(TSeqT(etd), TSeqT(etd).info.empty)
                else:
                    env[a.vararg.arg] = tup
        elif rest:
            raise OutsideSubset(f"too many positional arguments for {fi.qualname}", node)
        kwonly = [x.arg for x in a.kwonlyargs]
        for k, v in kwargs.items():
            if k in pos or k in kwonly:
                env[k] = v
            elif a.kwarg is not None:
                d = env.setdefault(a.kwarg.arg, PyDict([], [], True))
                d.keys.append(smt.lift(k))
                d.values.append(v)
            else:
                raise OutsideSubset(f"unexpected keyword {k} for {fi.qualname}", node)
        if a.kwarg is not None and a.kwarg.arg not in env:
            env[a.kwarg.arg] = PyDict([], [], True)
        # defaults
        defaults = dict(zip([x.arg for x in (a.posonlyargs + a.args)][-len(a.defaults):], a.defaults)) if a.defaults else {}
        for x, d in zip(a.kwonlyargs, a.kw_defaults):
            if d is not None:
                defaults[x.arg] = d
        missing = [n for n in pos + kwonly if n not in env]
        raised: list[Res] = []
        for n in missing:
            if n not in defaults:
                raise OutsideSubset(f"missing argument {n} for {fi.qualname}", node)
            self.frames.append(Frame(None, fi.module, fi.cls))
            try:
                rs = self.ev(defaults[n], st)
            finally:
                self.frames.pop()
            assert len(rs) == 1 and rs[0].kind == "ok"
            env[n] = rs[0].value
        # coerce to annotated descriptors so that bodies see the declared static types
        for x in a.posonlyargs + a.args + a.kwonlyargs:
            if x.arg in env and x.annotation is not None and isinstance(env[x.arg], (SV, PyTuple, PyList)):
                td = self.types.td_of_annotation(x.annotation, fi.module)
                v = env[x.arg]
                try:
                    if isinstance(v, SV):
                        if isinstance(td, TRefT) and isinstance(v.td, TRefT):
                            if v.td.cls is None and td.cls is not None and not v.z.eq(smt.NONE):
                                env[x.arg] = SV(td, v.z, v.fresh)
                        elif td != TAny:
                            env[x.arg] = smt.coerce_to(v, td)
                    elif isinstance(td, TSeqT):
                        env[x.arg] = self.to_sv(v, td, st, node)
                except (TypeError, OutsideSubset):
                    pass
        return env, raised

    # ------------------------------------------------------------ functions
    def find_contract(self, fi: FuncInfo, recv_cls: ClassInfo | None) -> Contract | None:
        k = self.reg.get(fi.key)
        if k is not None:
            return k
        # a virtual contract declared on an ancestor's method of the same name
        if fi.cls is not None:
            for c in fi.cls.mro[1:]:
                m = c.methods.get(fi.name)
                if m is not None:
                    k = self.reg.get(m.key)
                    if k is not None and k.virtual:
                        return k
        return None

    def find_virtual(self, fi: FuncInfo) -> Contract | None:
        """The virtual contract governing every override of this method, if any."""
        if fi.cls is None:
            return None
        for c in fi.cls.mro:
            m = c.methods.get(fi.name)
            if m is not None:
                k = self.reg.get(m.key)
                if k is not None and k.virtual:
                    return k
        return None

    def call_function(self, fi: FuncInfo, recv: Any, args: list[Any], kwargs: dict[str, Any], st: State, node: ast.AST,
                      dispatch_cls: ClassInfo | None = None) -> list[Res]:
        # virtual dispatch: when the receiver's class is not pinned down, either use a virtual
        # contract or fork over the implementations
        if isinstance(recv, SV) and isinstance(recv.td, TRefT) and recv.td.cls is not None and fi.kind in ("method", "property") and dispatch_cls is None:
            k = self.find_virtual(fi)
            if not (k is not None and k.virtual and not k.inline and self.modular):
                impls: dict[str, tuple[FuncInfo, list[ClassInfo]]] = {}
                for c in self.candidates(recv, st):
                    m = c.lookup(fi.name)
                    if m is None:
                        continue
                    impls.setdefault(m.qualname, (m, []))[1].append(c)
                if len(impls) > 1 or (len(impls) == 1 and next(iter(impls.values()))[0].qualname != fi.qualname):
                    out: list[Res] = []
                    for q, (m, classes) in impls.items():
                        cond = z3.Or(*[smt.typ(recv.z) == self.types.cid(c) for c in classes])
                        if not self.feasible(st, cond):
                            continue
                        s2 = st.fork().assume(cond)
                        s2.path.append(f"L{getattr(node, 'lineno', 0)}:{fi.name}@{'|'.join(c.name for c in classes)}")
                        r2 = SV(TRefT(classes[0]) if len(classes) == 1 else recv.td, recv.z, recv.fresh)
                        if len(classes) == 1:
                            self.set_known_class(r2, classes[0], s2)
                        out.extend(self.call_function(m, r2, args, kwargs, s2, node, dispatch_cls=classes[0]))
                    return out
                if len(impls) == 1:
                    dispatch_cls = next(iter(impls.values()))[1][0]
        if fi.abstract and not self.find_contract(fi, None):
            raise NeedsContract(f"call of abstract {fi.qualname} without a contract", node)
        k = self.find_contract(fi, dispatch_cls)
        if (k is not None and dispatch_cls is not None and fi.kind in ("method", "property") and fi.cls is not None
                and not isinstance(recv, ClassVal) and dispatch_cls.lookup(fi.name) is not fi and not k.assumed):
            # a super() call: this implementation runs with a receiver of a class that overrides it.  Its contract was
            # verified only for the classes that resolve to it, so it says nothing here: execute the body instead.
            k = None
        if dispatch_cls is None and fi.kind in ("method", "property") and isinstance(recv, SV):
            vk = self.find_virtual(fi)
            if vk is not None:
                k = vk  # receiver class not pinned down: only the virtual contract is known to hold
        hook = self.hooks.get("call_function")
        if hook is not None:
            r = hook(self, fi, recv, args, kwargs, st, node)
            if r is not None:
                return r
        if k is not None and self.modular and not k.inline and not (self.verifying == fi.qualname and False):
            return self.call_contract(k, fi, recv, args, kwargs, st, node)
        return self.inline_call(fi, recv, args, kwargs, st, node, dispatch_cls)

    def inline_call(self, fi: FuncInfo, recv: Any, args: list[Any], kwargs: dict[str, Any], st: State, node: ast.AST,
                    dispatch_cls: ClassInfo | None) -> list[Res]:
        if st.depth >= MAX_INLINE_DEPTH or any(f.fi is fi for f in self.frames[-6:] if f.fi is not None and False):
            raise NeedsContract(f"inlining depth exceeded at {fi.qualname} (recursive function needs a contract)", node)
        if sum(1 for f in self.frames if f.fi is fi) >= 2:
            raise NeedsContract(f"recursive call of {fi.qualname} needs a contract", node)
        self.stats["inlined"] += 1
        env, _ = self.bind_params(fi, recv, args, kwargs, st, node)
        caller_env = st.env
        s = st.fork()
        s.env = env
        s.depth += 1
        cls = dispatch_cls or fi.cls
        self.frames.append(Frame(fi, fi.module, fi.cls))
        try:
            out: list[Res] = []
            for r in self.exec_block(fi.node.body, s):
                r.state.depth = st.depth
                if r.kind == "return":
                    out.append(Res("ok", r.value, r.state.with_env(caller_env)))
                elif r.kind == "fall":
                    out.append(Res("ok", smt.lift(None), r.state.with_env(caller_env)))
                elif r.kind == "raise":
                    out.append(r)
                else:
                    raise OutsideSubset(f"{r.kind} escaped function {fi.qualname}", node)
            return out
        finally:
            self.frames.pop()

    # ------------------------------------------------------------ contracts
    def pure_symbol(self, fi_key: str, arg_sorts: list[z3.SortRef], res_sort: z3.SortRef) -> z3.FuncDeclRef:
        key = f"{fi_key}/{','.join(map(str, arg_sorts))}->{res_sort}"
        if key not in self.pure_syms:
            short = fi_key.split(":")[-1]
            self.pure_syms[key] = z3.Function(f"F_{short}", *arg_sorts, res_sort)
        return self.pure_syms[key]

    def result_td(self, k: Contract, fi: FuncInfo) -> smt.TD:
        if k.result_td is not None:
            return k.result_td
        return self.types.td_of_annotation(fi.node.returns, fi.module)

    def call_contract(self, k: Contract, fi: FuncInfo, recv: Any, args: list[Any], kwargs: dict[str, Any], st: State,
                      node: ast.AST) -> list[Res]:
        self.stats["contract_calls"] += 1
        self.contracts_used.add(k.key)
        if k.assumed:
            self.assumed_contracts_used.add(k.key)
        env, _ = self.bind_params(fi, recv, args, kwargs, st, node)
        ctx = Ctx(self, env, "prove", st, st)
        entry_clock = self.born_clock
        ctx.entry_clock = entry_clock
        # the callee may allocate any number of objects: they get stamps in [entry_clock, exit_clock) for a fresh symbolic exit clock
        exit_clock = z3.Int(smt.fresh_name("clk"))
        self.clock_facts.append(exit_clock >= entry_clock)
        self.born_clock = exit_clock
        ctx.exit_clock = exit_clock
        for cl in k.requires:
            self.oblige(st, f"call {fi.qualname.split(':')[-1]}/pre/{cl.label}", smt.lift(cl.fn(ctx)).z, node, kind="pre")
        td = self.result_td(k, fi)
        post = st.fork()
        if k.modifies and not isinstance(recv, UnderConstruction):
            post.heap = dict(post.heap)
            for key in k.modifies:
                if key in post.heap:
                    post.heap[key] = z3.Const(smt.fresh_name(f"H_{key}"), post.heap[key].sort())
                else:
                    # not read on this path yet: a later first read must not see the initial heap
                    post.ghost["havocked_heaps"] = frozenset(post.ghost.get("havocked_heaps", frozenset())) | {key}
            post.heap_version += 1
        if isinstance(recv, UnderConstruction):
            # contract of a __post_init__: ``modifies`` names the fields it may re-bind
            for fname in k.modifies:
                cur = recv.pending(post).get(fname)
                if isinstance(cur, SV):
                    nv = cur.td.fresh("post_" + fname)
                    post.assume(*self.type_facts(nv.z, cur.td, post))
                    recv.set_pending(post, fname, nv)
        if k.attr and isinstance(recv, SV):
            assert fi.cls is not None
            res: Any = SV(td, self.types.attr_symbol(fi.cls, fi.name, td)(recv.z))
        elif k.pure and isinstance(td, smt.TTupleT):
            zs = [v.z for v in env.values() if isinstance(v, SV)]
            items = []
            for idx, itd in enumerate(td.items):
                f = self.pure_symbol(f"{k.key}#{idx}", [z.sort() for z in zs], itd.sort)
                iv = SV(itd, f(*zs))
                post.assume(*self.type_facts(iv.z, itd, post))
                items.append(iv)
            res = PyTuple(items)
        elif k.pure:
            zs = [v.z for v in env.values() if isinstance(v, SV)]
            f = k.symbol if k.symbol is not None else self.pure_symbol(k.key, [z.sort() for z in zs], td.sort)
            res = SV(td, f(*zs))
        else:
            res = td.fresh("r_" + fi.name)
            if isinstance(res, PyTuple):
                for iv in res.items:
                    post.assume(*self.type_facts(iv.z, iv.td, post))
                    if isinstance(iv.td, TSeqT):
                        post.assume(iv.td.info.len(iv.z) >= 0)
            else:
                res.fresh = k.fresh_result
        if isinstance(res, SV) and res.td in (TTagSet, TOptTagSet) and res.kind is None:
            res.kind = self.annotation_kind(("method", fi.cls, fi))  # declared ``-> frozenset[...]``: checked where the callee is verified
        # whatever the call returns exists when it returns: allocated before the exit clock
        for iv in (res.items if isinstance(res, PyTuple) else [res]):
            if isinstance(iv, SV) and isinstance(iv.td, TRefT) and not k.pure and not k.attr:
                post.assume(z3.Or(iv.z == smt.NONE, smt.born(iv.z) < exit_clock))
        if isinstance(res, SV):
            post.assume(*self.type_facts(res.z, td, post))
            if k.fresh_result and isinstance(td, TRefT):
                post.assume(smt.born(res.z) >= entry_clock, smt.born(res.z) < exit_clock)
                post.owned[res.z.get_id()] = _AllFresh()
        actx = Ctx(self, env, "assume", post, st)
        actx.entry_clock = entry_clock
        actx.exit_clock = exit_clock
        actx.result = res
        out: list[Res] = []
        # exceptional outcomes
        for exc, cond in k.may_raise.items():
            cz = smt.lift(cond(ctx)).z if cond is not None else z3.BoolVal(True)
            if self.feasible(st, cz):
                s2 = st.fork().assume(cz)
                ectx = Ctx(self, env, "assume", s2, st)
                ectx.entry_clock = entry_clock
                ectx.exit_clock = exit_clock
                ectx.exc = exc
                for cl in k.exc_ensures:
                    s2.assume(smt.lift(cl.fn(ectx)).z)
                s2.path.append(f"L{getattr(node, 'lineno', 0)}:{fi.name}:raises {exc}")
                out.append(Res("raise", None, s2, exc=exc, node=node, note=f"from contract of {fi.qualname}"))
        for lab, excs, cond in k.must_raise:
            post.assume(z3.Not(smt.lift(cond(ctx)).z))
        for cl in k.ensures:
            post.assume(smt.lift(cl.fn(actx)).z)
        if self.feasible(post):
            out.append(Res("ok", res, post))
        return out

    # ========================================================== construction
    def construct(self, ci: ClassInfo, args: list[Any], kwargs: dict[str, Any], st: State, node: ast.AST) -> list[Res]:
        if any(c.name in ("Exception", "RuntimeError") for c in ci.mro) or ci.name.endswith("Error"):
            return self.ok(ExcVal(ci.name), st)
        h = self.hooks.get("construct")
        if h is not None:
            r = h(self, ci, args, kwargs, st, node)
            if r is not None:
                return r
        if ci.is_abstract:
            raise OutsideSubset(f"instantiating abstract class {ci.name}", node)
        ref = SV(TRefT(ci), smt.fresh_const(f"new_{ci.name}", smt.Ref), fresh=True)
        st.assume(ref.z != smt.NONE, smt.typ(ref.z) == self.types.cid(ci), smt.born(ref.z) == self.born_clock)
        self.born_clock += 1
        self.set_known_class(ref, ci, st)
        if ci.is_dataclass:
            return self.construct_dataclass(ci, ref, args, kwargs, st, node)
        init = ci.lookup("__init__")
        uc = UnderConstruction(ref, ci)
        if init is not None:
            def fin(_v, s):
                return self.commit(uc, s, node)
            return self.bind(self.inline_call(init, uc, args, kwargs, st, node, ci), fin)
        return self.commit(uc, st, node)

    def construct_dataclass(self, ci: ClassInfo, ref: SV, args: list[Any], kwargs: dict[str, Any], st: State, node: ast.AST) -> list[Res]:
        fields = [f for f in ci.all_fields() if f.init]
        pos_fields = [f for f in fields if not f.kw_only]
        pending: dict[str, Any] = {}
        initvars: dict[str, Any] = {}
        if len(args) > len(pos_fields):
            raise OutsideSubset(f"too many positional args constructing {ci.name}", node)
        given: dict[str, Any] = {}
        for f, v in zip(pos_fields, args):
            given[f.name] = v
        for k, v in kwargs.items():
            if k in given:
                return self.raise_("TypeError", st, node, f"multiple values for {k}")
            given[k] = v
        results = [Res("ok", None, st)]
        for f in fields:
            if f.name in given:
                continue
            if not f.has_default:
                return self.raise_("TypeError", st, node, f"missing field {f.name}")
            owner = self.repo.cls(f.owner)
            def step(_v, s, f=f, owner=owner):
                self.frames.append(Frame(None, owner.module, owner))
                try:
                    if f.default_factory is not None:
                        def callit(fn, s2):
                            return self.call(fn, [], {}, s2, node)
                        rs = self.bind(self.ev(f.default_factory, s), callit)
                    else:
                        rs = self.ev(f.default, s)
                finally:
                    self.frames.pop()
                def rec(v, s3, f=f):
                    given[f.name] = v
                    return self.ok(None, s3)
                return self.bind(rs, rec)
            results = self.bind(results, step)

        def after_defaults(_v, s):
            for f in fields:
                owner = self.repo.cls(f.owner)
                td = self.field_td(owner, f)
                v = given[f.name]
                try:
                    v = self.to_sv(v, td, s, node) if not isinstance(v, SV) or (td != TAny) else v
                except (TypeError, OutsideSubset):
                    if td == TAny or isinstance(td, TRefT):
                        v = self.to_sv(v, TAny, s, node) if not isinstance(v, SV) else v
                    else:
                        raise
                if isinstance(v, SV) and isinstance(td, TRefT) and td.cls is not None and isinstance(v.td, TRefT) and v.td.cls is None:
                    v = SV(td, v.z, v.fresh)
                if f.initvar:
                    initvars[f.name] = v
                else:
                    pending[f.name] = v
            uc = UnderConstruction(ref, ci)
            for _n, _v in pending.items():
                uc.set_pending(s, _n, _v)
            post = ci.lookup("__post_init__")
            if post is not None:
                iv = [initvars[n] for n in [x.arg for x in post.node.args.args[1:]] if n in initvars]
                pk = self.find_contract(post, ci)
                if pk is not None and self.modular and not pk.inline:
                    return self.bind(self.call_contract(pk, post, uc, iv, {}, s, node), lambda _r, s2: self.commit(uc, s2, node))
                return self.bind(self.inline_call(post, uc, iv, {}, s, node, ci), lambda _r, s2: self.commit(uc, s2, node))
            return self.commit(uc, s, node)

        return self.bind(results, after_defaults)

    def commit(self, uc: UnderConstruction, st: State, node: ast.AST) -> list[Res]:
        ci, ref = uc.cls, uc.ref
        own: dict[str, bool] = {}
        for name, v in list(uc.pending(st).items()):
            decl = self.types.attr_decl(ci, name)
            if decl is not None and decl[0] == "field":
                owner = decl[1]
                td = self.field_td(owner, decl[2])
                heap = self.is_heap_attr(owner, name, "field", owner)
            else:
                owner = ci
                td = v.td if isinstance(v, SV) else TAny
                heap = True
            if not isinstance(v, SV):
                v = self.to_sv(v, td, st, node)
            own[name] = bool(v.fresh)
            try:
                v = smt.coerce_to(v, td)
            except TypeError:
                raise OutsideSubset(f"field {ci.name}.{name}: cannot store {v.td} as {td}", node)
            if heap:
                key = self.heap_key(owner, name)
                arr = self.heap_array(st, key, td.sort)
                st.heap = dict(st.heap)
                st.heap[key] = z3.Store(arr, ref.z, v.z)
            else:
                st.assume(self.types.attr_symbol(owner, name, td)(ref.z) == v.z)
            if isinstance(td, TRefT):
                st.assume(smt.born(v.z) <= smt.born(ref.z))
        st.owned[ref.z.get_id()] = own
        # hashability at the value level (C09): a field declared ``frozenset[...]`` must be given a frozenset, not a set
        # (dataclasses do not convert; a set there makes the object -- and every tree containing it -- unhashable)
        if ci.is_dataclass and ci.dc_frozen and ci.dc_eq:
            for f in ci.all_fields():
                if f.initvar or not f.compare:
                    continue
                if self.annotation_kind(("field", None, f)) != "frozen":
                    continue
                v = uc.pending(st).get(f.name)
                if isinstance(v, SV) and v.td in (TTagSet, TOptTagSet):
                    okk = z3.BoolVal(v.kind == "frozen")
                    if v.td == TOptTagSet:
                        okk = z3.Or(smt.OptTagSet.is_ots_none(v.z), okk)
                    self.oblige(st, f"construct {ci.name}/field-{f.name}-holds-a-frozenset", okk, node, kind="frozen-field")
        # construction-site obligations (class invariants) registered by contracts
        for c in ci.mro:
            for cl in self.reg.constructor_hooks.get(c.name, []):
                ctx = Ctx(self, {"self": ref}, "prove", st, st)
                self.oblige(st, f"construct {ci.name}/{cl.label}", smt.lift(cl.fn(ctx)).z, node, kind="construct")
        pending_inv: list[z3.BoolRef] = []
        for c in ci.mro:
            for cl in self.reg.object_invariants.get(c.name, []):
                if getattr(cl, "assumed_only", False):
                    continue
                ctx = Ctx(self, {"self": ref}, "prove", st, st)
                invz = smt.lift(cl.fn(ctx, ref)).z
                self.oblige(st, f"construct {ci.name}/inv/{cl.label}", invz, node, kind="construct")
                pending_inv.append(invz)
        # each invariant has just been emitted as a proof obligation of this construction site; from here on it
        # may be used (sequential reasoning)
        st.assume(*pending_inv)
        for _ in ():
            for __ in ():
                pass
        h = self.hooks.get("constructed")
        if h is not None:
            h(self, ref, ci, st, node)
        return self.ok(ref, st)

    # ============================================================== builtins
    def call_builtin(self, name: str, args: list[Any], kwargs: dict[str, Any], st: State, node: ast.AST) -> list[Res]:
        h = self.hooks.get("builtin")
        if h is not None:
            r = h(self, name, args, kwargs, st, node)
            if r is not None:
                return r
        if name.startswith("exc:"):
            return self.ok(ExcVal(name[4:]), st)
        if name in ("min", "max") and len(args) == 2:
            def g(x, s1):
                def hh(y, s2):
                    z = smt.zmin(x.z, y.z) if name == "min" else smt.zmax(x.z, y.z)
                    return self.ok(SV(TInt, z), s2)
                return self.bind(self.need_int(args[1], s1, node), hh)
            return self.bind(self.need_int(args[0], st, node), g)
        if name == "len":
            v = args[0]
            if isinstance(v, (PyTuple, PyList)):
                return self.ok(smt.lift(len(v.items)), st)
            if isinstance(v, PyDict) and _const_keys(v):
                return self.ok(smt.lift(len(v.keys)), st)
            if isinstance(v, SV) and isinstance(v.td, TSeqT):
                return self.ok(SV(TInt, v.td.info.len(v.z)), st)
        if name == "isinstance":
            v, c = args
            classes = c.items if isinstance(c, PyTuple) else [c]
            if isinstance(v, SV) and isinstance(v.td, TRefT) and all(isinstance(x, ClassVal) for x in classes):
                hi = self.hooks.get("isinstance")
                zs = []
                for x in classes:
                    z = hi(self, v, x.cls, st) if hi is not None else None
                    if z is None:
                        if v.td.cls is None:
                            raise OutsideSubset("isinstance on an untyped value", node)
                        z = z3.And(v.z != smt.NONE, self.types.is_instance_z(v.z, x.cls))
                    zs.append(z)
                return self.ok(SV(TBool, z3.Or(*zs)), st)
            if isinstance(v, SV) and not isinstance(v.td, TRefT) and all(isinstance(x, (ClassVal, Builtin)) for x in classes):
                names = {x.name if isinstance(x, Builtin) else x.cls.name for x in classes}
                tdn = {TInt: "int", TBool: "bool", TStr: "str"}.get(v.td)
                return self.ok(smt.lift(tdn in names), st)
        if name == "tagset.isdisjoint" and len(args) == 2 and all(isinstance(x, SV) and x.td == TTagSet for x in args):
            return self.ok(SV(TBool, z3.SetIntersect(args[0].z, args[1].z) == smt.EMPTY_TAGS), st)
        if name in ("set", "frozenset"):
            knd = "frozen" if name == "frozenset" else "mutable"
            if not args:
                return self.ok(SV(TTagSet, smt.EMPTY_TAGS, fresh=True, kind=knd), st)
            v = args[0]
            if isinstance(v, SV) and v.td == TTagSet:
                return self.ok(SV(TTagSet, v.z, fresh=True, kind=knd), st)
            if isinstance(v, (PyTuple, PyList)) and all(isinstance(x, SV) and x.td == TTag for x in v.items):
                z = smt.EMPTY_TAGS
                for x in v.items:
                    z = z3.SetAdd(z, x.z)
                return self.ok(SV(TTagSet, z, True, kind=knd), st)
        if name in ("tuple", "list"):
            if not args:
                return self.ok(PyTuple([]) if name == "tuple" else PyList([], True), st)
            v = args[0]
            if isinstance(v, (PyTuple, PyList)):
                return self.ok(PyTuple(list(v.items)) if name == "tuple" else PyList(list(v.items), True), st)
            if isinstance(v, SV) and isinstance(v.td, TSeqT):
                return self.ok(SV(v.td, v.z, fresh=True), st)
            if isinstance(v, SV) and v.td == TFlat:
                return self.ok(SV(TSeqT(TRefT(None)), Flat.flat_val(v.z), fresh=True), st)
            if isinstance(v, Closure) and isinstance(v.node, ast.GeneratorExp):
                lc = ast.ListComp(elt=v.node.elt, generators=v.node.generators)
                ast.copy_location(lc, v.node)
                s2 = st.fork()
                s2.env = dict(v.env)
                rs = self.comprehension(lc, s2, "list")
                def back(x, s3):
                    if name == "tuple" and isinstance(x, PyList):
                        x = PyTuple(x.items)
                    return self.ok(x, s3.with_env(st.env))
                return self.bind(rs, back)
        if name in ("all", "any"):
            return self.quantified(name, args[0], st, node)
        if name == "bool":
            return self.ok(SV(TBool, self.truth(args[0], st, node)), st)
        if name == "cast":
            return self.ok(args[1], st)
        if name == "str" or name == "repr":
            return self.ok(TStr.fresh("str"), st)
        if name == "getattr" and len(args) >= 2 and isinstance(args[1], SV) and z3.is_string_value(args[1].z):
            return self.getattr_val(args[0], args[1].z.as_string(), st, node)
        if name == "object.__setattr__" or name == "setattr":
            obj, an, val = args
            self.store_attr(obj, _const_str(an), val, st, node, via_setattr=True)
            return self.ok(smt.lift(None), st)
        if name == "dataclasses.replace":
            return self.dc_replace(args[0], kwargs, st, node)
        if name == "type":
            v = args[0]
            if isinstance(v, SV) and isinstance(v.td, TRefT):
                k = self.known_class(v, st)
                if k is not None:
                    return self.ok(ClassVal(k), st)
                return self.ok(SV(TInt, smt.typ(v.z)), st)
        if name == "dict":
            if not args:
                return self.ok(PyDict([], [], True), st)
        if name == "id":
            return self.ok(TInt.fresh("id"), st)
        if name == "any.get" and len(args) in (2, 3) and isinstance(args[0], SV) and isinstance(node, ast.Call):
            vtd = self.mapping_value_td(node)
            if vtd is not None:
                # a mapping handed in by the caller: ``get`` yields the default, or some value the mapping already holds --
                # an object that exists already (not allocated by this call), about which nothing else is known
                default = args[2] if len(args) > 2 else smt.lift(None)
                got = vtd.fresh("got")
                got.fresh = False
                s1 = st.fork()
                s1.assume(*self.type_facts(got.z, vtd, s1))
                if isinstance(vtd, TRefT):
                    s1.assume(got.z != smt.NONE, smt.born(got.z) < self.born_clock)
                return [Res("ok", got, s1), Res("ok", default, st)]
        if name in ("PyDict.get", "PyDict.items"):
            d = args[0]
            if name == "PyDict.items" and not _const_keys(d):
                raise OutsideSubset("items() of a dict with symbolic keys", node)
            if name == "PyDict.get":
                default = args[2] if len(args) > 2 else smt.lift(None)
                if not d.keys:
                    return self.ok(default, st)
                if _const_keys(d):
                    key = _const_str(args[1])
                    for kk, vv in zip(d.keys, d.values):
                        if _const_str(kk) == key:
                            return self.ok(vv, st)
                    return self.ok(default, st)
                # symbolic keys (e.g. id(x)): one path per entry the key may equal (latest entry first), one for "absent"
                out: list[Res] = []
                rest = st
                for kk, vv in reversed(list(zip(d.keys, d.values))):
                    eq = self.equals(args[1], kk, rest, node)
                    if self.feasible(rest, eq):
                        out.append(Res("ok", vv, rest.fork().assume(eq)))
                    rest = rest.fork().assume(z3.Not(eq))
                if self.feasible(rest, z3.BoolVal(True)):
                    out.append(Res("ok", default, rest))
                return out
            return self.ok(PyList([PyTuple([k, v]) for k, v in zip(d.keys, d.values)], True), st)
        if name == "PyList.copy" or name == "PyTuple.copy":
            return self.ok(PyList(list(args[0].items), True), st)
        raise OutsideSubset(f"builtin {name}({', '.join(type(a).__name__ for a in args)})", node)

    def quantified(self, name: str, gen: Any, st: State, node: ast.AST) -> list[Res]:
        if isinstance(gen, (PyTuple, PyList)):
            zs = [self.truth(x, st, node) for x in gen.items]
            z = (z3.And(*zs) if zs else z3.BoolVal(True)) if name == "all" else (z3.Or(*zs) if zs else z3.BoolVal(False))
            return self.ok(SV(TBool, z), st)
        if not (isinstance(gen, Closure) and isinstance(gen.node, ast.GeneratorExp)):
            raise OutsideSubset(f"{name}() of {gen!r}", node)
        g = gen.node
        if len(g.generators) != 1 or g.generators[0].ifs:
            raise OutsideSubset(f"{name}() over a filtered/nested generator", node)
        comp = g.generators[0]
        s0 = st.fork()
        s0.env = dict(gen.env)
        rs = self.ev(comp.iter, s0)
        if len(rs) != 1 or rs[0].kind != "ok":
            raise OutsideSubset("generator source forks", node)
        it = rs[0].value
        if isinstance(it, (PyTuple, PyList)):
            zs = []
            for item in it.items:
                s1 = s0.fork()
                s1.env = dict(s1.env)
                self.assign_target(comp.target, item, s1, node)
                r1 = self.ev(g.elt, s1)
                if len(r1) != 1 or r1[0].kind != "ok":
                    raise OutsideSubset("generator body forks", node)
                zs.append(self.truth(r1[0].value, r1[0].state, node))
            z = (z3.And(*zs) if zs else z3.BoolVal(True)) if name == "all" else (z3.Or(*zs) if zs else z3.BoolVal(False))
            return self.ok(SV(TBool, z), st)
        if isinstance(it, SV) and isinstance(it.td, TSeqT):
            info = it.td.info
            i = z3.Int(smt.fresh_name("qi"))
            s1 = s0.fork()
            s1.env = dict(s1.env)
            base_n = len(s1.pc)
            elem = self.seq_elem(it, i, s1)
            self.assign_target(comp.target, elem, s1, node)
            r1 = self.ev(g.elt, s1)
            r1 = self.merge_pure(r1, s1) if len(r1) > 1 else r1
            if len(r1) != 1 or r1[0].kind != "ok":
                raise OutsideSubset("generator body forks or may raise", node)
            body = self.truth(r1[0].value, r1[0].state, node)
            side = r1[0].state.pc[base_n:]
            rng = z3.And(0 <= i, i < info.len(it.z))
            if side:
                st.assume(z3.ForAll([i], z3.Implies(rng, z3.And(*side)), patterns=[info.at(it.z, i)]))
            if name == "all":
                z = z3.ForAll([i], z3.Implies(rng, body), patterns=[info.at(it.z, i)])
            else:
                z = z3.Exists([i], z3.And(rng, body))
            return self.ok(SV(TBool, z), st)
        if isinstance(it, SV) and it.td == TTagSet and isinstance(comp.target, ast.Name):
            # any(f(t) for t in S) / all(...) over a set of column tags: a bounded quantifier over its members
            t = z3.Const(smt.fresh_name("qt"), smt.Tag)
            s1 = s0.fork()
            s1.env = dict(s1.env)
            base_n = len(s1.pc)
            s1.env[comp.target.id] = SV(TTag, t)
            r1 = self.ev(g.elt, s1)
            r1 = self.merge_pure(r1, s1) if len(r1) > 1 else r1
            if len(r1) != 1 or r1[0].kind != "ok" or r1[0].state.pc[base_n:]:
                raise OutsideSubset("generator body over a tag set forks, may raise or has side facts", node)
            body = self.truth(r1[0].value, r1[0].state, node)
            mem = z3.IsMember(t, it.z)
            z = z3.ForAll([t], z3.Implies(mem, body), patterns=[mem]) if name == "all" else z3.Exists([t], z3.And(mem, body))
            return self.ok(SV(TBool, z), st)
        raise OutsideSubset(f"{name}() over {it!r}", node)

    def dc_replace(self, obj: Any, changes: dict[str, Any], st: State, node: ast.AST) -> list[Res]:
        if not (isinstance(obj, SV) and isinstance(obj.td, TRefT) and obj.td.cls is not None):
            raise OutsideSubset(f"dataclasses.replace on {obj!r}", node)
        out: list[Res] = []
        cands = self.candidates(obj, st)
        for ci in cands:
            cond = smt.typ(obj.z) == self.types.cid(ci)
            if not self.feasible(st, cond):
                continue
            s = st.fork().assume(cond) if len(cands) > 1 else st
            if len(cands) > 1:
                s.path.append(f"L{getattr(node, 'lineno', 0)}:replace@{ci.name}")
            o2 = SV(TRefT(ci), obj.z, obj.fresh)
            self.set_known_class(o2, ci, s)
            kwargs: dict[str, Any] = {}
            results = [Res("ok", None, s)]
            for f in ci.all_fields():
                if not f.init or f.initvar:
                    continue
                if f.name in changes:
                    kwargs[f.name] = changes[f.name]
                    continue
                def step(_v, s1, f=f):
                    def rec(v, s2):
                        kwargs[f.name] = v
                        return self.ok(None, s2)
                    return self.bind(self.getattr_val(o2, f.name, s1, node), rec)
                results = self.bind(results, step)
            out.extend(self.bind(results, lambda _v, s3: self.construct(ci, [], dict(kwargs), s3, node)))
        return out


class _AllFresh(dict):
    """Ownership record of an object whose contract says it is deeply fresh."""

    def get(self, k, d=None):  # type: ignore[override]
        return True


class _EnvView:
    def __init__(self, env: dict[str, Any]):
        self._env = env

    def __getattr__(self, n: str) -> Any:
        try:
            return self._env[n]
        except KeyError:
            raise AttributeError(n)

    def __contains__(self, n: str) -> bool:
        return n in self._env


def _rel(ex: Executor, ci: ClassInfo) -> ClassInfo:
    return ex.types.relation_root if ci.name == "Relation" else ci


def _const_keys(d: PyDict) -> bool:
    """Keys are constant strings (entries are then known to be distinct)."""
    return all(isinstance(kk, str) or (isinstance(kk, SV) and z3.is_string_value(kk.z)) for kk in d.keys)


def _const_str(v: Any) -> str:
    if isinstance(v, str):
        return v
    if isinstance(v, SV) and z3.is_string_value(v.z):
        return v.z.as_string()
    raise OutsideSubset(f"expected a constant string, got {v!r}")


def _as_load(t: ast.expr) -> ast.expr:
    n = ast.parse(ast.unparse(t), mode="eval").body
    ast.copy_location(n, t)
    for x in ast.walk(n):
        if not hasattr(x, "lineno"):
            ast.copy_location(x, t)
    return n


def _as_store(t: ast.expr) -> ast.expr:
    return t


def _assigned_names(stmts: list[ast.stmt]) -> set[str]:
    out: set[str] = set()
    for s in stmts:
        for n in ast.walk(s):
            if isinstance(n, ast.Name) and isinstance(n.ctx, ast.Store):
                out.add(n.id)
            elif isinstance(n, ast.NamedExpr):
                out.add(n.target.id)
    return out


def _mutated_names(stmts: list[ast.stmt]) -> set[str]:
    out: set[str] = set()
    for s in stmts:
        for n in ast.walk(s):
            if isinstance(n, ast.Call) and isinstance(n.func, ast.Attribute) and n.func.attr in MUTATORS:
                if isinstance(n.func.value, ast.Name):
                    out.add(n.func.value.id)
            if isinstance(n, ast.AugAssign) and isinstance(n.target, ast.Name):
                out.add(n.target.id)
    return out
