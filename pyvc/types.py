"""Annotation -> type descriptor, class ids, attribute symbols."""
from __future__ import annotations

import ast

import z3

from . import smt
from .frontend import ClassInfo, Repo
from .smt import TD, TAny, TBool, TInt, TOptInt, TOptTagSet, TRange, TRefT, TSeqT, TStr, TTag, TTagSet, TTri


class OutsideSubset(Exception):
    """The code uses something the executor does not model: a checker limitation, never a verdict."""

    def __init__(self, msg: str, node: ast.AST | None = None):
        self.node = node
        loc = f" (line {getattr(node, 'lineno', '?')})" if node is not None else ""
        super().__init__(msg + loc)


class NeedsContract(OutsideSubset):
    pass


class TCallableT(TD):
    """Opaque callable / foreign object stored as a Ref."""

    sort = smt.Ref
    name = "callable"

    def truthy(self, sv):
        return sv.z != smt.NONE


TCallable = TCallableT()


class TypeTable:
    """Class ids, hierarchy roots, attribute symbols — all derived from the parsed sources."""

    def __init__(self, repo: Repo):
        self.repo = repo
        classes = sorted(repo.all_classes(), key=lambda c: c.qname)
        for c in classes:
            c._subclasses_cache = [x for x in classes if c in x.mro and x is not c]  # type: ignore[attr-defined]
        self.class_id: dict[str, int] = {c.qname: i + 1 for i, c in enumerate(classes)}
        self.id_class: dict[int, ClassInfo] = {i + 1: c for i, c in enumerate(classes)}
        self.NONE_ID = 0
        self.attr_syms: dict[tuple[str, str], tuple[z3.FuncDeclRef, TD]] = {}
        self.relation_root = repo.cls("BaseRelation")
        self._mutated_attrs: set[str] | None = None

    # ------------------------------------------------------------ hierarchy
    def root_of(self, ci: ClassInfo) -> ClassInfo:
        return ci.mro[-1]

    def cid(self, ci: ClassInfo) -> int:
        return self.class_id[ci.qname]

    def concrete_subclasses(self, ci: ClassInfo | None) -> list[ClassInfo]:
        if ci is None:
            return []
        if ci.name == "Relation":
            ci = self.relation_root
        return self.repo.subclasses(ci, concrete_only=True)

    def is_instance_z(self, z: z3.ExprRef, ci: ClassInfo) -> z3.BoolRef:
        subs = self.concrete_subclasses(ci)
        if not subs:
            return z3.BoolVal(False)
        return z3.Or(*[smt.typ(z) == self.cid(c) for c in subs])

    def typing_fact(self, z: z3.ExprRef, td: TD) -> list[z3.BoolRef]:
        if isinstance(td, TRefT) and td.cls is not None:
            inst = self.is_instance_z(z, td.cls)
            if td.nullable:
                return [z3.Or(z == smt.NONE, z3.And(z != smt.NONE, inst))]
            return [z != smt.NONE, inst]
        return []

    # ---------------------------------------------------------- annotations
    def td_of_annotation(self, ann: ast.expr | None, module: str) -> TD:
        if ann is None:
            return TAny
        if isinstance(ann, ast.Constant) and isinstance(ann.value, str):
            ann = ast.parse(ann.value, mode="eval").body
        if isinstance(ann, ast.Constant) and ann.value is None:
            return TAny
        s = ast.unparse(ann)
        if isinstance(ann, ast.BinOp) and isinstance(ann.op, ast.BitOr):
            parts = self._union_parts(ann)
            non_none = [p for p in parts if not (isinstance(p, ast.Constant) and p.value is None)]
            has_none = len(non_none) != len(parts)
            if len(non_none) == 1:
                inner = self.td_of_annotation(non_none[0], module)
                if not has_none:
                    return inner
                if inner == TInt:
                    return TOptInt
                if inner == TBool:
                    return TTri
                if inner == TTagSet:
                    return TOptTagSet
                if isinstance(inner, TRefT):
                    return TRefT(inner.cls, True)
                if inner == smt.TStr:
                    return TOptStr
                return TAny
            if s.replace(" ", "") in ("list[Predicate]|Literal[False]",):
                return TFlat
            tds = {repr(self.td_of_annotation(p, module)) for p in non_none}
            if len(tds) == 1:
                return self.td_of_annotation(non_none[0], module)
            return TAny
        if isinstance(ann, ast.Name):
            n = ann.id
            if n == "int":
                return TInt
            if n == "bool":
                return TBool
            if n == "str":
                return TStr
            if n == "range":
                return TRange
            if n == "ColumnTag":
                return TTag
            if n in ("Any", "_F", "_L", "type", "Hashable", "tuple", "object", "_M"):
                return TAny
            if n == "Relation":
                return TRefT(self.relation_root)
            r = self.repo.resolve(module, n)
            if isinstance(r, ClassInfo):
                return TRefT(r)
            return TAny
        if isinstance(ann, ast.Attribute):
            return TAny
        if isinstance(ann, ast.Subscript):
            base = ast.unparse(ann.value)
            arg = ann.slice
            if base in ("frozenset", "Set", "set", "AbstractSet"):
                a = self.td_of_annotation(arg, module)
                if a == TTag:
                    return TTagSet
                return TAny
            if base == "Literal":
                if isinstance(arg, ast.Constant) and isinstance(arg.value, bool):
                    return TBool
                return TAny
            if base in ("tuple",):
                if isinstance(arg, ast.Tuple) and len(arg.elts) == 2 and isinstance(arg.elts[1], ast.Constant) and arg.elts[1].value is Ellipsis:
                    return TSeqT(self.td_of_annotation(arg.elts[0], module))
                if isinstance(arg, ast.Tuple):
                    return smt.TTupleT([self.td_of_annotation(e, module) for e in arg.elts])
                return TAny
            if base in ("Sequence", "list", "Iterable"):
                return TSeqT(self.td_of_annotation(arg, module))
            if base in ("type", "Callable", "dict", "Mapping", "Iterator", "Container"):
                return TAny
            if base in ("dataclasses.InitVar",):
                return self.td_of_annotation(arg, module)
            r = self.repo.resolve(module, base) if base.isidentifier() else None
            if isinstance(r, ClassInfo):
                return TRefT(r)
            return TAny
        return TAny

    def _union_parts(self, ann: ast.expr) -> list[ast.expr]:
        if isinstance(ann, ast.BinOp) and isinstance(ann.op, ast.BitOr):
            return self._union_parts(ann.left) + self._union_parts(ann.right)
        return [ann]

    # ------------------------------------------------------ attribute symbols
    def attr_decl(self, ci: ClassInfo, attr: str):
        """Find the declaration of ``attr`` visible on ``ci`` or, for abstract static types, on subclasses.

        Returns (kind, owner ClassInfo, FieldInfo|FuncInfo) or None.
        """
        for c in ci.mro:
            if c.is_dataclass:
                for f in c.own_fields:
                    if f.name == attr:
                        return ("field", c, f)
            if attr in c.methods:
                return (c.methods[attr].kind, c, c.methods[attr])
            if attr in c.classvars:
                return ("classvar", c, c.classvars[attr])
        return None

    def attr_symbol(self, ci: ClassInfo, attr: str, td: TD) -> z3.FuncDeclRef:
        root = self.root_of(ci)
        key = (root.qname, attr)
        if key in self.attr_syms:
            f, otd = self.attr_syms[key]
            if otd.sort == td.sort:
                return f
            key = (ci.qname, attr)
            if key in self.attr_syms:
                return self.attr_syms[key][0]
        f = z3.Function(f"{key[0].rsplit('.', 1)[-1]}.{attr}", smt.Ref, td.sort)
        self.attr_syms[key] = (f, td)
        return f

    def mutated_attrs(self) -> set[str]:
        """Attribute names assigned anywhere outside constructors: these live in the heap."""
        if self._mutated_attrs is None:
            out: set[str] = set()
            for fi in self.repo.all_functions():
                in_ctor = fi.name in ("__init__",)
                for n in ast.walk(fi.node):
                    targets: list[ast.expr] = []
                    if isinstance(n, ast.Assign):
                        targets = n.targets
                    elif isinstance(n, (ast.AugAssign, ast.AnnAssign)):
                        targets = [n.target]
                    for t in targets:
                        for sub in ast.walk(t):
                            if isinstance(sub, ast.Attribute) and isinstance(sub.ctx, ast.Store):
                                if in_ctor and isinstance(sub.value, ast.Name) and sub.value.id == "self":
                                    continue
                                out.add(sub.attr)
                    if isinstance(n, ast.Call) and isinstance(n.func, ast.Attribute) and isinstance(n.func.value, ast.Attribute) \
                            and n.func.attr in ("append", "extend", "update", "add", "pop", "clear", "sort", "insert", "remove", "setdefault"):
                        out.add(n.func.value.attr)
                    if isinstance(n, (ast.Assign, ast.AugAssign)):
                        for t in (n.targets if isinstance(n, ast.Assign) else [n.target]):
                            if isinstance(t, ast.Subscript) and isinstance(t.value, ast.Attribute):
                                out.add(t.value.attr)
                    if isinstance(n, ast.Call) and ast.unparse(n.func) in ("object.__setattr__", "setattr"):
                        if len(n.args) >= 2 and isinstance(n.args[1], ast.Constant):
                            if fi.name != "__post_init__":
                                out.add(n.args[1].value)
            self._mutated_attrs = out
        return self._mutated_attrs


# Extra descriptors that need sorts defined here -------------------------------------
_OptStr = z3.Datatype("OptStr")
_OptStr.declare("os_none")
_OptStr.declare("os_some", ("os_val", smt.StrS))
OptStr = _OptStr.create()


class TOptStrT(TD):
    sort = OptStr
    name = "str|None"

    def truthy(self, sv):
        return z3.And(OptStr.is_os_some(sv.z), z3.Length(OptStr.os_val(sv.z)) > 0)


TOptStr = TOptStrT()

# list[Predicate] | Literal[False]  (flatten_logical_and)
_PredSeq = TSeqT(TRefT(None))
_Flat = z3.Datatype("FlatResult")
_Flat.declare("flat_false")
_Flat.declare("flat_list", ("flat_val", _PredSeq.sort))
Flat = _Flat.create()


class TFlatT(TD):
    sort = Flat
    name = "list|False"

    def truthy(self, sv):
        return z3.And(Flat.is_flat_list(sv.z), _PredSeq.info.len(Flat.flat_val(sv.z)) > 0)


TFlat = TFlatT()
