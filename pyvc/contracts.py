"""Sidecar contract registry.

A contract names a real function of /repo ("module:Class.method", module relative to
lsst.daf.relation) and gives requires / ensures / exceptional postconditions / loop
invariants as Python callables over symbolic values.  Nothing here touches /repo.
"""
from __future__ import annotations

import dataclasses
from typing import Any, Callable

import z3

from . import smt
from .smt import SV, TD


@dataclasses.dataclass
class Clause:
    label: str
    fn: Callable[["Ctx"], Any]
    # intermediate assertions: each is first proved as its own obligation, then available to the main goal
    hints: Callable[["Ctx"], list] | None = None
    # instances of laws of spec/laws.py (built with spec.laws.instance): available to the goal without proof --
    # their status is that of the law (listed in the evidence)
    lemmas: Callable[["Ctx"], list] | None = None


@dataclasses.dataclass
class Contract:
    key: str
    virtual: bool = False  # applies to (and must be proved for) every override in subclasses
    pure: bool = False  # call result is the application of an uninterpreted function of the arguments
    attr: bool = False  # pure property whose function symbol is the attribute symbol itself
    inline: bool = False  # call sites inline the body instead of using the contract
    requires: list[Clause] = dataclasses.field(default_factory=list)
    ensures: list[Clause] = dataclasses.field(default_factory=list)
    # exception name -> condition under which raising it is allowed (None = always allowed)
    may_raise: dict[str, Callable[["Ctx"], Any] | None] = dataclasses.field(default_factory=dict)
    # (label, exception names, condition): under the condition the call MUST raise one of the names
    must_raise: list[tuple[str, tuple[str, ...], Callable[["Ctx"], Any]]] = dataclasses.field(default_factory=list)
    # postconditions of exceptional exits (checked on every raise outcome; ctx.exc is the class name)
    exc_ensures: list[Clause] = dataclasses.field(default_factory=list)
    invariants: dict[int, Callable[..., Any]] = dataclasses.field(default_factory=dict)
    result_td: TD | None = None
    fresh_result: bool = False  # the returned object (and the containers it holds) is allocated by the call
    modifies: tuple[str, ...] = ()  # heap attributes the call may write
    properties: tuple[str, ...] = ()  # property ids this contract serves
    self_classes: tuple[str, ...] | None = None  # restrict verification to these receiver classes
    assumed: bool = False  # trusted: used at call sites, body not verified (listed in evidence)
    note: str = ""
    setup: Callable[["Ctx"], None] | None = None  # run once per verification to add ghost state
    # case split of every postcondition obligation: fn(ctx) -> list of (cell name, z3 condition)
    split: Callable[["Ctx"], list] | None = None
    split_all: bool = False
    # overriding implementations (key prefixes) that are NOT verified against this virtual contract by this check:
    # callers still assume the contract for them, so they are listed as assumptions in the evidence
    unverified_impls: tuple[str, ...] = ()  # also split the obligations generated inside the body (callee preconditions, ...)
    symbol: Any = None  # pure contracts: the spec function the call denotes (z3 FuncDecl over the SV arguments)

    # -- fluent API used by the sidecar files
    def req(self, label: str, fn: Callable[["Ctx"], Any]) -> "Contract":
        self.requires.append(Clause(label, fn))
        return self

    def ens(self, label: str, fn: Callable[["Ctx"], Any], hints: Callable[["Ctx"], list] | None = None,
            lemmas: Callable[["Ctx"], list] | None = None) -> "Contract":
        self.ensures.append(Clause(label, fn, hints, lemmas))
        return self

    def exc_ens(self, label: str, fn: Callable[["Ctx"], Any]) -> "Contract":
        self.exc_ensures.append(Clause(label, fn))
        return self

    def raises(self, exc: str, when: Callable[["Ctx"], Any] | None = None) -> "Contract":
        self.may_raise[exc] = when
        return self

    def must(self, label: str, excs: str | tuple[str, ...], when: Callable[["Ctx"], Any]) -> "Contract":
        self.must_raise.append((label, (excs,) if isinstance(excs, str) else tuple(excs), when))
        return self

    def inv(self, ordinal: int, fn: Callable[..., Any]) -> "Contract":
        self.invariants[ordinal] = fn
        return self


class Ctx:
    """What a contract clause sees: arguments, result, heaps, quantifier helper, spec access."""

    def __init__(self, ex: Any, args: dict[str, Any], mode: str, state: Any, old_state: Any = None):
        self.ex = ex
        self.args = args
        self.mode = mode  # 'prove' | 'assume'
        self.state = state
        self.old = old_state if old_state is not None else state
        self.result: Any = None
        self.exc: str | None = None
        self.ghost: dict[str, Any] = {}
        self.entry_clock: Any = 1  # allocation stamp at call entry: objects with born < entry_clock existed before the call
        self._exit_clock: Any = None  # set at call sites; in prove mode the executor's current stamp

    def __getattr__(self, name: str) -> Any:
        args = self.__dict__.get("args", {})
        if name in args:
            return args[name]
        if name == "self_" and "self" in args:
            return args["self"]
        raise AttributeError(name)

    @property
    def exit_clock(self) -> Any:
        """Allocation stamp at call exit: every object the call allocated has entry_clock <= born < exit_clock."""
        return self._exit_clock if self._exit_clock is not None else self.ex.born_clock

    @exit_clock.setter
    def exit_clock(self, v: Any) -> None:
        self._exit_clock = v

    def pre_existing(self, z: Any) -> Any:
        """The object existed when the call was entered (allocation stamps are global and increasing)."""
        return smt.born(z) < self.entry_clock

    def allocated_by_call(self, z: Any) -> Any:
        """The object was allocated during the call."""
        import z3 as _z3

        return _z3.And(smt.born(z) >= self.entry_clock, smt.born(z) < self.exit_clock)

    def arg(self, name: str) -> Any:
        return self.args[name]

    def field(self, name: str, old: bool = False) -> Any:
        """Field of the object under construction (contracts of __post_init__)."""
        uc = self.args["self"]
        return uc.pending(self.old if old else self.state)[name]

    def attr(self, obj: SV, name: str, old: bool = False) -> SV:
        return self.ex.spec_attr(obj, name, self.old if old else self.state)

    def forall(self, tds: list[tuple[TD, str]], body: Callable[..., Any], patterns: Callable[..., list] | None = None) -> SV:
        """Universally quantified ghost variables: skolem constants when proving, ForAll when assuming."""
        if self.mode == "prove":
            memo = self.ex.__dict__.setdefault("ghost_consts", {})
            vs = []
            for td, n in tds:
                key = (n, str(td.sort))
                if key not in memo:
                    memo[key] = SV(td, z3.Const("g_" + n, td.sort))
                vs.append(memo[key])
            return smt.lift(body(*vs))
        vs = [SV(td, z3.Const(smt.fresh_name("q_" + n), td.sort)) for td, n in tds]
        b = smt.lift(body(*vs)).z
        pats = [p.z if isinstance(p, SV) else p for p in patterns(*vs)] if patterns else []
        return SV(smt.TBool, z3.ForAll([v.z for v in vs], b, patterns=pats) if pats else z3.ForAll([v.z for v in vs], b))


class Registry:
    def __init__(self) -> None:
        self.contracts: dict[str, Contract] = {}
        self.constructor_hooks: dict[str, list[Clause]] = {}  # class name -> obligations at each construction site
        self.constructor_facts: dict[str, list[Clause]] = {}
        # class name -> invariants every existing object of that class satisfies (assumed when an object is
        # read, proved at every construction site)
        self.object_invariants: dict[str, list[Clause]] = {}
        self.replay: dict[str, Callable] = {}
        self.witness_classes: dict[str, Callable] = {}
        self.modules_loaded: set[str] = set()
        self.exec_hooks: dict[str, list[Callable]] = {}  # executor hooks contributed by contract modules
        self.global_axioms: list[Callable] = []  # fn(ex) -> list of z3 axioms (definitions of pure attributes)
        self.lemmas: dict[str, Callable] = {}  # spec-level lemma obligations: name -> fn(ex) -> (hyps, goal)

    def add_hook(self, name: str, fn: Callable) -> None:
        """Contribute an executor hook; hooks of one name are tried in order until one returns non-None."""
        lst = self.exec_hooks.setdefault(name, [])
        if fn not in lst:
            lst.append(fn)

    def load(self, *modules: str) -> "Registry":
        """Load sidecar contract modules (idempotent)."""
        import importlib

        for m in modules:
            if m in self.modules_loaded:
                continue
            self.modules_loaded.add(m)
            importlib.import_module("contracts." + m).register(self)
        return self

    def contract(self, key: str, **kw: Any) -> Contract:
        if key in self.contracts:
            c = self.contracts[key]
            for k, v in kw.items():
                setattr(c, k, v)
            return c
        c = Contract(key=key, **kw)
        self.contracts[key] = c
        return c

    def derive(self, key: str, base_key: str, **kw: Any) -> Contract:
        """An exact-key contract for an override that needs its own loop invariants: same clauses as the base."""
        b = self.contracts[base_key]
        c = self.contract(key, **kw)
        c.requires = list(b.requires)
        c.ensures = list(b.ensures)
        c.may_raise = dict(b.may_raise)
        c.must_raise = list(b.must_raise)
        c.exc_ensures = list(b.exc_ensures)
        c.pure, c.attr, c.result_td, c.symbol, c.split, c.split_all = b.pure, b.attr, b.result_td, b.symbol, b.split, b.split_all
        if not c.properties:
            c.properties = b.properties
        return c

    def get(self, key: str) -> Contract | None:
        return self.contracts.get(key)

    def object_invariant(self, cls_name: str, label: str, fn: Callable[[Ctx, SV], Any], assumed_only: bool = False) -> None:
        cl = Clause(label, fn)
        cl.assumed_only = assumed_only  # type: ignore[attr-defined]
        self.object_invariants.setdefault(cls_name, []).append(cl)

    def on_construct(self, cls_name: str, label: str, fn: Callable[[Ctx], Any]) -> None:
        self.constructor_hooks.setdefault(cls_name, []).append(Clause(label, fn))
