"""pyvc: a small contract-based deductive verifier for the Python subset used by
lsst.daf.relation.  See /verif/DESIGN.md section 2.

The verified text is the real source under /repo, re-parsed on every run.
"""
