"""Is the verified text the code that runs?  Structural obligations on every module of the package, generated on every run.

The symbolic executor verifies function *bodies* found in ``def`` statements of the class table.  Python lets a module change what
a name means after the ``def``: an assignment to a class attribute at module level (``Relation.join = wrap(Relation.join)``), a
``setattr`` on a class, a loop that patches methods, a class body that rebinds a method name, a special method that changes what
``==``, ``in``, ``bool()`` or attribute access mean for the closed hierarchies the model is generated from.  None of that is used
by lsst.daf.relation today; if a change introduces it, the body-level proofs no longer speak about the running code.  This scan
turns "none of that is used" from a silent assumption into obligations:

* ``structure/<module>/module-level-statements-are-declarations``: only imports, ``def``, ``class``, assignments to plain names,
  docstrings, ``if TYPE_CHECKING:`` blocks and ``__all__`` manipulations;
* ``structure/<module>:<Class>/class-body-statements-are-declarations``: only ``def``, (annotated) assignments to plain names,
  docstrings, ``pass`` / ``...``; no method name is bound twice;
* ``structure/<module>:<Class>/special-methods-are-the-modelled-ones``: the special methods that change the meaning of operators the
  executor models (``__eq__``, ``__hash__``, ``__bool__``, ``__len__``, ``__contains__``, ``__getattr__`` ...) are only those the model
  knows about (table below, taken from the code the contracts were written for).

A failing structural obligation is *undecided* (exit 2): it says the proofs may not apply, not that a property is violated.
"""
from __future__ import annotations

import ast

# special methods that alter semantics the executor models -> classes (by name) where the model accounts for them
MODELLED = {
    # engines are compared by identity -- exactly what the model's reference equality does
    "__eq__": {"GenericConcreteEngine"},
    "__hash__": {"GenericConcreteEngine", "RelationalAlgebraTestCase", "ColumnTag", "_TestColumnTag"},
    # truthiness of iteration-engine payloads goes through __len__ (modelled as an uninterpreted predicate of the payload)
    "__len__": {"MaterializedRowIterable", "RowSequence", "RowMapping"},
}
SEMANTIC = {"__eq__", "__ne__", "__hash__", "__bool__", "__len__", "__contains__", "__getattr__", "__getattribute__", "__setattr__", "__delattr__",
            "__lt__", "__le__", "__gt__", "__ge__", "__call__", "__new__", "__set_name__", "__get__", "__set__", "__instancecheck__", "__subclasscheck__",
            "__class_getitem__", "__reduce__", "__copy__", "__deepcopy__", "__getstate__", "__setstate__", "__enter__", "__exit__", "__del__",
            "__and__", "__or__", "__invert__", "__add__", "__sub__", "__neg__", "__mul__", "__index__", "__int__", "__next__", "__reversed__"}


def _is_docstring(st):
    return isinstance(st, ast.Expr) and isinstance(st.value, ast.Constant) and (isinstance(st.value.value, str) or st.value.value is Ellipsis)


def _plain_targets(st):
    if isinstance(st, ast.Assign):
        return all(isinstance(t, ast.Name) or (isinstance(t, ast.Tuple) and all(isinstance(e, ast.Name) for e in t.elts)) for t in st.targets)
    if isinstance(st, ast.AnnAssign):
        return isinstance(st.target, ast.Name)
    if isinstance(st, ast.AugAssign):
        return isinstance(st.target, ast.Name) and st.target.id == "__all__"
    return False


def _calls_setattr(node):
    for n in ast.walk(node):
        if isinstance(n, ast.Call) and isinstance(n.func, ast.Name) and n.func.id in ("setattr", "delattr", "exec", "eval", "__import__"):
            return n.func.id
    return None


def _module_stmt_ok(st) -> str | None:
    """None if the statement is a declaration, otherwise why not."""
    if isinstance(st, (ast.Import, ast.ImportFrom, ast.FunctionDef, ast.ClassDef)) or _is_docstring(st):
        return None
    if isinstance(st, (ast.Assign, ast.AnnAssign, ast.AugAssign)):
        if not _plain_targets(st):
            return f"line {st.lineno}: assignment to something other than a plain module-level name ({ast.unparse(st)[:80]})"
        bad = _calls_setattr(st)
        return f"line {st.lineno}: calls {bad}" if bad else None
    if isinstance(st, ast.If):
        t = ast.unparse(st.test)
        if t in ("TYPE_CHECKING", "typing.TYPE_CHECKING"):
            for s2 in st.body + st.orelse:
                why = _module_stmt_ok(s2)
                if why:
                    return why
            return None
        return f"line {st.lineno}: conditional module-level code (if {t[:60]})"
    if isinstance(st, ast.Try):
        # optional-dependency imports: try: import x / except ImportError: x = None
        inner = st.body + [s2 for h in st.handlers for s2 in h.body] + st.orelse + st.finalbody
        for s2 in inner:
            if isinstance(s2, (ast.FunctionDef, ast.ClassDef)):
                return f"line {s2.lineno}: conditional definition of {s2.name}"
            why = _module_stmt_ok(s2)
            if why:
                return why
        return None
    if isinstance(st, ast.Expr) and isinstance(st.value, ast.Call):
        f = ast.unparse(st.value.func)
        if f in ("__all__.extend", "__all__.append"):
            return None
        return f"line {st.lineno}: module-level call {f}(...) (may rebind or patch what the class table was read from)"
    return f"line {st.lineno}: module-level {type(st).__name__} statement"


def _class_stmt_ok(st, seen: set[str]) -> str | None:
    if _is_docstring(st) or isinstance(st, ast.Pass):
        return None
    if isinstance(st, ast.FunctionDef):
        decs = [ast.unparse(d) for d in st.decorator_list]
        accessor = any(d.endswith((".setter", ".getter", ".deleter")) for d in decs) or "overload" in decs or "typing.overload" in decs
        if st.name in seen and not accessor:
            return f"line {st.lineno}: {st.name} is bound twice in the class body"
        seen.add(st.name)
        return None
    if isinstance(st, (ast.Assign, ast.AnnAssign)):
        if not _plain_targets(st):
            return f"line {st.lineno}: assignment to something other than a plain name in a class body"
        names = [t.id for t in (st.targets if isinstance(st, ast.Assign) else [st.target]) if isinstance(t, ast.Name)]
        for n in names:
            if n in seen:
                return f"line {st.lineno}: {n} is re-bound in the class body after its def"
        bad = _calls_setattr(st)
        return f"line {st.lineno}: calls {bad}" if bad else None
    return f"line {st.lineno}: {type(st).__name__} statement in a class body"


def obligations(repo, mk):
    """``mk(label, func, clause, status, reason, lineno)`` builds one result; returns the list of results."""
    res = []
    for mname in sorted(repo.modules):
        mod = repo.modules[mname]
        short = mname.split("lsst.daf.relation", 1)[-1].lstrip(".") or "__init__"
        whys = [w for w in (_module_stmt_ok(st) for st in mod.tree.body) if w]
        res.append(mk(f"structure/{short}/module-level-statements-are-declarations", f"structure/{short}", "module-level-statements-are-declarations",
                      "error" if whys else "proved", "OutsideSubset: " + "; ".join(whys[:4]) if whys else "", None))
        for node in [n for n in ast.walk(mod.tree) if isinstance(n, ast.ClassDef)]:
            seen: set[str] = set()
            whys = [w for w in (_class_stmt_ok(st, seen) for st in node.body) if w]
            sp = []
            for st in node.body:
                if isinstance(st, ast.FunctionDef) and st.name.startswith("__") and st.name.endswith("__"):
                    allowed = MODELLED.get(st.name, set()) if st.name in SEMANTIC else None
                    if allowed is not None and node.name not in allowed:
                        sp.append(f"line {st.lineno}: {node.name}.{st.name} is not a special method the model accounts for")
            res.append(mk(f"structure/{short}:{node.name}/class-body-statements-are-declarations", f"structure/{short}:{node.name}", "class-body-statements-are-declarations",
                          "error" if whys else "proved", "OutsideSubset: " + "; ".join(whys[:4]) if whys else "", node.lineno))
            res.append(mk(f"structure/{short}:{node.name}/special-methods-are-the-modelled-ones", f"structure/{short}:{node.name}", "special-methods-are-the-modelled-ones",
                          "error" if sp else "proved", "OutsideSubset: " + "; ".join(sp[:4]) if sp else "", node.lineno))
    return res
