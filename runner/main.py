"""CLI: decide one property.  Exit 0 held / 1 violation / 2 undecided / 3 checker fault."""
from __future__ import annotations

import argparse
import hashlib
import importlib
import json
import multiprocessing as mp
import os
import subprocess
import sys
import time

sys.path.insert(0, os.path.dirname(os.path.dirname(os.path.abspath(__file__))))

from pyvc.contracts import Registry  # noqa: E402
from pyvc.frontend import Repo  # noqa: E402
from pyvc.verify import ERROR, PROVED, REFUTED, UNKNOWN, OblResult, Verifier, closure_keys, expand_keys, unverified_impls  # noqa: E402
from runner.props import PROPS  # noqa: E402
from spec.vocab import Spec  # noqa: E402

VERIF = os.path.dirname(os.path.dirname(os.path.abspath(__file__)))
NATIVE_PY = "/venv/bin/python"

class _NoDaemonProcess(mp.get_context("fork").Process):  # type: ignore[name-defined,misc]
    """Workers verify one function each and fork their own sub-pool to discharge its obligations."""

    @property
    def daemon(self):
        return False

    @daemon.setter
    def daemon(self, value):
        pass


class _NoDaemonContext(type(mp.get_context("fork"))):  # type: ignore[misc]
    Process = _NoDaemonProcess


_V: Verifier | None = None


def _work(key):
    assert _V is not None
    if isinstance(key, tuple):
        # ("excl", finding id, function): the function re-verified with the finding's witness class excluded by precondition
        # (needed by check_known; done here, in the pool, instead of sequentially afterwards)
        _tag, kfid, func = key
        kf = next(f for f in load_known() if f["id"] == kfid and f.get("exclude"))
        wc = _V.reg.witness_classes[kf["exclude"]]
        res2, meta2 = _V.verify_function(func, extra_requires=[lambda c: wc(c, False)], only_labels=set(kf["obligations"]))
        d = {x.label + "|" + x.path: x.status for x in res2}
        d["__ran__"] = PROVED if (meta2.get("error") is None and meta2.get("paths", 0) > 0) else None
        return key, d, None
    res, meta = _V.verify_function(key)
    return key, [r.to_json() for r in res], meta


def build_registry(modules: list[str]) -> Registry:
    reg = Registry()
    reg.load(*modules)
    return reg


def run_replay(script: str, path: str) -> tuple[bool | None, str]:
    """Run a replay script natively against /repo.  True = the real code shows the failure."""
    with open(path, "w") as f:
        f.write(script)
    try:
        p = subprocess.run([NATIVE_PY, path], capture_output=True, text=True, timeout=120,
                           env={**os.environ, "PYTHONPATH": os.path.join(os.environ.get("PYVC_REPO", "/repo"), "python"), "PYTHONDONTWRITEBYTECODE": "1"})
    except subprocess.TimeoutExpired:
        return None, "replay timed out"
    out = (p.stdout + p.stderr)[-3000:]
    if "REPRODUCED" in p.stdout and "NOT-REPRODUCED" not in p.stdout:
        return True, out
    if "NOT-REPRODUCED" in p.stdout:
        return False, out
    return None, out


_kf_cache: dict = {}


def check_known(kf: dict, r: dict, verifier) -> tuple[bool, str]:
    """A failing obligation is covered by a known finding iff (a) the finding's committed witness still fails
    natively on this tree and (b) with the finding's witness class excluded by precondition the very same
    obligation is discharged (so a different defect in the same cell is still reported)."""
    key = kf["id"]
    if ("replay", key) not in _kf_cache:
        path = os.path.join(VERIF, kf["replay"])
        try:
            p = subprocess.run([NATIVE_PY, path], capture_output=True, text=True, timeout=120,
                               env={**os.environ, "PYTHONPATH": os.path.join(os.environ.get("PYVC_REPO", "/repo"), "python"), "PYTHONDONTWRITEBYTECODE": "1"})
            _kf_cache[("replay", key)] = ("REPRODUCED" in p.stdout and "NOT-REPRODUCED" not in p.stdout, (p.stdout + p.stderr)[-800:])
        except Exception as e:  # pragma: no cover
            _kf_cache[("replay", key)] = (False, repr(e))
    ok, out = _kf_cache[("replay", key)]
    if not ok:
        return False, f"known finding {key}: its recorded witness no longer fails natively, but the obligation is still not discharged\n{out}"
    excl = kf.get("exclude")
    if excl:
        ck = ("excl", key, r["func"])
        if ck not in _kf_cache:
            wc = verifier.reg.witness_classes[excl]
            res2, meta2 = verifier.verify_function(r["func"], extra_requires=[lambda c: wc(c, False)], only_labels=set(kf["obligations"]))
            _kf_cache[ck] = {x.label + "|" + x.path: x.status for x in res2}
            _kf_cache[ck]["__ran__"] = PROVED if (meta2.get("error") is None and meta2.get("paths", 0) > 0) else None
        # a path that no longer exists with the witness class excluded is infeasible outside the class: covered
        st = _kf_cache[ck].get(r["label"] + "|" + r["path"], _kf_cache[ck]["__ran__"])
        if st != PROVED:
            return False, f"known finding {key}: with its witness class ({excl}) excluded the obligation is still not discharged ({st}): a different failure"
    return True, ""


def load_known() -> list[dict]:
    p = os.path.join(VERIF, "KNOWN_FINDINGS.json")
    if not os.path.exists(p):
        return []
    return json.load(open(p)).get("findings", [])


def main() -> int:
    ap = argparse.ArgumentParser()
    ap.add_argument("prop")
    ap.add_argument("--tier", default=os.environ.get("VERIF_TIER", "quick"))
    ap.add_argument("--replay")
    ap.add_argument("--jobs", type=int, default=min(16, os.cpu_count() or 4))
    ap.add_argument("--only", help="comma-separated contract keys (development)")
    ap.add_argument("-v", action="store_true")
    a = ap.parse_args()
    if a.replay:
        p = subprocess.run([NATIVE_PY, a.replay], env={**os.environ, "PYTHONPATH": os.path.join(os.environ.get("PYVC_REPO", "/repo"), "python")})
        return p.returncode
    pid = a.prop
    if pid not in PROPS:
        print(f"unknown or unclaimed property {pid}")
        return 3
    cfg = PROPS[pid]
    t0 = time.time()
    seed = int(os.environ.get("VERIF_SEED", "0") or 0)
    global _V
    repo = Repo()
    reg = build_registry(cfg["modules"])
    timeout_ms = 20000 if a.tier == "quick" else 120000
    _V = Verifier(repo, reg, Spec, timeout_ms=timeout_ms)
    _V.only_clauses = cfg.get("only_clauses")
    _V.only_obligations = cfg.get("only_obligations")  # key -> label substrings: the obligations of a borrowed function this property is about
    _V.recheck = a.tier == "thorough"  # every discharged obligation is re-proved under a second solver configuration
    keys = expand_keys(repo, reg, pid)
    # functions whose contracts belong to another property but on which this property's statement depends
    for dep in cfg.get("depends", []):
        for k2 in expand_keys(repo, reg, dep):
            if any(x in k2 for x in cfg.get("depends_exclude", [])):
                continue
            if k2 not in keys:
                keys.append(k2)
    # single functions of other properties that this property's statement depends on
    for k2 in cfg.get("extra_keys", []):
        if k2 not in keys:
            keys.append(k2)
    if a.only:
        keys = [k for k in keys if k in a.only.split(",")]
    def _for(p):
        return pid in p if isinstance(p, list) else p == pid

    known = [f for f in load_known() if _for(f["property"]) and f.get("status", "open") == "open"]

    all_results: list[dict] = []
    metas: dict[str, dict] = {}
    ctx = _NoDaemonContext()
    n_outer = max(1, min(a.jobs, len(keys) or 1))
    _V.inner_jobs = max(1, a.jobs // max(1, min(n_outer, 4)))  # only functions with many obligations fork sub-workers
    # known findings with a witness class: their function is re-verified with the class excluded, in the same pool
    excl_jobs = []
    for kf in known:
        if kf.get("exclude"):
            for func in sorted({o.split("/")[0] for o in kf["obligations"]}):
                if func in keys and ("excl", kf["id"], func) not in excl_jobs:
                    excl_jobs.append(("excl", kf["id"], func))
    n_outer = max(1, min(a.jobs, len(keys) + len(excl_jobs) or 1))
    with ctx.Pool(n_outer) as pool:
        for key, res, meta in pool.imap_unordered(_work, excl_jobs + keys):
            if isinstance(key, tuple):
                _kf_cache[("excl", key[1], key[2])] = res
                continue
            all_results.extend(res)
            metas[key] = meta

    # ---- dependency closure: a caller is checked against the callee's contract, so every function whose contract this
    # property's own functions apply at a call site / attribute read is verified in this check too, and so on for those
    # functions, down to ``closure_depth`` levels (default 2; the full transitive closure is most of the library).
    # Callees that carry an open known finding or a bounded stand-in are verified under their own property only
    # (listed in the evidence); deeper levels are covered by the checks of the properties that own those functions.
    closure_added: list[str] = []
    closure_skipped: list[str] = []
    depth = int(cfg.get("closure_depth", 2)) if cfg.get("closure", True) else 0
    if not a.only and depth > 0:
        sp0 = os.path.join(VERIF, "BOUNDED_STANDINS.json")
        special = [o.split("/")[0] for f in load_known() if f.get("status", "open") == "open" for o in f["obligations"]]
        special += [o.split("/")[0] for b in (json.load(open(sp0))["standins"] if os.path.exists(sp0) else []) for o in b["obligations"]]
        frontier = [k0 for k0 in keys if k0 not in cfg.get("extra_keys", [])]  # single functions borrowed from another property bring no closure of their own
        for level in range(depth):
            used = sorted({u for k0 in frontier for u in metas.get(k0, {}).get("contracts_used", [])})
            nxt = []
            for k2 in closure_keys(repo, reg, used):
                if k2 in keys or k2 in closure_added or k2 in closure_skipped:
                    continue
                if k2 in special or k2 in cfg.get("closure_exclude", ()):
                    closure_skipped.append(k2)
                    continue
                nxt.append(k2)
            if not nxt:
                break
            with ctx.Pool(max(1, min(a.jobs, len(nxt)))) as pool:
                for key, res, meta in pool.imap_unordered(_work, nxt):
                    all_results.extend(res)
                    metas[key] = meta
            closure_added.extend(nxt)
            frontier = nxt

    # spec-level lemma obligations (no code involved): discharged by z3 on every run
    import z3 as _z3
    for lname, lfn in reg.lemmas.items():
        if not lname.startswith(pid + "/"):
            continue
        ex = _V.new_exec()
        hyps, goal = lfn(ex)
        s = _z3.Solver()
        s.set("timeout", timeout_ms)
        for h in hyps:
            s.add(h)
        s.add(_z3.Not(goal))
        lt0 = time.time()
        r = s.check()
        all_results.append(OblResult(lname, "lemma:" + lname, lname.split("/", 1)[1], "", "lemma",
                                     PROVED if r == _z3.unsat else (REFUTED if r == _z3.sat else UNKNOWN),
                                     seconds=round(time.time() - lt0, 3), reason=str(r) if r != _z3.unknown else s.reason_unknown()).to_json())

    # structural obligations (pyvc/structure.py): the class table and the function bodies read from the sources are what runs --
    # no module-level patching, no re-binding in class bodies, no special method the model does not account for
    from pyvc import structure as _structure
    all_results.extend(_structure.obligations(repo, lambda label, func, clause, status, reason, lineno:
                                              OblResult(label, func, clause, "", "structure", status, solver="ast-scan", reason=reason, lineno=lineno).to_json()))

    # extra (non-symbolic-execution) obligations: syntactic scans etc.
    extra_assumptions: list[str] = []
    for fn in cfg.get("extra", []):
        res2, assum = fn(repo, reg, a.tier)
        all_results.extend(r.to_json() if isinstance(r, OblResult) else r for r in res2)
        extra_assumptions.extend(assum)

    # ---- classify
    os.makedirs(os.path.join(VERIF, "replays"), exist_ok=True)
    violations: list[str] = []
    bp = os.path.join(VERIF, "baseline", f"{pid}.json")
    baseline = set(json.load(open(bp))["discharged_labels"]) if os.path.exists(bp) else set()
    # labels of known-finding cells whose re-check with the finding's witness class excluded was fully discharged on the unchanged tree
    baseline_excl = set(json.load(open(bp)).get("known_finding_labels_discharged_with_the_witness_excluded", [])) if os.path.exists(bp) else set()
    kf_excl_ok: set[str] = set()
    conc_cache: dict = {}
    standin_cache: dict = {}
    bounded_seen: dict = {}
    sp = os.path.join(VERIF, "BOUNDED_STANDINS.json")
    standins = [b for b in (json.load(open(sp))["standins"] if os.path.exists(sp) else []) if (pid in b["property"] if isinstance(b["property"], list) else b["property"] == pid)]
    notes: list[str] = []
    known_seen: list[str] = []
    undecided: list[str] = []
    faults: list[str] = []
    n_obl = 0
    n_dis = 0
    solver_s = 0.0
    by_solver: dict[str, int] = {}
    samples: list[dict] = []
    for r in all_results:
        if r["kind"] == "subset":
            # the function (as it is now) uses something the executor does not model: not a verdict of the deductive
            # stage.  Stage 2 may still find a concrete failing input of its contract; otherwise the property is undecided.
            tag = hashlib.sha256(r["label"].encode()).hexdigest()[:10]
            rpath = os.path.join(VERIF, "replays", f"{pid}-{tag}.py")
            cscript = ("import subprocess, sys\n"
                       f"# {r['func']} could not be symbolically executed ({r['reason'][:200]}); bounded native search over its contract:\n"
                       f"sys.exit(subprocess.call([sys.executable, '/verif/replay/concretise.py', {r['func']!r}, 'any', '6000']))\n")
            c_ok, c_out = run_replay(cscript, rpath)
            if c_ok is True:
                violations.append(f"VIOLATION property={pid} replay={rpath} obligation={r['func']}/contract (function outside the executor's subset; bounded native search found a failing input)")
                n_obl += 1
            else:
                undecided.append(f"{r['label']}: {r['reason'][:300]}")
            continue
        if r["kind"] == "structure" and r["status"] == ERROR:
            # the proofs may not be about the running code any more: undecided, never a pass and never a violation
            undecided.append(f"{r['label']}: {r['reason'][:300]}")
            continue
        if r["kind"] in ("vacuity", "fault") or r["status"] == ERROR:
            faults.append(f"{r['label']}: {r['reason'][:300]}")
            continue
        solver_s += r.get("seconds", 0.0)
        if r["kind"] == "bounded":
            if r["status"] == PROVED:
                bounded_seen.setdefault(r["label"], {"standin": r["label"], "bound": r["func"], "why": "assumed contracts of code outside the executor's subset", "obligations": [r["label"]], "result": r["reason"][-200:]})
            else:
                rp = os.path.join(VERIF, "replays", f"{pid}-bounded.py")
                with open(rp, "w") as f:
                    f.write("import subprocess, sys\n# bounded native stand-in found a failing input:\n" + "".join("# " + ln + "\n" for ln in r["reason"].splitlines()[-8:])
                            + "sys.exit(subprocess.call([sys.executable, '/verif/" + r["func"].split(":", 1)[1] + "']))\n")
                violations.append(f"VIOLATION property={pid} replay={rp} obligation={r['label']} (bounded native stand-in found a failing input)")
                n_obl += 1
            continue
        kf = next((f for f in known if r["label"] in f["obligations"]), None)
        if r["status"] == PROVED:
            n_obl += 1
            n_dis += 1
            by_solver[r["solver"]] = by_solver.get(r["solver"], 0) + 1
            if len(samples) < 6 and r["solver"] != "trivial":
                samples.append({"obligation": r["label"], "path": r["path"][-160:], "status": "proved", "solver": r["solver"], "seconds": r["seconds"]})
            continue
        # not proved
        tag = hashlib.sha256((r["label"] + r["path"]).encode()).hexdigest()[:10]
        rpath = os.path.join(VERIF, "replays", f"{pid}-{tag}.py")
        reproduced = None
        rout = ""
        builder = reg.replay.get(r["func"])  # type: ignore[attr-defined]
        script = None
        if builder is not None and r.get("model"):
            try:
                script = builder(r["model"], r["clause"], r)
            except Exception as e:  # pragma: no cover
                script = None
                rout = f"replay builder failed: {e!r}"
        if script:
            reproduced, rout = run_replay(script, rpath)
        if reproduced is not True and kf is None:
            # stage 2: bounded native search for a concrete failing input of this contract clause
            ck = (r["func"], r["clause"])
            if ck not in conc_cache:
                cscript = ("import subprocess, sys\n"
                           f"sys.exit(subprocess.call([sys.executable, '/verif/replay/concretise.py', {r['func']!r}, {r['clause']!r}, '6000']))\n")
                conc_cache[ck] = run_replay(cscript, rpath)
            c_ok, c_out = conc_cache[ck]
            if c_ok is True:
                reproduced, rout, script = True, c_out, "concretise"
                with open(rpath, "w") as f:
                    f.write("import subprocess, sys\n"
                            f"# obligation {r['label']} (path {r['path'][-120:]}) was not discharged ({r['status']}: {r['reason']}); bounded native search found:\n"
                            + "".join("# " + ln + "\n" for ln in c_out.strip().splitlines()[-6:])
                            + f"sys.exit(subprocess.call([sys.executable, '/verif/replay/concretise.py', {r['func']!r}, {r['clause']!r}, '6000']))\n")
        sb = next((b for b in standins if any(r["label"].startswith(pfx) for pfx in b["obligations"])), None)
        if sb is not None and kf is None:
            if sb["id"] not in standin_cache:
                wrapper = "import subprocess, sys\nsys.exit(subprocess.call(%r))\n" % ([NATIVE_PY] + [os.path.join(VERIF, a) if a.endswith(".py") else a for a in sb["cmd"]],)
                standin_cache[sb["id"]] = run_replay(wrapper, os.path.join(VERIF, "replays", f"{pid}-standin-{sb['id']}.py"))
            b_ok, b_out = standin_cache[sb["id"]]
            if b_ok is False:
                bounded_seen.setdefault(sb["id"], {"standin": sb["id"], "bound": sb["bound"], "why": sb["why"], "obligations": [], "result": b_out.strip()[-300:]})
                bounded_seen[sb["id"]]["obligations"].append(r["label"])
                continue
            if b_ok is True:
                violations.append(f"VIOLATION property={pid} replay={os.path.join(VERIF, 'replays', f'{pid}-standin-' + sb['id'] + '.py')} obligation={r['label']} (bounded stand-in {sb['id']} found a failing input)")
                n_obl += 1
                continue
            faults.append(f"bounded stand-in {sb['id']} did not complete: {b_out[-300:]}")
            continue
        lost_excluded = False
        if kf is not None:
            ok, why = check_known(kf, r, _V)
            if ok:
                if kf.get("exclude"):
                    kf_excl_ok.add(r["label"])
                if kf.get("_seen") is None:
                    kf["_seen"] = True
                    known_seen.append(f"KNOWN-FINDING: property={pid} {kf['id']} {r['label']}: {kf['what']}")
                continue
            rout = (rout + "\n" + why)[-3000:]
            # on the unchanged tree this cell was discharged once the finding's witness class was excluded; now it is not: a
            # different failure in the same cell (reported even if the solver only times out, like any baseline obligation)
            lost_excluded = r["label"] in baseline_excl
        if r["status"] == UNKNOWN and r["reason"] in ("timeout", "canceled") and reproduced is not True and r["label"] not in baseline and not lost_excluded:
            # a resource outcome on an obligation that is not known to hold on the unchanged tree: undecided, never a violation
            undecided.append(f"{r['label']} [{r['path'][-80:]}]: solver {r['reason']}")
            continue
        if reproduced is False and r["status"] == REFUTED:
            faults.append(f"{r['label']}: solver model does not reproduce natively (encoding problem?)\n{rout[-500:]}")
            continue
        n_obl += 1
        suffix = "" if reproduced is True else " no-failing-input-found"
        if not script or reproduced is not True:
            with open(rpath, "w") as f:
                f.write("# obligation: %s\n# path: %s\n# status: %s (%s)\n# model: %s\n# native replay output:\n# %s\nprint('obligation %s failed; see comments in this file')\nraise SystemExit(1)\n" % (
                    r["label"], r["path"], r["status"], r["reason"], json.dumps(r.get("model"), default=str)[:3000], rout.replace("\n", "\n# ")[:2000], r["label"]))
        violations.append(f"VIOLATION property={pid} replay={rpath} obligation={r['label']} line={r.get('lineno')}{suffix}")

    # known findings must also be checked with the witness class excluded (second, different bug in the same cell)
    for kf in known:
        if kf.get("_seen") is None and not kf.get("optional"):
            # the finding no longer shows: not an alarm, just note it
            notes.append(f"NOTE: known finding {kf['id']} did not show on this tree")

    for line in known_seen + notes:
        print(line)
    for line in violations:
        print(line)
    for line in undecided:
        print("UNDECIDED:", line)
    for line in faults:
        print("CHECKER-FAULT:", line)

    from spec.laws import law_status_summary

    laws = law_status_summary()
    if a.tier == "thorough":
        lp = subprocess.run(["sh", os.path.join(VERIF, "lean", "check.sh")], capture_output=True, text=True)
        if lp.returncode == 0:
            os.makedirs(os.path.join(VERIF, "lean", "build"), exist_ok=True)
            open(os.path.join(VERIF, "lean", "build", "PROVED.txt"), "w").write(lp.stdout)
            laws = law_status_summary()
        else:
            faults.append("lean/check.sh failed: " + (lp.stdout + lp.stderr)[-300:])
    funcs = sorted(k for k, m in metas.items() if not m.get("skipped"))
    skipped_funcs = {k: m["skipped"] for k, m in metas.items() if m.get("skipped")}
    assumptions = sorted(set(cfg.get("assumptions", []) + extra_assumptions + [
        "the VC generator (pyvc front end, symbolic executor, SMT printer) and its Python-semantics assumptions (DESIGN.md 2.2)",
        "z3 soundness",
        "closed world: only the classes defined in /repo (custom RowFilter/Reordering/MarkerRelation subclasses excluded)",
        "partial correctness: termination is not proved",
    ] + ([f"law library spec/laws.py: {len(laws['lean_proved'])} laws machine-checked in Lean (lean/check.sh); not Lean-proved, bounded-checked only: {laws['assumed_bounded_checked_only']}"]
         if any("law" in x for x in cfg.get("assumptions", [])) else []) + unverified_impls(repo, reg, pid) + [f"assumed contract: {k}" for m in metas.values() for k in m.get("assumed_contracts_used", [])]))
    ev = {
        "property_id": pid,
        "tier": a.tier,
        "seed": seed,
        "level": "proof",
        "coverage": {
            "obligations": n_obl,
            "discharged": n_dis,
            "checker_cmd": f"./check {pid} --tier {a.tier}",
            "trusted_base": ["pyvc (this repository)", "z3 5.1 (python3-vt)", "CPython semantics as stated in DESIGN.md 2.2"],
            "functions_under_contract": funcs,
            "dependency_closure": {"depth": depth, "callees_verified_here": sorted(closure_added),
                                   "callees_verified_under_their_own_property_only": sorted(closure_skipped)},
            "functions_not_verified": skipped_funcs,
            "function_source_hashes": {k: m.get("source_hash") for k, m in metas.items()},
            "paths_explored": sum(m.get("paths", 0) for m in metas.values()),
            "by_backend": by_solver,
            "solver_seconds": round(solver_s, 3),
            "samples": samples,
            "law_library": {"lean_proved": len(laws["lean_proved"]), "assumed_bounded_checked_only": laws["assumed_bounded_checked_only"],
                            "note": "Lean theorems in lean/RelAlg/Laws.lean over the concrete model lean/RelAlg/Spec.lean (each law's statement is generated from spec/laws.py into lean/RelAlg/Generated.lean and must be closed by the theorem, "
                                    "13 of them with the hypothesis that rows are masked to their column set, which every operator preserves: lean/RelAlg/Lemmas.lean)"},
            "slowest_discharged": sorted([(r.get("seconds", 0), r["label"]) for r in all_results if r["status"] == PROVED], reverse=True)[:8],
            "known_findings_seen": known_seen,
            "bounded_standins": list(bounded_seen.values()),
            "undecided": undecided,
            "checker_faults": faults,
            "repo_tree_hash": repo.tree_hash(),
            "baseline_labels": len(baseline),
            "explanation": cfg.get("explanation", ""),
        },
        "assumptions": assumptions,
        "wall_s": round(time.time() - t0, 2),
        "violations": len(violations),
    }
    if os.environ.get("VERIF_WRITE_BASELINE") == "1" and not violations and not faults and not undecided and not a.only:
        os.makedirs(os.path.join(VERIF, "baseline"), exist_ok=True)
        proved_labels = sorted({r["label"] for r in all_results if r["status"] == PROVED})
        not_all = {r["label"] for r in all_results if r["status"] != PROVED}
        with open(bp, "w") as f:
            json.dump({"property": pid, "repo_tree_hash": repo.tree_hash(),
                       "comment": "obligation labels discharged on the unchanged tree (all path instances); an obligation listed here that is no longer discharged is reported as a violation even when the solver only times out",
                       "discharged_labels": [x for x in proved_labels if x not in not_all],
                       "known_finding_labels_discharged_with_the_witness_excluded": sorted(kf_excl_ok)}, f, indent=0)
    os.makedirs(os.path.join(VERIF, "evidence"), exist_ok=True)
    with open(os.path.join(VERIF, "evidence", f"{pid}.json"), "w") as f:
        json.dump(ev, f, indent=1, default=str)
    for b in bounded_seen.values():
        print(f"BOUNDED (not proved): stand-in {b['standin']} covers {len(b['obligations'])} obligation instance(s): {b['bound']}")
    print(f"{pid}: {n_dis}/{n_obl} obligations discharged over {len(funcs)} functions, "
          f"{len(violations)} violation(s), {len(known_seen)} known, {len(undecided)} undecided, {len(faults)} fault(s), {ev['wall_s']}s")
    if violations:
        return 1
    if faults:
        return 3
    if undecided:
        return 2
    if n_obl == 0:
        print("CHECKER-FAULT: zero obligations")
        return 3
    return 0


if __name__ == "__main__":
    try:
        rc = main()
    except SystemExit:
        raise
    except BaseException as e:  # a crash of the checker is a fault (exit 3), never a verdict -- Python's default status for a traceback is 1
        import traceback

        traceback.print_exc()
        print(f"CHECKER-FAULT: {type(e).__name__}: {e}")
        rc = 3
    sys.exit(rc)
