"""Per-property configuration: which contract modules serve it, extra checks, assumptions."""
from __future__ import annotations

PROPS: dict[str, dict] = {
    "C05": {
        "modules": ["op_slice"],
        "assumptions": [],
        "explanation": "Slice.then / simplify contracts: merged operation equals the two applied in sequence; merging never raises.",
    },
}
