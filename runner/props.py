"""Per-property configuration: which contract modules serve it, extra checks, assumptions."""
from __future__ import annotations

def _c10_extra(repo, reg, tier):
    from contracts.payload import scan_payload_writes

    return scan_payload_writes(repo, reg, tier)


def _c09_extra(repo, reg, tier):
    from contracts.persist import scan

    return scan(repo, reg, tier)


def _c09_frozen(repo, reg, tier):
    from contracts.persist import frozen_field_obligations

    return frozen_field_obligations(repo, reg, tier)


def _c18_extra(repo, reg, tier):
    from contracts.lazy import bounded_extra

    return bounded_extra(repo, reg, tier)


def _c18_scan(repo, reg, tier):
    from contracts.lazy import effect_scan

    return effect_scan(repo, reg, tier)


def _c18_frame(repo, reg, tier):
    from contracts.iteration import frame_obligations_iteration

    # "results can be iterated repeatedly with identical rows": nothing in the iteration engine writes to an object it did not build
    return frame_obligations_iteration(repo, "C18/"), []


def _c13_frame(repo, reg, tier):
    """'The columns an expression declares as required are exactly those it needs' also fails when evaluating one
    expression's columns_required changes what another expression declares: the (cached) sets handed out must never be
    mutated.  The C09 frame obligations of the column-expression modules are part of this check."""
    from contracts.persist import frame_obligations

    frame = [o for o in frame_obligations(repo) if o.func.startswith("_columns.")]
    for o in frame:
        o.label = o.label.replace("C09/", "C13/")
    return frame, []


def _c01_extra(repo, reg, tier):
    from contracts.iteration import bounded_extra

    return bounded_extra(repo, reg, tier)


def _rowiter_scan(repo, reg, tier):
    from contracts.rowiter import attribute_scan

    return attribute_scan(repo, reg, tier)


PROPS: dict[str, dict] = {
    "C12": {
        "modules": ["sqlexpr", "itconv"],
        "extra": [_c01_extra],
        "assumptions": ["SQL denotation of the SQLAlchemy builder calls (contracts/sqlexpr.py): integer arithmetic mathematical, two-valued comparisons on NULL-free rows, AND/OR/NOT, BETWEEN inclusive, IN (...), % truncating toward zero; the database evaluates that SQL as stated, no overflow",
                        "stdlib: getattr(operator, name, default) is the operator module's attribute when it has one and the default otherwise; the operator module has every portable name (GenericConcreteEngine.get_function is verified against that)",
                        "law library spec/laws.py incl. the integer laws mod-congruence / desc-range (status per law in coverage.law_library)",
                        "iteration side (contracts/itconv.py): a stored callable applied to a row is modelled as an integer-valued total function of the row (bools as 0/1, literal value objects through lit_int); rows handed to a callable have the columns the expression mentions"],
        "explanation": "sql.Engine.convert_column_expression / convert_predicate: every match arm denotes the expression's value under the stated SQL semantics; iteration.Engine.convert_column_expression / convert_column_container / convert_predicate: the returned closure (the real lambda, executed on the Skolem witness row) computes the expression's / container's / predicate's value -- for all expression trees over the portable operator set and all rows",
    },
    "C01": {
        "modules": ["iteration", "c20"],
        # "independent of any merging, elision or reordering the library performed while the tree was being built":
        # the construction-time merging contracts (Slice.then, Sort.then, simplify, _finish_apply) are part of this check
        # ... and so are the contracts of backtracking insertion (C03: apply, backtrack_unary, commute), which is the "reordering": joins are outside this
        # property's quantifier, so the join-only functions of C03 are left to C03/C04
        "depends": ["C05", "C03"],
        "depends_exclude": ["_operations._join:"],
        "extra": [_c01_extra, _rowiter_scan],
        "assumptions": ["leaf payloads are re-iterable and hold the leaf's rows; iteration-engine leaves always carry a payload; a user-built RowMapping holds rows that are unique on its key (documented requirement)",
                        "model of Python values in the iteration engine (DESIGN 2.2): a row dict is a key set plus a total map that is 0 outside it; generators are the loops they abbreviate (ghost output sequence); a dict comprehension keyed on columns is the insertion-ordered fold abstracted by its values; itertools.groupby yields the maximal runs; list.sort is stable also with reverse=True; stored callables are pure, total, integer-valued",
                        "law library spec/laws.py (status per law in coverage.law_library)",
                        "independence of merging/elision/reordering at construction time is C05 (UnaryOperation._finish_apply) and C03 (backtracking)"],
        "explanation": "iteration.Engine.execute proved arm by arm, including the Sort arm (loop invariant over the direction groups): content(result) == rows(relation); the RowIterable classes (constructors, __iter__ generators, conversion methods) and the converted callables are proved from their bodies (contracts/rowiter.py, itconv.py, sortarm.py)",
    },
    "C09": {
        "modules": ["persist"],
        "extra": [_c09_extra, _c09_frozen],
        "assumptions": [],
        "explanation": "hash/eq obligations on every dataclass reachable from Relation; frame obligation for every mutating statement of the library; no ambient-state imports",
    },
    "C10": {
        "closure_depth": 1,  # already the longest-running checks; deeper levels are covered by the checks owning those functions
        "modules": ["processor"],
        "extra": [_c10_extra],
        "assumptions": ["the user's Processor.transfer/materialize hooks return a payload holding the rows of their source (assumed contract; their preconditions are proved at the call sites)",
                        "Engine.get_join_identity_payload/get_doomed_payload: the iteration engine's implementations are verified from their bodies; the SQL engine's build SQLAlchemy objects (assumed), the base-class default None is out of scope",
                        "spec lemma 'readiness of a tree is monotone in the payload heap': its induction step (by cases on the node class, from the definitions of ready/extends) and its decreases clause are lemma obligations discharged by z3 in this check; the induction principle over finite relation trees is the meta-step"],
        "explanation": "attach_payload contracts (write-once, rejected attach changes nothing, frame) + AST scan: no other payload write in the library; execute and _process_recursive never replace a payload",
    },
    "C18": {
        "modules": ["lazy"],
        # the other postconditions of execute (row content, payload caching) are C01 / C10
        "only_clauses": {"iteration._engine:Engine.execute": ["a-lazy-tree-is-executed-without-starting-any-iteration", "an-eager-operation-returns-rows-it-holds"]},
        "extra": [_c18_scan, _c18_extra, _c18_frame, _rowiter_scan],
        "assumptions": ["constructing a generator-backed RowIterable and RowIterable.sliced start no iteration (AST effect scan + the proved constructor contracts: they only store their arguments); to_mapping, materialized and the Sort arm's list() are the only iteration starts inside execute",
                        "the ghost counter RowIterable.iterations is specification state: the real classes keep no such counter",
                        "per-iteration clauses: proved per class through a ghost event log of iteration starts (contracts/rowiter.py); the step from the per-class clauses to whole trees is an induction over the object graph (meta-argument); replay/bounded_lazy.py is a bounded cross-check"],
        "explanation": "Engine.execute proved arm by arm: on a tree of lazy operations the iteration counters and payload cells are left exactly as found",
    },
    "C17": {
        "closure_depth": 1,  # already the longest-running checks; deeper levels are covered by the checks owning those functions
        "modules": ["sqlsel"],
        "assumptions": ["every Select object is built by Select.apply_skip (its coherence invariant is proved there and assumed on read; hand-built Select objects are outside the property)",
                        "law library spec/laws.py (status per law in coverage.law_library; dedup-slice-dedup and proj-chain are bounded-checked only unless listed as Lean-proved)",
                        "base-class Engine.transfer/materialize/make_* and Join/Chain _finish_apply enter through their contracts (C14/C15/C20)",
                        "SQL emission (to_payload/_select_to_executable) is not covered: rows(select) is the relational meaning of the marker, not of the SQL text (C02)"],
        "explanation": "Select coherence as a class invariant proved at its only construction site (Select.apply_skip); sql.Engine.conform, _append_unary_to_select (all arms), _append_binary_to_select, Select.reapply/strip and the engine entry points proved to return coherent Selects with the rows of the request",
    },
    "C07": {
        "closure_depth": 1,  # already the longest-running checks; deeper levels are covered by the checks owning those functions
        "modules": ["processor"],
        "assumptions": ["the user's Processor.transfer/materialize hooks return a payload holding the rows of their source (assumed contract; their preconditions are proved at the call sites)",
                        "Engine.get_join_identity_payload/get_doomed_payload: the iteration engine's implementations are verified from their bodies; the SQL engine's build SQLAlchemy objects (assumed), the base-class default None is out of scope",
                        "sql.Select.reapply keeps rows/columns/engine/readiness (assumed; subject of C17)",
                        "spec lemma 'readiness of a tree is monotone in the payload heap': its induction step (by cases on the node class, from the definitions of ready/extends) and its decreases clause are lemma obligations discharged by z3 in this check; the induction principle over finite relation trees is the meta-step",
                        "allocation stamps: objects returned by a call were allocated before it returned; leaves always carry payloads; payload cells of unallocated objects are empty",
                        "executing the processed tree in its final engine yields rows(result): iteration engine C01, SQL engine C02 (not claimed)"],
        "explanation": "Processor._process_recursive proved path by path (77 paths, recursion by contract, payload heap as ghost state): same rows/columns/engine, result evaluable by its engine alone, hooks only on self-contained non-trivial sources, payloads never replaced, transfers never gain payloads",
    },
    "C06": {
        "closure_depth": 1,  # already the longest-running checks; deeper levels are covered by the checks owning those functions
        # sqlsel: a SQL Select reads its columns / row bounds / flags from ``target`` while what is executed is what its own
        # attributes record -- the metadata of a Select is truthful exactly if the marker is coherent, so the one construction
        # site of Select objects (Select.apply_skip, class invariant of C17) is verified here as well (seeded change C06-agent5)
        # leaves: the leaves the library builds itself (make_doomed, make_join_identity, iteration make_leaf) discharge the hypothesis below
        "modules": ["processor", "sqlsel", "leaves"],
        "extra_keys": ["sql._select:Select.apply_skip"],
        # of its class invariants only the row-coherence one is C06's business (the structural one carries known finding F11 of C17)
        "only_obligations": {"sql._select:Select.apply_skip": ["select-rows-are-the-recorded-operations-over-the-skip-target", "select-columns-truthful"]},
        # "... so the short-cuts keyed on them never change a result": the consumers named by the property
        # (execute's short-circuits, Join elision in _begin_apply/_finish_apply, Processor chain pruning)
        "depends": ["C01", "C07"],
        "only_clauses": {"iteration._engine:Engine.execute": ["yields-exactly-the-rows-of-direct-evaluation"],
                         "_processor:Processor._process_recursive": ["same-columns-engine-and-rows"]},
        "assumptions": ["leaf relations the *user* declares have truthful columns and row bounds (hypothesis of the property); for the leaves the library builds itself (doomed, join identity, iteration make_leaf) that is proved (contracts/leaves.py)",
                        "law library spec/laws.py (status per law in coverage.law_library)"],
        "explanation": "truthfulness of columns/min_rows/max_rows as attribute contracts proved per operation class; flags imply content",
    },
    "C13": {
        "modules": ["predicates"],
        "extra": [_c13_frame],
        "assumptions": ["expression semantics of DESIGN 3.1 (integer rows, two-valued logic)"],
        "explanation": "as_trivial / flatten_logical_and / logical_and / columns_required against the spec functions ev, fv",
    },
    "C16": {
        "modules": ["diagnostics"],
        "assumptions": ["leaf relations declare truthful row bounds", "law library spec/laws.py (status per law in coverage.law_library)"],
        "explanation": "Diagnostics.run: doomed implies no rows; with a truthful executor doomed iff no rows; doomed verdicts carry a message",
    },
    "C19": {
        "modules": ["names", "c20", "sqlsel"],  # the SQL engine's override of materialize is on the name path as well
        "closure": False,  # get_relation_name / LeafRelation.__post_init__ / Engine.materialize are the whole name path
        "assumptions": ["uuid.uuid4() returns a value never issued before (probabilistic in reality: collision probability 2^-122); .hex has 32 characters",
                        "thread interleavings are not explored: the postcondition of a call depends only on that call's own uuid, not on the shared counter, so it holds under every schedule"],
        "explanation": "name = prefix ... hex(this call's uuid4); names with different 32-character suffixes differ",
    },
    "C04": {
        "modules": ["ops"],
        "assumptions": ["law library spec/laws.py (status per law in coverage.law_library)",
                        "PartialJoin cells: the join is resolved and no column is exposed by both operands without being joined on (provenance of such columns is left open by the property)"],
        "explanation": "commute of every operation class x every node-capable existing operation class (split into cells), all targets: X is a free row sequence",
    },
    "C03": {
        "modules": ["c20", "factories"],  # session 4: the public factory methods of BaseRelation are under contract
        "assumptions": ["law library spec/laws.py (status per law in coverage.law_library)",
                        "joins: no column is exposed by both operands without being joined on (the property leaves the provenance of such columns open)",
                        "Engine.append_unary / transfer / conform of lsst.daf.relation.sql are assumed to satisfy the generic engine contracts here (they are the subject of C02/C17)"],
        "explanation": "UnaryOperation.apply, every _begin_apply/_finish_apply, Engine.backtrack_unary (base + iteration), MarkerRelation.reapply, Transfer.simplify, commute (shared with C04)",
    },
    "C05": {
        "modules": ["c20", "factories"],  # session 4: the public factory methods of BaseRelation are under contract
        "assumptions": ["law library spec/laws.py (status per law in coverage.law_library)"],
        "explanation": "Slice.then, Sort.then, simplify of every class, every _finish_apply (recursive merging) and the Identity short-cuts of _begin_apply: merged tree has the rows of the two operations in sequence; no exception besides EngineError for unsupported operations",
    },
    "C14": {
        "modules": ["c20"],
        "assumptions": ["trees are built through the factories (closed world): the class invariants proved at every construction site in the library hold for every node",
                        "implementations in lsst.daf.relation.sql are assumed to satisfy the generic engine contracts (subject of C02/C17)"],
        "explanation": "tree invariants as class invariants proved at every construction site (engine consistency, resolved joins, no placeholder operations, supported expressions, transfers change engine) + no-op clauses",
    },
    "C15": {
        "modules": ["c20", "sqlsel", "factories"],  # sql.Engine.conform is verified here too (tagged C15): locked relations are wrapped, never re-created
        "assumptions": ["sql.Engine.transfer / materialize / append_* are assumed to satisfy the generic engine contracts here (subject of C17); sql.Engine.conform is verified in this check"],
        "explanation": "Transfer.simplify / Materialization.simplify / Engine.transfer / Engine.materialize / MarkerRelation.reapply / backtrack_unary locked clause",
    },
    "C20": {
        "modules": ["c20", "factories"],  # session 4: the public factory methods of BaseRelation are under contract
        "assumptions": ["'leaves every existing relation unchanged' is the frame property of C09"],
        "explanation": "exceptional postconditions (must-raise / raises-only-when) of _begin_apply, apply, binary _begin_apply/_finish_apply, constructors and __getitem__",
    },
}

_COMMON_NOTE = ("Trusted: the VC generator pyvc and its stated Python semantics (DESIGN 2.2), z3, closed world (only classes defined in /repo; "
                "trees built through the factories), partial correctness. ")

PROPS["C06"].update(
    level_text="Every applied_columns/applied_min_rows/applied_max_rows implementation, every min_rows/max_rows/columns property and the "
               "is_join_identity/is_trivial flags are proved, for all inputs, against the truthfulness contract "
               "(min_rows <= |rows| <= max_rows, columns == column set of rows) by z3 from the current source; induction over the tree via attribute contracts.",
    level_note=_COMMON_NOTE + "Assumed: leaves truthful (the property's hypothesis); tier-L laws on lengths/column sets of the row operators (bounded-checked, not yet Lean-proved). "
               "Consumers of the flags (execute short-cuts, Join elision, Processor pruning) are covered under C01/C07/C14 contracts as they are built.",
)
PROPS["C13"].update(
    level_text="as_trivial of every predicate class, flatten_logical_and, Predicate.logical_and/logical_or and columns_required of every expression/predicate/container class "
               "are proved against the spec functions ev (meaning on an arbitrary row) and fv (free columns) for all trees, with loop invariants over operand tuples.",
    level_note=_COMMON_NOTE + "Assumed: expression semantics of DESIGN 3.1. The spec lemma 'ev depends only on fv' and Selection.__post_init__ are not yet covered.",
)
PROPS["C16"].update(
    level_text="Diagnostics.run is proved (all 60 paths, recursion by contract) to doom only empty relations, to be exact with a truthful executor, and to attach a message to every doomed verdict; "
               "is_empty_invariant of every operation class is proved sound. The in-place edits of the verdict returned by the recursive call are justified by an obligation on every return path that the returned object "
               "is allocated by that call and not stored anywhere else (fresh-result; dicts keyed by id() and caller-supplied mappings are inside the executor's subset).",
    level_note=_COMMON_NOTE + "Assumed: truthful leaf bounds; tier-L laws; executor modelled as an uninterpreted boolean function of the relation.",
)
PROPS["C19"].update(
    level_text="get_relation_name is proved (exact model of its f-string, z3 strings) to return a name that starts with the prefix and ends with the 32-character hex of the uuid drawn by that very call; "
               "LeafRelation.__post_init__ and Engine.materialize are proved to keep an explicit name and otherwise store exactly such a generated name, untouched; the lemma 'different 32-character suffixes give different names' is discharged by the string solver. "
               "Uniqueness over every history and interleaving follows because no postcondition depends on the shared counter.",
    level_note=_COMMON_NOTE + "Assumed: uuid4 freshness (an assumed contract on an external function); schedules are not explored, the argument is independence from shared state.",
)
_LAWS = ("Law library spec/laws.py (algebra of filter/calc/proj/dedup/sort/slice/chain/join on row sequences, plus the row-at-a-time laws for generator bodies, the Sort-arm laws and two integer lemmas): all 83 laws are machine-checked in Lean 4 over a concrete model "
         "(lean/RelAlg, compiled by MANIFEST.setup_cmd; the Lean statements are generated from the same law table -- spec/leanprint.py -> lean/RelAlg/Generated.lean -- and each must be closed by the hand-written theorem) and bounded-checked natively (spec/lawcheck.py); "
         "the evidence file lists any law whose Lean theorem did not compile in this installation as assumed; ")
PROPS["C04"].update(
    level_text="commute of all 9 operation classes is proved against the C04 contract for every one of the 6 node-capable existing operation classes (54 cells, each its own obligation), "
               "with the target rows a free variable: well-formedness of the reported operations, row-sequence equality for full and partial moves, refusal hands back the existing operation. "
               "Two cells are genuine defects recorded as known findings (F4, F19), each re-proved with the finding's witness class excluded; a third (F7, join past a projection hiding a shadowed column) was repaired in /repo and its cell is now proved.",
    level_note=_COMMON_NOTE + _LAWS + "join cells assume a resolved join without columns exposed by both operands outside the join columns. Undischarged obligations get a bounded native search (replay/concretise.py) for a concrete failing input.",
)
PROPS["C03"].update(
    level_text="UnaryOperation.apply, every _begin_apply, iteration and base Engine.backtrack_unary, MarkerRelation.reapply and Engine.transfer/append_unary are proved: the returned relation's rows equal the operation applied at the root "
               "for every option combination, ColumnError only for requests ill-formed at the root, locked trees untouched. The projection cells of backtrack_unary (partially moved projections) are covered by a bounded native stand-in, labelled bounded.",
    level_note=_COMMON_NOTE + _LAWS + "SQL-engine implementations of append_unary/transfer/conform are assumed to meet the generic engine contracts (C02/C17). Joins: unshadowed, preferred engine = fixed operand's engine. Known findings F4/F19 (commute) apply; F7 is repaired.",
)
PROPS["C05"].update(
    level_text="Slice.then (window arithmetic, all integers), Sort.then (loop invariant over term lists), simplify of every class and the recursive merging in UnaryOperation._finish_apply are proved: the merged tree has exactly the rows of the two operations in sequence, "
               "the merged operation is valid and supported wherever both were, and no exception other than EngineError-for-unsupported can escape; the Identity short-cuts of _begin_apply/_finish_apply are proved to be no-ops.",
    level_note=_COMMON_NOTE + _LAWS,
)
PROPS["C14"].update(
    level_text="The tree invariants are class invariants proved at every construction site of a relation node in the library (UnaryOperationRelation, BinaryOperationRelation, Transfer, Materialization via reapply/transfer/materialize/_finish_apply): "
               "operation valid on and supported by its target's engine, operands of binary nodes share an engine, joins resolved on columns of both operands, no placeholder operation as node, transfers cross engines; engine/is_locked attribute definitions proved per class; documented no-ops return the relation itself.",
    level_note=_COMMON_NOTE + "SQL-engine node construction is covered by C17: every call of _finish_apply / apply_skip in sql/_engine.py and sql/_select.py is an obligation there (that is how F24 -- a calculation node invalid on its target -- was found and repaired); sql.Engine.transfer now conforms instead of re-wrapping (F15 repaired).",
)
PROPS["C15"].update(
    level_text="Transfer.simplify (never looks through a locked relation; shortcut has the same rows in the destination engine), Materialization.simplify, base Engine.transfer/materialize (no new node for leaves/materializations, self-transfer is a no-op), "
               "MarkerRelation.reapply (precondition: never applied to a Materialization) and the locked-tree clause of backtrack_unary (locked tree returned as the identical object, not done) are proved.",
    level_note=_COMMON_NOTE + "SQL-engine overrides of transfer/materialize are assumed (C17). Projection cells of backtrack_unary are bounded (stand-in S-C03-projection-backtracking).",
)
PROPS["C20"].update(
    level_text="Exceptional postconditions: every _begin_apply and UnaryOperation.apply must raise ColumnError for each documented ill-formedness whatever the preferred-engine options (proved from the body: _begin_apply runs first), and raises it only then; "
               "Chain/Join _begin_apply/_finish_apply (EngineError/ColumnError), Slice/Calculation/Join/ColumnFunction/PredicateFunction/LeafRelation constructors and BaseRelation.__getitem__ (TypeError/ValueError) likewise. The public factory methods of BaseRelation themselves (with_rows_satisfying, with_calculated_column, with_only_columns, without_duplicates, sorted, chain, materialized, transferred_to) are under contract as well (contracts/factories.py): documented rows, and the must-raise clauses restated at the factory; Relation.join: natural join on the shared key columns filtered by a caller-supplied predicate (the default predicate is not tied down).",
    level_note=_COMMON_NOTE + "'A rejected call leaves every existing relation unchanged' is the frame property C09, not re-proved here.",
)
PROPS["C09"].update(
    level_text="Generated from the current AST on every run and decided exactly (no sampling): (1) every dataclass that can occur in a relation tree is frozen-with-eq or identity-hashed and every compared field has a hashable declared type "
               "(equal trees then have equal hashes by dataclass semantics); (2) every statement that can write to an object (attribute/subscript/augmented assignment, object.__setattr__, mutating container methods) writes to an object allocated in the same call "
               "(flow-aware freshness analysis) or to a declared cell (marker payload in attach_payload, engine name counter); (3) no ambient-state imports; "
               "(4) hashability of the stored VALUES: the symbolic executor tracks set-vs-frozenset through |, -, &, calls, fields and parameters and proves, at every construction of a frozen dataclass with a field declared frozenset[...] anywhere in the library, that a frozenset is stored (a set compares equal but makes the relation unhashable), and that functions declared '-> frozenset[...]' return one.",
    level_note="Trusted: the AST analyses in contracts/persist.py. Assumed: user tags/literal values hashable; SQLAlchemy builder calls are generative; reflection is not used to mutate objects; 'identical SQL text twice' only via purity. "
               "Freshness of Diagnostics.run's result is a proved contract obligation of C16.",
    technique="frame and type obligations generated per mutating statement / per dataclass field from the current AST, decided by an intraprocedural freshness (ownership) analysis; stored-frozenset obligations generated by symbolic execution of the real bodies of every function that constructs such a dataclass (static kind tracking, no SMT needed)",
)
PROPS["C12"].update(
    level_text="sql.Engine.convert_column_expression and convert_predicate are proved arm by arm (10 cells, recursion by contract, comprehensions over operand tuples): the built SQL term's value equals the expression's/predicate's value on every NULL-free integer row, "
               "relative to the stated denotation of the SQLAlchemy builder calls (BETWEEN inclusive, truncating %, ...); the range-literal arm is proved for all integer start/stop/step including descending ranges and negative starts (after the F12 repair). "
               "The iteration engine's convert_column_expression / convert_column_container / convert_predicate are proved as well (9+2+5 arms): the returned closure is executed symbolically on the witness row of 'the callable does not denote the expression' and shown to compute the expression's value (recursion by contract, comprehensions over operand tuples, all()/any()/in/not).",
    level_note=_COMMON_NOTE + "Assumed: the SQL denotation model in contracts/sqlexpr.py and that the database implements it (no overflow); get_function returns operator.<name> for the portable names; three integer lemmas (spec/laws.py); stored callables are pure integer-valued functions of the row. The descending-range cell of the SQL side, formerly a bounded SQLite stand-in, is discharged with the Lean-proved lemma desc-range (the SQLite enumeration remains as the stage-2 search for a replayable failing range).",
)
PROPS["C01"].update(
    level_text="iteration.Engine.execute is proved arm by arm (13 cells): the returned iterable yields exactly the rows of direct evaluation of the tree (values, multiplicity, order), attached payloads are honoured, the three short-cuts (empty, join identity, payload) never change the result. "
               "Everything execute builds on is proved from the current source as well: every RowIterable constructor stores its arguments; every __iter__ (generator expressions and the generator function of SliceRowIterable, executed as loops with a ghost output sequence and loop invariants) yields the class's rows; to_mapping / to_sequence / materialized / sliced meet their contracts in every implementation; the attributes are bound nowhere but in __init__ (AST obligation); "
               "the converted callables denote their expressions (contracts/itconv.py); the Sort arm (groupby on direction + one stable list.sort per group, from the last group to the first) is proved by a loop invariant to be the stable multi-key sort. Known finding F8 (key-only deduplication) is re-proved with its witness class excluded.",
    level_note=_COMMON_NOTE + _LAWS + "Law sortc-group (LSD radix-sort lemma for one direction group) is Lean-proved like the rest. Assumed: the model of Python rows / generators / dict comprehensions / groupby / list.sort stated in DESIGN 2.2; stored callables are pure and total. A bounded native cross-check of that model against CPython runs with the check (replay/bounded_rowiter.py). Expressions are over the portable operator set (the property's quantifier). Independence of construction-time merging/reordering is C05/C03 (their contracts are verified here through `depends` and the depth-1 dependency closure).",
)
PROPS["C10"].update(
    level_text="MarkerRelation.attach_payload (write-once, frame: only this marker's cell, rejected attach changes nothing) and BaseRelation.attach_payload (always TypeError) are proved; an AST scan proves the only payload write in the library is that statement; "
               "iteration.Engine.execute is proved to return a cached payload without re-evaluation, never to replace a payload, to touch payload cells of this tree only and to leave an executed materialization with a payload; "
               "Processor._process_recursive is proved (all arms) never to replace or clear a payload, to short-circuit on an existing payload, and to leave every processed materialization with a payload -- except through a plain marker (known finding F13).",
    level_note=_COMMON_NOTE + "Processor hooks and the SQL engine's payload factories enter as assumed contracts (the iteration engine's payload factories are verified). Known finding F13: a materialization behind a plain marker (every SQL materialization wraps a Select) never receives its payload, so its upstream is evaluated again by every process() call. "
               "One frame obligation of _process_recursive is covered by the bounded stand-in S-C07-frame-rebuilt-materialization (labelled bounded).",
)
PROPS["C18"].update(
    level_text="iteration.Engine.execute is proved, arm by arm and by recursion, to start no iteration at all (ghost counters unchanged, no payload attached) on every tree made only of calculation, projection, selection, slice and chain over leaves, "
               "payload-carrying or statically trivial subtrees and same-engine markers/transfers -- for all such trees. Identical rows on repeated iteration: what an iterable yields is proved to be a function of its (immutable) attributes (contracts/rowiter.py), the Sort arm is proved to sort only a list it built itself, and the frame obligations of the iteration modules show nothing writes to an object it did not build. "
               "The counting clauses are proved per class: while a constructor, __iter__, to_mapping, to_sequence or sliced body is executed symbolically, every start of an iteration of a row-iterable object is logged (ghost event log), "
               "and each class is proved to start exactly one iteration of each of its sources per full iteration, outside any loop (constructors and sliced: none; to_mapping / to_sequence: at most one, of the receiver) -- by induction over the object graph each leaf occurrence is iterated at most once per pass, "
               "and eager results hold their rows in a list / dict value, not a reference to their input. An independent AST effect scan and a bounded native harness with counting leaf payloads (replay/bounded_lazy.py, labelled bounded) cross-check this.",
    level_note=_COMMON_NOTE + "Assumed: inside execute, to_mapping, materialized and list() may start any number of iterations (ghost counter havocked there). The induction over the object graph (from the per-class clauses to 'each leaf occurrence at most once') is a meta-argument, not machine-checked.",
)
PROPS["C17"].update(
    level_text="Select coherence is a class invariant (rows(select.target) == slice(dedup?(proj?(sort(rows(skip_to))))) with the recorded operations; peeling the recorded slice/deduplication/projection/sort nodes off select.target arrives at skip_to; is_compound iff skip_to is a Chain node; "
               "skip_to has no managed operation on top) proved at the only construction site, Select.apply_skip, for all arguments. sql.Engine.conform is proved idempotent (a Select is returned as the same object) and content-preserving (rows, columns, engine) by recursion on any well-formed tree; "
               "_append_unary_to_select (every operation class and flag combination) and _append_binary_to_select are proved to return a Select whose rows are the operation applied; Select.reapply/strip and Engine.append_unary/append_binary/transfer/materialize return Selects with the expected rows.",
    level_note=_COMMON_NOTE + _LAWS + "Six genuine defects surfaced as failing obligations while these contracts were written; five were repaired in /repo (F15, F24, F23, F10, F7-sql: see KNOWN_FINDINGS.json) and their obligations are now proved; F11 (marker/skip target divergence, rows unaffected) is a known finding re-proved with its witness class excluded. "
               "Assumed: Select objects are only built by apply_skip; SQL emission is outside this check (C02).",
)
PROPS["C07"].update(
    level_text="Processor._process_recursive is proved against a contract over the payload heap (ghost state): the returned tree has the rows, columns and engine of the input; it can be evaluated by its engine alone (every transfer/materialization in it carries a payload or is statically trivial); "
               "the transfer/materialize hooks are invoked only on sources with that property and never for a statically empty or join-identity relation (hook preconditions are obligations at the call sites); no existing payload is replaced, engine-changing transfers of the input never gain one, "
               "only materializations and same-engine markers do, nodes above the processed one are untouched. MarkerRelation.reapply/attach_payload, Engine.materialize, UnaryOperation/BinaryOperation.apply carry the readiness clauses the proof uses.",
    level_note=_COMMON_NOTE + _LAWS + "Assumed: the hooks' postconditions (payload == rows of the source), the SQL engine's payload factories return payloads (the iteration engine's are verified), sql.Select.reapply (C17), monotonicity of readiness in the payload heap (spec lemma; induction step discharged by z3 as a lemma obligation), executing the result gives rows(result) (C01; SQL side C02 not claimed). "
               "Bounded, not proved: the frame clause when a re-created materialization resolves to an existing node (stand-in S-C07-frame-rebuilt-materialization, replay/bounded_processor.py, 30000 random trees). Known finding F13 (persisted flag through plain markers). "
               "'Same-engine transfers' (destination == target engine; never built by Engine.transfer) are exempt from the never-gain clause.",
)
CLAIMED = {"C01", "C03", "C04", "C05", "C06", "C07", "C09", "C10", "C12", "C13", "C14", "C15", "C16", "C17", "C18", "C19", "C20"}
_SQL_EMISSION = ("What contracts on this code can reach is proved elsewhere: the relational half (every commutation / merging / nesting rule of sql.Engine preserves the ordered rows of the applied operation sequence; "
                 "slice and sort merging; order-loss guards) under C17, construction-time validity of accepted trees under C14/C17/C20. What remains is to_payload/_select_to_executable, SQLAlchemy and the database: a contract there needs an assumed denotation of "
                 "SQLAlchemy's select/subquery/join/union/distinct/order_by/offset/limit (bag semantics, database-defined physical order) and of the database itself -- assumed contracts on external dependencies that would carry the whole claim, "
                 "so nothing would be decided by the proof and a change to the emission code could not be seen; the dict-of-SQLAlchemy-column bookkeeping is also outside the verifier's Python subset. Translation validation on a live SQLite is a different technique family (DESIGN section 8).")
NOT_CLAIMED: dict[str, str] = {
    "C02": "SQL compilation vs. a real database: " + _SQL_EMISSION,
    "C08": "'compiles and executes without an internal error / SQL the database rejects' is a statement about emitted SQL and a database (dialect rejections such as F17 are invisible to any contract on /repo): " + _SQL_EMISSION,
    "C11": "the order in which a database returns rows (both physical scan orders): " + _SQL_EMISSION,
}
