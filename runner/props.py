"""Per-property configuration: which contract modules serve it, extra checks, assumptions."""
from __future__ import annotations

PROPS: dict[str, dict] = {
    "C06": {
        "modules": ["meta"],
        "assumptions": ["leaf relations declare truthful columns and row bounds (hypothesis of the property)",
                        "laws of tier L (length/columns of the row-sequence operators), see spec/laws.py"],
        "explanation": "truthfulness of columns/min_rows/max_rows as attribute contracts proved per operation class; flags imply content",
    },
    "C13": {
        "modules": ["predicates"],
        "assumptions": ["expression semantics of DESIGN 3.1 (integer rows, two-valued logic)"],
        "explanation": "as_trivial / flatten_logical_and / logical_and / columns_required against the spec functions ev, fv",
    },
    "C05": {
        "modules": ["op_slice"],
        "assumptions": [],
        "explanation": "Slice.then / simplify contracts: merged operation equals the two applied in sequence; merging never raises.",
    },
}
