"""Per-property configuration: which contract modules serve it, extra checks, assumptions."""
from __future__ import annotations

def _c10_extra(repo, reg, tier):
    from contracts.payload import scan_payload_writes

    return scan_payload_writes(repo, reg, tier)


PROPS: dict[str, dict] = {
    "C10": {
        "modules": ["payload"],
        "extra": [_c10_extra],
        "assumptions": [],
        "explanation": "attach_payload contracts (write-once, rejected attach changes nothing, frame) + AST scan: no other payload write in the library",
    },
    "C06": {
        "modules": ["meta"],
        "assumptions": ["leaf relations declare truthful columns and row bounds (hypothesis of the property)",
                        "laws of tier L (length/columns of the row-sequence operators), see spec/laws.py"],
        "explanation": "truthfulness of columns/min_rows/max_rows as attribute contracts proved per operation class; flags imply content",
    },
    "C13": {
        "modules": ["predicates"],
        "assumptions": ["expression semantics of DESIGN 3.1 (integer rows, two-valued logic)"],
        "explanation": "as_trivial / flatten_logical_and / logical_and / columns_required against the spec functions ev, fv",
    },
    "C16": {
        "modules": ["diagnostics"],
        "assumptions": ["leaf relations declare truthful row bounds", "laws of tier L (spec/laws.py)"],
        "explanation": "Diagnostics.run: doomed implies no rows; with a truthful executor doomed iff no rows; doomed verdicts carry a message",
    },
    "C19": {
        "modules": ["names"],
        "assumptions": ["uuid.uuid4() returns a value never issued before (probabilistic in reality: collision probability 2^-122); .hex has 32 characters",
                        "thread interleavings are not explored: the postcondition of a call depends only on that call's own uuid, not on the shared counter, so it holds under every schedule"],
        "explanation": "name = prefix ... hex(this call's uuid4); names with different 32-character suffixes differ",
    },
    "C04": {
        "modules": ["ops"],
        "assumptions": ["laws of tiers L/T1/T2/T3 (spec/laws.py): assumed, bounded-checked natively (spec/lawcheck.py), not yet Lean-proved",
                        "PartialJoin cells: the join is resolved and no column is exposed by both operands without being joined on (provenance of such columns is left open by the property)"],
        "explanation": "commute of every operation class x every node-capable existing operation class (split into cells), all targets: X is a free row sequence",
    },
    "C03": {
        "modules": ["apply"],
        "assumptions": ["laws of tiers L/T1/T2/T3 (spec/laws.py): assumed, bounded-checked natively, not yet Lean-proved",
                        "joins: no column is exposed by both operands without being joined on (the property leaves the provenance of such columns open)",
                        "Engine.append_unary / transfer / conform of lsst.daf.relation.sql are assumed to satisfy the generic engine contracts here (they are the subject of C02/C17)"],
        "explanation": "UnaryOperation.apply, every _begin_apply/_finish_apply, Engine.backtrack_unary (base + iteration), MarkerRelation.reapply, Transfer.simplify, commute (shared with C04)",
    },
    "C05": {
        "modules": ["op_slice"],
        "assumptions": [],
        "explanation": "Slice.then / simplify contracts: merged operation equals the two applied in sequence; merging never raises.",
    },
}

_COMMON_NOTE = ("Trusted: the VC generator pyvc and its stated Python semantics (DESIGN 2.2), z3, closed world (only classes defined in /repo; "
                "trees built through the factories), partial correctness. ")

PROPS["C06"].update(
    level_text="Every applied_columns/applied_min_rows/applied_max_rows implementation, every min_rows/max_rows/columns property and the "
               "is_join_identity/is_trivial flags are proved, for all inputs, against the truthfulness contract "
               "(min_rows <= |rows| <= max_rows, columns == column set of rows) by z3 from the current source; induction over the tree via attribute contracts.",
    level_note=_COMMON_NOTE + "Assumed: leaves truthful (the property's hypothesis); tier-L laws on lengths/column sets of the row operators (bounded-checked, not yet Lean-proved). "
               "Consumers of the flags (execute short-cuts, Join elision, Processor pruning) are covered under C01/C07/C14 contracts as they are built.",
)
PROPS["C13"].update(
    level_text="as_trivial of every predicate class, flatten_logical_and, Predicate.logical_and/logical_or and columns_required of every expression/predicate/container class "
               "are proved against the spec functions ev (meaning on an arbitrary row) and fv (free columns) for all trees, with loop invariants over operand tuples.",
    level_note=_COMMON_NOTE + "Assumed: expression semantics of DESIGN 3.1. The spec lemma 'ev depends only on fv' and Selection.__post_init__ are not yet covered.",
)
PROPS["C16"].update(
    level_text="Diagnostics.run is proved (all 60 paths, recursion by contract) to doom only empty relations, to be exact with a truthful executor, and to attach a message to every doomed verdict; "
               "is_empty_invariant of every operation class is proved sound.",
    level_note=_COMMON_NOTE + "Assumed: truthful leaf bounds; tier-L laws; executor modelled as an uninterpreted boolean function of the relation.",
)
PROPS["C19"].update(
    level_text="get_relation_name is proved (exact model of its f-string, z3 strings) to return a name that starts with the prefix and ends with the 32-character hex of the uuid drawn by that very call; "
               "LeafRelation.__post_init__ is proved to keep an explicit name and otherwise store exactly such a generated name; the lemma 'different 32-character suffixes give different names' is discharged by the string solver. "
               "Uniqueness over every history and interleaving follows because no postcondition depends on the shared counter.",
    level_note=_COMMON_NOTE + "Assumed: uuid4 freshness (an assumed contract on an external function); schedules are not explored, the argument is independence from shared state.",
)
CLAIMED = {"C06", "C13", "C16", "C19"}
NOT_CLAIMED: dict[str, str] = {}
