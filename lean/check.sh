#!/bin/sh
# Compile the Lean development from scratch and list the proved laws.
#
#   usage:  /verif/lean/check.sh          (no arguments; works from any directory)
#   exit 0 iff Spec.lean, Lemmas.lean, Sanity.lean and Laws.lean all compile, none of them contains a hole, and
#   every law theorem depends on no axiom other than Lean's standard three
#   (propext, Classical.choice, Quot.sound).
#   Output: one line `PROVED <law-name-with-dashes>` per theorem of RelAlg/Laws.lean.
#
# How the modules find each other (no lake project is needed): each file is compiled with
#   lean -R <this dir> -o build/RelAlg/<Module>.olean RelAlg/<Module>.lean
# (`-R` makes the module name `RelAlg.<Module>`), and `LEAN_PATH=<this dir>/build` lets the next
# file resolve `import RelAlg.<Module>`.  Mathlib is found through the toolchain's own search path
# (it is installed in the sysroot of the lean binary), so LEAN_PATH only needs the build dir.
#
# Timing: ~10 s with a warm file cache; the first (cold) run pays for loading the Mathlib .olean
# files of `Mathlib.Data.List.Sort` / `Mathlib.Data.Finset.Basic` (about 1 minute).
set -u
cd "$(dirname "$0")" || exit 1
ROOT=$(pwd)
BUILD="$ROOT/build"
rm -rf "$BUILD"; mkdir -p "$BUILD/RelAlg"
LEAN_PATH="$BUILD"; export LEAN_PATH

# 1. no holes / escape hatches anywhere in the sources (comments included, to keep this simple)
if grep -nwE 'sorry|admit|axiom|native_decide|unsafe|sorryAx' RelAlg/*.lean; then
  echo "FAIL: forbidden keyword in sources" >&2; exit 1
fi

# 2. compile, in dependency order
for m in Spec Lemmas Sanity Laws; do
  out=$(lean -R "$ROOT" -o "$BUILD/RelAlg/$m.olean" "RelAlg/$m.lean" 2>&1)
  rc=$?
  [ -n "$out" ] && echo "$out" >&2
  if [ $rc -ne 0 ]; then echo "FAIL: RelAlg/$m.lean does not compile" >&2; exit 1; fi
  if echo "$out" | grep -q "sorry"; then echo "FAIL: RelAlg/$m.lean uses sorry" >&2; exit 1; fi
done

# 3. what is proved must be what the VCs assume: RelAlg/Generated.lean is printed from the law table spec/laws.py (the same
#    entries give the SMT axioms) and states every law as `example ... : <generated statement> := Laws.<name> ...`.  A law whose
#    example does not compile is NOT reported as proved.  The committed file must be what the printer prints now.
if command -v python3-vt >/dev/null 2>&1; then
  (cd "$ROOT/.." && python3-vt -m spec.leanprint) > "$BUILD/Generated.lean.new" 2>/dev/null
  if [ -s "$BUILD/Generated.lean.new" ] && ! cmp -s "$BUILD/Generated.lean.new" RelAlg/Generated.lean; then
    echo "FAIL: RelAlg/Generated.lean is stale (spec/leanprint.py prints something else); regenerate it" >&2; exit 1
  fi
fi
genout=$(lean -R "$ROOT" -o "$BUILD/RelAlg/Generated.olean" RelAlg/Generated.lean 2>&1)
# line numbers of errors -> names of the laws whose example contains that line
badlaws=$(echo "$genout" | sed -n 's/^RelAlg\/Generated.lean:\([0-9]*\):[0-9]*: error.*/\1/p' | while read ln; do
  awk -v L="$ln" '/^-- law /{name=$3} NR==L{print name}' RelAlg/Generated.lean; done | sort -u)
if [ -n "$badlaws" ]; then echo "generated statement not proved by the hand-written theorem for: $badlaws" >&2; fi

# 4. audit the axioms of every law theorem (`theorem <name>` at the start of a line of Laws.lean)
names=$(sed -n 's/^theorem \([A-Za-z0-9_]*\).*/\1/p' RelAlg/Laws.lean)
{
  echo "import RelAlg.Laws"
  for n in $names; do echo "#print axioms RelAlg.Laws.$n"; done
} > "$BUILD/Audit.lean"
audit=$(lean "$BUILD/Audit.lean" 2>&1 | tr '\n' ' ' | sed "s/'RelAlg\.Laws\./\n'RelAlg.Laws./g")
rc=0
for n in $names; do
  line=$(echo "$audit" | grep -F "'RelAlg.Laws.$n' ")
  if [ -z "$line" ]; then echo "FAIL: no axiom report for $n" >&2; rc=1; continue; fi
  bad=$(echo "$line" | sed -n 's/.*depends on axioms: \[\(.*\)\].*/\1/p' | tr ',' '\n' | tr -d ' ' \
        | grep -vE '^(propext|Classical\.choice|Quot\.sound)?$')
  if [ -n "$bad" ]; then echo "FAIL: $n depends on $bad" >&2; rc=1; continue; fi
  law=$(echo "$n" | tr '_' '-')
  if echo "$badlaws" | grep -qx -- "$law"; then echo "FAIL: $law: the generated statement is not what the theorem proves" >&2; rc=1; continue; fi
  if ! grep -q -- "^-- law $law\( \|\$\)" RelAlg/Generated.lean; then echo "FAIL: $law has no generated statement (not in the law table)" >&2; rc=1; continue; fi
  echo "PROVED $law"
done
exit $rc
