/-
  RelAlg.Spec — the concrete model of the row-sequence operators.

  This file is a Lean 4 transcription of the `NativeBackend` of /verif/spec/lawcheck.py
  (the reference semantics of every operator used by the law table /verif/spec/laws.py).
  It contains DEFINITIONS ONLY; the laws are proved in RelAlg/Laws.lean (helper lemmas in
  RelAlg/Lemmas.lean, concrete spot checks of the definitions in RelAlg/Sanity.lean).

  Correspondence (NativeBackend -> Lean):
    row  (dict tag -> int, total)            Row    := Tag → Int
    RS   (frozenset cols, tuple rows)        RS     := ⟨cols : Finset Tag, rows : List Row⟩
    "masked" (0 outside the column set)      Masked X   (a predicate, NOT a structure field;
                                             laws that need it carry it as a hypothesis)
    NPred / NExpr (fn, fv)                   Pred / Expr (eval, fv, dep)
    Callable (EXPRS + PREDS, used as fn)     Callable (fn : Row → Int, truthiness = "≠ 0")
    Terms  (tuple of (NExpr, asc))           Terms  := List (Expr × Bool)
    OptInt (None | int)                      OptInt := Option Int
-/
import Mathlib.Data.Finset.Basic
import Mathlib.Data.List.Sort

namespace RelAlg

open Classical

/-! ## Carriers -/

abbrev Tag := Nat
abbrev Row := Tag → Int
abbrev TagSet := Finset Tag
abbrev OptInt := Option Int

/-- A row sequence: a column set and a list of rows. -/
@[ext] structure RS where
  cols : TagSet
  rows : List Row

/-- `mask(row, cols)`: keep the values at `cols`, 0 elsewhere. -/
def mask (P : TagSet) (r : Row) : Row := fun t => if t ∈ P then r t else 0

/-- The all-zero row. -/
def zeroRow : Row := fun _ => 0

/-- Every row holds 0 outside the column set (the invariant of `sample_rs` in lawcheck.py). -/
def Masked (X : RS) : Prop := ∀ r ∈ X.rows, ∀ t, t ∉ X.cols → r t = 0

/-- A predicate as a semantic object: evaluation function, the tags it depends on, and the fact
that it depends on nothing else. -/
structure Pred where
  eval : Row → Bool
  fv : TagSet
  dep : ∀ r r' : Row, (∀ t ∈ fv, r t = r' t) → eval r = eval r'

/-- An integer expression as a semantic object. -/
structure Expr where
  eval : Row → Int
  fv : TagSet
  dep : ∀ r r' : Row, (∀ t ∈ fv, r t = r' t) → eval r = eval r'

/-- A Python callable on rows (no declared dependencies).  Used as a value (`mapc`) or through its
truthiness `bool(fn r)`, i.e. `fn r ≠ 0` (`filterc`). -/
structure Callable where
  fn : Row → Int

/-- A sort term: expression and direction (`true` = ascending). -/
abbrev Term := Expr × Bool
abbrev Terms := List Term

/-! ## Integers / optional integers (the vocabulary of the law formulas) -/

def isNone (b : OptInt) : Prop := b = none
/-- `B.val`: the payload, 0 for `None`. -/
def val (b : OptInt) : Int := b.getD 0

instance (b : OptInt) : Decidable (isNone b) := by unfold isNone; exact inferInstance

/-! ## Sequences -/

def rlen (X : RS) : Int := (X.rows.length : Int)
def rcols (X : RS) : TagSet := X.cols
def empty (C : TagSet) : RS := ⟨C, []⟩
/-- `mask({t:0}, ())` is the all-zero row. -/
def unit : RS := ⟨∅, [zeroRow]⟩

/-- filter with an arbitrary Boolean function on rows. -/
def filterF (f : Row → Bool) (X : RS) : RS := ⟨X.cols, X.rows.filter f⟩
def filter (p : Pred) (X : RS) : RS := filterF p.eval X

/-- calc with an arbitrary integer function on rows:
`mask({**row, t: f(row)}, cols ∪ {t})` for every row.
NOTE: `calc` is a Lean keyword; the operator `calc` of laws.py is called `calcE` here. -/
def calcF (t : Tag) (f : Row → Int) (X : RS) : RS :=
  ⟨insert t X.cols, X.rows.map fun r => mask (insert t X.cols) (Function.update r t (f r))⟩
def calcE (t : Tag) (e : Expr) (X : RS) : RS := calcF t e.eval X

def proj (P : TagSet) (X : RS) : RS := ⟨P, X.rows.map (mask P)⟩

/-- The dedup loop: `seen` is the set of rows already emitted. -/
noncomputable def dedupAux : List Row → List Row → List Row
  | _, [] => []
  | seen, r :: l => if r ∈ seen then dedupAux seen l else r :: dedupAux (r :: seen) l

noncomputable def dedupRows (l : List Row) : List Row := dedupAux [] l
noncomputable def dedup (X : RS) : RS := ⟨X.cols, dedupRows X.rows⟩

/-- The comparison used by one sort pass: `key r ≤ key s` for ascending terms, reversed for
descending ones (`rows.sort(key=..., reverse=not asc)`). -/
def termLe (t : Term) (r s : Row) : Prop :=
  if t.2 = true then t.1.eval r ≤ t.1.eval s else t.1.eval s ≤ t.1.eval r

instance (t : Term) : DecidableRel (termLe t) := fun r s => by
  unfold termLe; exact inferInstance

/-- One stable sort pass (Python's `list.sort` is stable, also with `reverse=True`); the stable
sort used here is Mathlib's insertion sort. -/
def sortPass (t : Term) (l : List Row) : List Row := l.insertionSort (termLe t)

/-- `for e, asc in reversed(ts): rows.sort(...)`: passes applied from the last term to the first. -/
def sortRows (ts : Terms) (l : List Row) : List Row := ts.foldr sortPass l
def sort (ts : Terms) (X : RS) : RS := ⟨X.cols, sortRows ts X.rows⟩

/-- `X[a:b]`; outside the hypothesis of the laws (negative bounds) the native model returns `X`. -/
def slice (a : Int) (b : OptInt) (X : RS) : RS :=
  if a < 0 ∨ (∃ v, b = some v ∧ v < 0) then X
  else ⟨X.cols, match b with
                | none => X.rows.drop a.toNat
                | some v => (X.rows.take v.toNat).drop a.toNat⟩

def chain (X Y : RS) : RS := ⟨X.cols, X.rows ++ Y.rows⟩

/-- `{t: (s[t] if t in Y.cols else r[t])}`. -/
def merge (cY : TagSet) (r s : Row) : Row := fun t => if t ∈ cY then s t else r t

/-- Nested loop join on rows. -/
def joinRows (p : Pred) (K cX cY : TagSet) (xs ys : List Row) : List Row :=
  xs.flatMap fun r => ys.filterMap fun s =>
    if (∀ k ∈ K, r k = s k) ∧ p.eval (merge cY r s) = true
    then some (mask (cX ∪ cY) (merge cY r s)) else none

def join (p : Pred) (K : TagSet) (X Y : RS) : RS :=
  ⟨X.cols ∪ Y.cols, joinRows p K X.cols Y.cols X.rows Y.rows⟩

/-! ## Expressions -/

def fv (p : Pred) : TagSet := p.fv
def fvx (e : Expr) : TagSet := e.fv
def fvts (ts : Terms) : TagSet := ts.foldr (fun t acc => t.1.fv ∪ acc) ∅
def ptrue (p : Pred) : Prop := ∀ r, p.eval r = true
def pfalse (p : Pred) : Prop := ∀ r, p.eval r = false
/-- `r` denotes `p AND q`. -/
def pand (p q r : Pred) : Prop := ∀ x, r.eval x = (p.eval x && q.eval x)
def pequiv (p q : Pred) : Prop := ∀ x, p.eval x = q.eval x

/-- `Sort.then`: `b`'s terms first, then the terms of `a` not already present. -/
noncomputable def tcatList (a b : Terms) : Terms :=
  a.foldl (fun out t => if t ∈ out then out else out ++ [t]) b
def tcat (a b c : Terms) : Prop := c = tcatList a b
def tlen (ts : Terms) : Int := (ts.length : Int)

/-! ## Iteration engine -/

/-- `d[k] = v` on an insertion-ordered dict (association list): an existing key keeps its
position and gets the new value, a new key is appended. -/
noncomputable def dictSet (d : List (Row × Row)) (k v : Row) : List (Row × Row) :=
  if k ∈ d.map Prod.fst then d.map (fun kv => if kv.1 = k then (k, v) else kv) else d ++ [(k, v)]

/-- `for r in rows: d[key(r)] = r; d.values()`.  The key tuple `(r[k] for k in sorted(K))` is
represented by the masked row `mask K r` (two rows have the same tuple iff the same masked row). -/
noncomputable def dedupKeyRows (K : TagSet) (l : List Row) : List Row :=
  (l.foldl (fun d r => dictSet d (mask K r) r) []).map Prod.snd
noncomputable def dedup_key (K : TagSet) (X : RS) : RS := ⟨X.cols, dedupKeyRows K X.rows⟩

def mapc (t : Tag) (cl : Callable) (X : RS) : RS := calcF t cl.fn X
def filterc (cl : Callable) (X : RS) : RS := filterF (fun r => decide (cl.fn r ≠ 0)) X
def den_x (cl : Callable) (e : Expr) : Prop := ∀ r, cl.fn r = e.eval r
def den_p (cl : Callable) (p : Pred) : Prop := ∀ r, decide (cl.fn r ≠ 0) = p.eval r

/-! ## Row-at-a-time vocabulary (used for the generator bodies of the RowIterable classes) -/

/-- `X ++ [r]` -/
def rsnoc (X : RS) (r : Row) : RS := ⟨X.cols, X.rows ++ [r]⟩
/-- the first `i` rows -/
def rprefix (X : RS) (i : Int) : RS := ⟨X.cols, X.rows.take i.toNat⟩
/-- row number `i` (the all-zero row outside the sequence) -/
def rnth (X : RS) (i : Int) : Row := X.rows.getD i.toNat zeroRow
/-- `{**r, t: v}` as a total map -/
def rput (r : Row) (t : Tag) (v : Int) : Row := Function.update r t v
/-- `mask` under the name the law table uses -/
def rmask (P : TagSet) (r : Row) : Row := mask P r
/-- value a callable returns on a row -/
def capp (cl : Callable) (r : Row) : Int := cl.fn r

/-! ## Sort-term windows (the Sort arm of the iteration engine) -/

/-- terms from index `a` on -/
def tsuffix (ts : Terms) (a : Int) : Terms := ts.drop a.toNat
/-- terms `[a, b)` -/
def tslice (ts : Terms) (a b : Int) : Terms := (ts.take b.toNat).drop a.toNat

/-! ## one stable sort by the tuple of a direction group's values (the Sort arm of the iteration engine) -/

/-- direction-adjusted value: descending order is ascending order on the negated value -/
def ckey (asc : Bool) (c : Callable) (r : Row) : Int := if asc = true then c.fn r else - c.fn r

/-- `tuple(c(r) for c in cs) <= tuple(c(s) for c in cs)` (with `reverse`: `>=`), i.e. lexicographic on the adjusted values -/
def lexLe (asc : Bool) : List Callable → Row → Row → Prop
  | [], _, _ => True
  | c :: cs, r, s => ckey asc c r < ckey asc c s ∨ (ckey asc c r = ckey asc c s ∧ lexLe asc cs r s)

noncomputable instance (asc : Bool) (cs : List Callable) : DecidableRel (lexLe asc cs) := fun _ _ => Classical.propDecidable _

/-- rows sorted once by the tuple of the callables' values (`reverse = ¬asc`) -/
noncomputable def sortcRows (cs : List Callable) (asc : Bool) (l : List Row) : List Row := l.insertionSort (lexLe asc cs)

/-- `rows.sort(key=lambda row: tuple(c(row) for c in cs), reverse=not asc)` -/
noncomputable def sortc (cs : List Callable) (asc : Bool) (X : RS) : RS := ⟨X.cols, sortcRows cs asc X.rows⟩
/-- the callables denote, one by one, the expressions of the terms `[a, b)` -/
def den_terms (cs : List Callable) (ts : Terms) (a b : Int) : Prop :=
  List.Forall₂ (fun c (t : Term) => den_x c t.1) cs (tslice ts a b)
/-- the terms `[a, b)` all have direction `d` -/
def same_dir (ts : Terms) (a b : Int) (d : Bool) : Prop := ∀ t ∈ tslice ts a b, t.2 = d

/-! ## Formula abbreviations of laws.py (`wf`, `win_equiv`, `noshadow`) -/

/-- well-formed slice bounds -/
def wf (a : Int) (b : OptInt) : Prop := 0 ≤ a ∧ (isNone b ∨ a ≤ val b)

/-- The index window of slice `(A,Bv)` equals that of slice `(a2,b2)` applied after slice `(a1,b1)`. -/
def win_equiv (a1 : Int) (b1 : OptInt) (a2 : Int) (b2 : OptInt) (A : Int) (Bv : OptInt) : Prop :=
  let S := a1 + a2
  let e_none := isNone b1 ∧ isNone b2
  let E := if isNone b1 then a1 + val b2
           else if isNone b2 then val b1 else min (val b1) (a1 + val b2)
  let comp_empty := ¬ e_none ∧ E ≤ S
  let res_empty := ¬ isNone Bv ∧ val Bv ≤ A
  let same := A = S ∧ (if e_none then isNone Bv else (¬ isNone Bv ∧ val Bv = E))
  (comp_empty ∧ res_empty) ∨ (¬ comp_empty ∧ same)

/-- columns both operands expose must be join keys -/
def noshadow (CX CF K : TagSet) : Prop := CX ∩ CF ⊆ K

end RelAlg
