/-
  RelAlg.Laws — one theorem per law of /verif/spec/laws.py (name: `-` replaced by `_`), stated in
  the model of RelAlg/Spec.lean and proved.  Only law theorems are declared with `theorem` at the
  beginning of a line in this file (check.sh relies on it).
-/
import RelAlg.Lemmas

namespace RelAlg.Laws

open Classical RelAlg

/-! ## tier L: lengths and column sets -/

theorem len_nonneg (X : RS) : 0 ≤ rlen X := by
  simp [rlen]

theorem empty (C : TagSet) : rlen (RelAlg.empty C) = 0 ∧ rcols (RelAlg.empty C) = C := by
  simp [rlen, rcols, RelAlg.empty]

theorem empty_unique (X : RS) : rlen X = 0 → X = RelAlg.empty (rcols X) := by
  intro h
  cases X with
  | mk c rows =>
    simp only [rlen, Int.natCast_eq_zero, List.length_eq_zero_iff] at h
    simp [RelAlg.empty, rcols, h]

theorem unit : rlen RelAlg.unit = 1 ∧ rcols RelAlg.unit = ∅ := by
  simp [rlen, rcols, RelAlg.unit]

theorem unit_unique (X : RS) (hX : Masked X) :
    (rlen X = 1 ∧ rcols X = ∅) → X = RelAlg.unit := by
  rintro ⟨h1, h2⟩
  cases X with
  | mk c rows =>
    simp only [rcols] at h2
    subst h2
    simp only [rlen] at h1
    have h1' : rows.length = 1 := by exact_mod_cast h1
    obtain ⟨r, rfl⟩ := List.length_eq_one_iff.mp h1'
    have : r = zeroRow := by
      funext t
      exact hX r (by simp) t (by simp)
    simp [RelAlg.unit, this]

theorem filter_len_cols (p : Pred) (X : RS) :
    rlen (filter p X) ≤ rlen X ∧ rcols (filter p X) = rcols X := by
  refine ⟨?_, rfl⟩
  simp only [rlen, filter, filterF]
  exact_mod_cast List.length_filter_le _ _

theorem calc_len_cols (t : Tag) (e : Expr) (X : RS) :
    rlen (calcE t e X) = rlen X ∧ rcols (calcE t e X) = insert t (rcols X) := by
  simp [rlen, rcols, calcE, calcF]

theorem proj_len_cols (P : TagSet) (X : RS) :
    rlen (proj P X) = rlen X ∧ rcols (proj P X) = P := by
  simp [rlen, rcols, proj]

theorem slice_len_cols (a : Int) (b : OptInt) (X : RS) :
    (0 ≤ a ∧ (isNone b ∨ 0 ≤ val b)) →
      rlen (slice a b X) = max ((if isNone b then rlen X else min (val b) (rlen X)) - a) 0 ∧
        rcols (slice a b X) = rcols X := by
  rintro ⟨ha, hb⟩
  cases b with
  | none =>
    have : ¬ a < 0 := by omega
    simp [slice, isNone, rlen, rcols, this]
    omega
  | some v =>
    have hv : 0 ≤ v := by simpa [isNone, val] using hb
    have : ¬ a < 0 := by omega
    have : ¬ v < 0 := by omega
    simp [slice, isNone, val, rlen, rcols, *]
    omega

theorem chain_len_cols (X Y : RS) :
    rlen (chain X Y) = rlen X + rlen Y ∧ rcols (chain X Y) = rcols X := by
  simp [rlen, rcols, chain]

theorem chain_empty (X Y : RS) :
    ((rcols X = rcols Y ∧ rlen X = 0) → chain X Y = Y) ∧
      ((rcols X = rcols Y ∧ rlen Y = 0) → chain X Y = X) := by
  cases X with
  | mk cx xs =>
  cases Y with
  | mk cy ys =>
    simp only [rcols, rlen, chain, Int.natCast_eq_zero, List.length_eq_zero_iff]
    constructor
    · rintro ⟨rfl, rfl⟩; simp
    · rintro ⟨rfl, rfl⟩; simp

theorem dedup_len_cols (X : RS) (hX : Masked X) :
    rlen (dedup X) ≤ rlen X ∧ (1 ≤ rlen X → 1 ≤ rlen (dedup X)) ∧
      (rcols X = ∅ → rlen (dedup X) ≤ 1) ∧ rcols (dedup X) = rcols X := by
  refine ⟨?_, ?_, ?_, rfl⟩
  · simp only [rlen, dedup]; exact_mod_cast length_dedupRows_le _
  · simp only [rlen, dedup]
    intro h
    have hne : X.rows ≠ [] := by
      intro e; rw [e] at h; simp at h
    have := List.length_pos_iff.mpr (dedupRows_ne_nil hne)
    omega
  · intro hc
    simp only [rlen, dedup]
    have : ∀ x ∈ X.rows, ∀ y ∈ X.rows, x = y := by
      intro x hx y hy
      funext t
      have ht : t ∉ X.cols := by simp only [rcols] at hc; simp [hc]
      rw [hX x hx t ht, hX y hy t ht]
    exact_mod_cast length_dedupRows_le_one this

theorem sort_len_cols (ts : Terms) (X : RS) :
    rlen (sort ts X) = rlen X ∧ rcols (sort ts X) = rcols X := by
  refine ⟨?_, rfl⟩
  simp only [rlen, sort]
  exact_mod_cast (sortRows_perm ts X.rows).length_eq

theorem join_len_cols (p : Pred) (K : TagSet) (X Y : RS) :
    rlen (join p K X Y) ≤ rlen X * rlen Y ∧ rcols (join p K X Y) = rcols X ∪ rcols Y := by
  refine ⟨?_, rfl⟩
  simp only [rlen, join]
  exact_mod_cast length_joinRows_le p K X.cols Y.cols X.rows Y.rows

theorem filter_true (p : Pred) (X : RS) :
    (ptrue p → filter p X = X) ∧ (pfalse p → rlen (filter p X) = 0) := by
  constructor
  · intro h
    simp only [filter, filterF]
    have : X.rows.filter p.eval = X.rows := List.filter_eq_self.mpr fun r _ => h r
    rw [this]
  · intro h
    simp only [filter, filterF, rlen]
    have : X.rows.filter p.eval = [] := List.filter_eq_nil_iff.mpr fun r _ => by simp [h r]
    rw [this]; rfl

theorem join_false (p : Pred) (K : TagSet) (X Y : RS) :
    pfalse p → rlen (join p K X Y) = 0 := by
  intro h
  simp only [rlen, join, joinRows]
  have : ∀ r : Row, (fun s : Row => if (∀ k ∈ K, r k = s k) ∧ p.eval (merge Y.cols r s) = true
      then some (mask (X.cols ∪ Y.cols) (merge Y.cols r s)) else none) = fun _ => none := by
    intro r; funext s; simp [h _]
  simp [this]

theorem join_empty (p : Pred) (K : TagSet) (X Y : RS) :
    (rlen X = 0 ∨ rlen Y = 0) → rlen (join p K X Y) = 0 := by
  simp only [rlen, join, joinRows, Int.natCast_eq_zero, List.length_eq_zero_iff]
  rintro (h | h) <;> simp [h]

theorem callable_calc_len (t : Tag) (cl : Callable) (X : RS) :
    rlen (mapc t cl X) = rlen X ∧ rcols (mapc t cl X) = insert t (rcols X) := by
  simp [rlen, rcols, mapc, calcF]

theorem callable_filter_len (cl : Callable) (X : RS) :
    rlen (filterc cl X) ≤ rlen X ∧ rcols (filterc cl X) = rcols X := by
  refine ⟨?_, rfl⟩
  simp only [rlen, filterc, filterF]
  exact_mod_cast List.length_filter_le _ _

/-! ## tier T1 -/

theorem slice_identity (a : Int) (b : OptInt) (X : RS) :
    (a = 0 ∧ isNone b) → slice a b X = X := by
  rintro ⟨rfl, hb⟩
  simp only [isNone] at hb
  subst hb
  simp [slice]

theorem slice_slice (a1 : Int) (b1 : OptInt) (a2 : Int) (b2 : OptInt) (A : Int) (Bv : OptInt) (X : RS) :
    (wf a1 b1 ∧ wf a2 b2 ∧ wf A Bv ∧ win_equiv a1 b1 a2 b2 A Bv) →
      slice a2 b2 (slice a1 b1 X) = slice A Bv X := by
  rintro ⟨w1, w2, w3, hw⟩
  apply RS.ext
  · simp only [slice_cols]
  · apply List.ext_getElem?
    intro i
    rw [slice_rows_getElem? _ _ _ w2, slice_rows_getElem? _ _ _ w1, slice_rows_getElem? _ _ _ w3]
    obtain ⟨ha1, hb1⟩ := w1
    obtain ⟨ha2, hb2⟩ := w2
    obtain ⟨hA, hB⟩ := w3
    have e1 : (a1 + ↑(a2.toNat + i) : Int) = a1 + a2 + i := by omega
    have e2 : a1.toNat + (a2.toNat + i) = (a1 + a2).toNat + i := by omega
    rw [e1, e2]
    cases b1 <;> cases b2 <;> cases Bv <;>
      simp only [win_equiv, isNone, val, reduceCtorEq, Option.getD_some, Option.getD_none, and_self, and_true, true_and,
        false_and, and_false, not_true_eq_false, not_false_eq_true, if_true, if_false, true_or, false_or, or_false] at hw hb1 hb2 hB ⊢
    · subst hw; rfl
    all_goals
      rcases hw with ⟨h1, h2⟩ | ⟨h1, rfl, rfl⟩ <;> split_ifs <;> first | rfl | (exfalso; omega)

theorem sort_empty (ts : Terms) (X : RS) : tlen ts = 0 → sort ts X = X := by
  intro h
  simp only [tlen, Int.natCast_eq_zero, List.length_eq_zero_iff] at h
  subst h
  rfl

theorem filter_filter (p q r : Pred) (X : RS) :
    pand p q r → filter q (filter p X) = filter r X := by
  intro h
  simp only [filter, filterF, List.filter_filter]
  congr 1
  apply List.filter_congr
  intro x _
  rw [h x, Bool.and_comm]

theorem filter_ext (p q : Pred) (X : RS) : pequiv p q → filter p X = filter q X := by
  intro h
  simp only [filter, filterF]
  congr 1
  exact List.filter_congr fun x _ => h x

theorem proj_proj (P Q : TagSet) (X : RS) : P ⊆ Q → proj P (proj Q X) = proj P X := by
  intro h
  simp only [proj, List.map_map]
  congr 1
  exact List.map_congr_left fun r _ => mask_mask_of_subset h r

theorem proj_calc_drop (P : TagSet) (t : Tag) (e : Expr) (X : RS) (hX : Masked X) :
    t ∉ P → proj P (calcE t e X) = proj P X := by
  intro h
  simp only [proj, calcE, calcF_rows_of_masked hX, List.map_map]
  congr 1
  apply List.map_congr_left
  intro r _
  funext s
  simp only [Function.comp, mask_apply]
  split
  · next hs => rw [Function.update_of_ne (fun e' : s = t => h (e' ▸ hs))]
  · rfl

theorem proj_full (P : TagSet) (X : RS) (hX : Masked X) : P = rcols X → proj P X = X := by
  rintro rfl
  simp only [proj, rcols, map_mask_eq_self hX]

theorem calc_calc (t1 : Tag) (e1 : Expr) (t2 : Tag) (e2 : Expr) (X : RS) (hX : Masked X) :
    (t1 ≠ t2 ∧ t1 ∉ fvx e2 ∧ t2 ∉ fvx e1) →
      calcE t2 e2 (calcE t1 e1 X) = calcE t1 e1 (calcE t2 e2 X) := by
  rintro ⟨hne, h1, h2⟩
  have m1 : Masked (calcE t1 e1 X) := masked_calcF hX t1 _
  have m2 : Masked (calcE t2 e2 X) := masked_calcF hX t2 _
  apply RS.ext
  · simp only [calcE, calcF]; exact Finset.insert_comm _ _ _
  · unfold calcE at m1 m2 ⊢
    rw [calcF_rows_of_masked m1, calcF_rows_of_masked m2, calcF_rows_of_masked hX,
      calcF_rows_of_masked hX, List.map_map, List.map_map]
    apply List.map_congr_left
    intro r _
    simp only [Function.comp, fvx] at *
    rw [e2.eval_update h1, e1.eval_update h2, Function.update_comm hne.symm]

theorem calc_proj (t : Tag) (e : Expr) (P : TagSet) (X : RS) (hX : Masked X) :
    fvx e ⊆ P → proj (insert t P) (calcE t e X) = calcE t e (proj P X) := by
  intro h
  simp only [proj, calcE, calcF_rows_of_masked hX, List.map_map]
  simp only [calcF, List.map_map]
  congr 1
  apply List.map_congr_left
  intro r hr
  funext s
  simp only [Function.comp, mask_apply, fvx] at *
  rw [e.eval_mask h]
  by_cases hs : s = t
  · subst hs; simp
  · by_cases hP : s ∈ P
    · simp [hs, hP]
    · simp [hs, hP]

theorem calc_filter (t : Tag) (e : Expr) (p : Pred) (X : RS) (hX : Masked X) :
    t ∉ fv p → filter p (calcE t e X) = calcE t e (filter p X) := by
  intro h
  have hF : Masked (filter p X) := masked_filterF hX _
  apply RS.ext
  · rfl
  · unfold filter calcE at *
    rw [calcF_rows_of_masked hF]
    simp only [filterF, calcF_rows_of_masked hX, List.filter_map]
    congr 1
    apply List.filter_congr
    intro r _
    simp only [Function.comp, fv] at *
    rw [p.eval_update h]

theorem calc_slice (t : Tag) (e : Expr) (a : Int) (b : OptInt) (X : RS) :
    wf a b → slice a b (calcE t e X) = calcE t e (slice a b X) := by
  intro _
  have hc : (slice a b X).cols = X.cols := by
    unfold slice; split <;> rfl
  simp only [calcE, calcF]
  rw [slice_map a b _ X.cols, hc]

theorem proj_filter (P : TagSet) (p : Pred) (X : RS) :
    fv p ⊆ P → proj P (filter p X) = filter p (proj P X) := by
  intro h
  simp only [proj, filter, filterF, List.filter_map]
  congr 2
  apply List.filter_congr
  intro r _
  simp only [Function.comp, fv] at *
  rw [p.eval_mask h]

theorem proj_slice (P : TagSet) (a : Int) (b : OptInt) (X : RS) :
    wf a b → proj P (slice a b X) = slice a b (proj P X) := by
  intro _
  simp only [proj]
  rw [slice_map a b _ X.cols]

theorem proj_chain (P : TagSet) (X Y : RS) :
    rcols X = rcols Y → proj P (chain X Y) = chain (proj P X) (proj P Y) := by
  intro _
  simp only [proj, chain, List.map_append]

theorem filter_commute (p q : Pred) (X : RS) :
    filter q (filter p X) = filter p (filter q X) := by
  simp only [filter, filterF]
  rw [List.filter_comm]

theorem callable_calc (t : Tag) (cl : Callable) (e : Expr) (X : RS) :
    den_x cl e → mapc t cl X = calcE t e X := by
  intro h
  have : cl.fn = e.eval := funext h
  simp [mapc, calcE, this]

theorem callable_filter (cl : Callable) (p : Pred) (X : RS) :
    den_p cl p → filterc cl X = filter p X := by
  intro h
  have : (fun r => decide (cl.fn r ≠ 0)) = p.eval := funext h
  simp only [filterc, filter, this]

/-! ## tier T2 -/

theorem sort_sort (a b c : Terms) (X : RS) : tcat a b c → sort b (sort a X) = sort c X := by
  intro h
  simp only [tcat] at h
  subst h
  simp only [sort, sortRows_tcatList, sortRows_append]

theorem tcat_fvts (a b c : Terms) : tcat a b c → fvts c = fvts a ∪ fvts b := by
  intro h
  simp only [tcat] at h
  subst h
  ext s
  simp only [Finset.mem_union, mem_fvts, mem_tcatList]
  constructor
  · rintro ⟨t, ht | ht, hs⟩
    · exact Or.inl ⟨t, ht, hs⟩
    · exact Or.inr ⟨t, ht, hs⟩
  · rintro (⟨t, ht, hs⟩ | ⟨t, ht, hs⟩)
    · exact ⟨t, Or.inl ht, hs⟩
    · exact ⟨t, Or.inr ht, hs⟩

theorem dedup_dedup (X : RS) : dedup (dedup X) = dedup X := by
  simp only [dedup, dedupRows_idem]

theorem dedup_slice_dedup (a : Int) (b : OptInt) (X : RS) :
    wf a b → dedup (slice a b (dedup X)) = slice a b (dedup X) := by
  intro _
  apply RS.ext
  · rfl
  · simp only [dedup]
    exact dedupRows_of_nodup ((nodup_dedupRows X.rows).sublist (slice_rows_sublist a b ⟨X.cols, dedupRows X.rows⟩))

theorem dedup_filter (p : Pred) (X : RS) :
    fv p ⊆ rcols X → dedup (filter p X) = filter p (dedup X) := by
  intro _
  simp only [dedup, filter, filterF, dedupRows_filter]

theorem calc_dedup (t : Tag) (e : Expr) (X : RS) (hX : Masked X) :
    (t ∉ rcols X ∧ fvx e ⊆ rcols X) → dedup (calcE t e X) = calcE t e (dedup X) := by
  rintro ⟨ht, _⟩
  have hD : Masked (dedup X) := fun r hr => hX r (mem_dedupRows.mp hr)
  apply RS.ext
  · rfl
  · unfold calcE
    rw [calcF_rows_of_masked hD]
    simp only [dedup, calcF_rows_of_masked hX]
    apply dedupRows_map
    intro x hx y hy hxy
    funext s
    by_cases hs : s = t
    · subst hs; rw [hX x hx s ht, hX y hy s ht]
    · have := congrFun hxy s
      simpa [Function.update_of_ne hs] using this

theorem filter_sort (p : Pred) (ts : Terms) (X : RS) :
    filter p (sort ts X) = sort ts (filter p X) := by
  simp only [filter, filterF, sort, filter_sortRows]

theorem calc_sort (t : Tag) (e : Expr) (ts : Terms) (X : RS) (hX : Masked X) :
    t ∉ fvts ts → sort ts (calcE t e X) = calcE t e (sort ts X) := by
  intro h
  have hS : Masked (sort ts X) := fun r hr => hX r (mem_sortRows.mp hr)
  apply RS.ext
  · rfl
  · unfold calcE
    rw [calcF_rows_of_masked hS]
    simp only [sort, calcF_rows_of_masked hX]
    symm
    apply map_sortRows
    intro tm htm x _
    apply tm.1.eval_update
    intro hm
    exact h (mem_fvts.mpr ⟨tm, htm, hm⟩)

theorem proj_sort (P : TagSet) (ts : Terms) (X : RS) :
    fvts ts ⊆ P → proj P (sort ts X) = sort ts (proj P X) := by
  intro h
  simp only [proj, sort]
  congr 1
  apply map_sortRows
  intro tm htm x _
  apply tm.1.eval_mask
  intro s hs
  exact h (mem_fvts.mpr ⟨tm, htm, hs⟩)

/-! ## tier T3 -/

theorem dedup_sort (ts : Terms) (X : RS) :
    fvts ts ⊆ rcols X → dedup (sort ts X) = sort ts (dedup X) := by
  intro _
  simp only [dedup, sort, dedupRows_sortRows]

/-! ## joins -/

theorem join_filter_r (p : Pred) (K : TagSet) (q : Pred) (X F : RS) :
    (noshadow (rcols X) (rcols F) K ∧ fv q ⊆ rcols X ∧ K ⊆ rcols X ∧ K ⊆ rcols F) →
      filter q (join p K X F) = join p K (filter q X) F := by
  rintro ⟨hns, hq, _, _⟩
  simp only [filter, filterF, join]
  congr 1
  apply filter_joinRows_outer
  intro r _ s _ row h
  obtain ⟨ha, _, rfl⟩ := jrow_eq_some h
  apply q.dep
  intro u hu
  have huX : u ∈ X.cols := hq hu
  simp only [mask_apply, Finset.mem_union, huX, true_or, if_true]
  exact merge_of_agree hns ha huX

theorem join_filter_l (p : Pred) (K : TagSet) (q : Pred) (X F : RS) :
    (noshadow (rcols X) (rcols F) K ∧ fv q ⊆ rcols X ∧ K ⊆ rcols X ∧ K ⊆ rcols F) →
      filter q (join p K F X) = join p K F (filter q X) := by
  rintro ⟨_, hq, _, _⟩
  simp only [filter, filterF, join]
  congr 1
  apply filter_joinRows_inner
  intro s _ r _ row h
  obtain ⟨_, _, rfl⟩ := jrow_eq_some h
  apply q.dep
  intro u hu
  have huX : u ∈ X.cols := hq hu
  simp [merge, huX]

theorem join_proj_r (p : Pred) (K P : TagSet) (X F : RS) :
    (noshadow (rcols X) (rcols F) K ∧ P ⊆ rcols X ∧ K ⊆ P ∧ K ⊆ rcols F ∧ fv p ⊆ P ∪ rcols F) →
      proj (P ∪ rcols F) (join p K X F) = join p K (proj P X) F := by
  rintro ⟨_, hP, hKP, _, hp⟩
  simp only [proj, join, rcols, fv] at *
  congr 1
  apply map_joinRows_outer
  intro r _ s _
  have hagree : (∀ k ∈ K, mask P r k = s k) ↔ (∀ k ∈ K, r k = s k) := by
    constructor <;> intro h k hk <;> have := h k hk <;> simpa [hKP hk] using this
  have hpe : p.eval (merge F.cols (mask P r) s) = p.eval (merge F.cols r s) := by
    apply p.dep
    intro u hu
    have := Finset.mem_union.mp (hp hu)
    simp only [merge, mask_apply]
    by_cases h2 : u ∈ F.cols
    · simp [h2]
    · have h1 : u ∈ P := this.resolve_right h2
      simp [h1, h2]
  simp only [jrow, hagree, hpe]
  split
  · simp only [Option.map_some]
    congr 1
    funext u
    simp only [mask_apply, merge, Finset.mem_union]
    by_cases h1 : u ∈ P
    · simp [h1, hP h1]
    · by_cases h2 : u ∈ F.cols <;> simp [h1, h2]
  · rfl

theorem join_proj_l (p : Pred) (K P : TagSet) (X F : RS) :
    (noshadow (rcols X) (rcols F) K ∧ P ⊆ rcols X ∧ K ⊆ P ∧ K ⊆ rcols F ∧ fv p ⊆ P ∪ rcols F) →
      proj (P ∪ rcols F) (join p K F X) = join p K F (proj P X) := by
  rintro ⟨hns, hP, hKP, _, hp⟩
  simp only [proj, join, rcols, fv, noshadow] at *
  have hcx : ∀ u, u ∈ X.cols → u ∈ F.cols → u ∈ P := fun u h1 h2 =>
    hKP (hns (Finset.mem_inter.mpr ⟨h1, h2⟩))
  apply RS.ext
  · exact Finset.union_comm _ _
  apply map_joinRows_inner
  intro s _ r _
  have hagree : (∀ k ∈ K, s k = mask P r k) ↔ (∀ k ∈ K, s k = r k) := by
    constructor <;> intro h k hk <;> have := h k hk <;> simpa [hKP hk] using this
  have hpe : p.eval (merge P s (mask P r)) = p.eval (merge X.cols s r) := by
    apply p.dep
    intro u hu
    have := Finset.mem_union.mp (hp hu)
    simp only [merge, mask_apply]
    by_cases h1 : u ∈ P
    · simp [h1, hP h1]
    · have h2 : u ∈ F.cols := this.resolve_left h1
      have h3 : u ∉ X.cols := fun h => h1 (hcx u h h2)
      simp [h1, h3]
  simp only [jrow, hagree, hpe]
  split
  · simp only [Option.map_some]
    congr 1
    funext u
    simp only [mask_apply, merge, Finset.mem_union]
    by_cases h1 : u ∈ P
    · simp [h1, hP h1]
    · by_cases h2 : u ∈ F.cols
      · have h3 : u ∉ X.cols := fun h => h1 (hcx u h h2)
        simp [h1, h2, h3]
      · simp [h1, h2]
  · rfl

/-- `join_proj_r` without the blanket no-shadow hypothesis (it is not needed when the projected
operand drives the outer loop: the fixed operand's values win in the merged row anyway). -/
theorem join_proj_r_hidden (p : Pred) (K P : TagSet) (X F : RS) :
    (P ⊆ rcols X ∧ K ⊆ P ∧ K ⊆ rcols F ∧ fv p ⊆ P ∪ rcols F) →
      proj (P ∪ rcols F) (join p K X F) = join p K (proj P X) F := by
  rintro ⟨hP, hKP, _, hp⟩
  simp only [proj, join, rcols, fv] at *
  congr 1
  apply map_joinRows_outer
  intro r _ s _
  have hagree : (∀ k ∈ K, mask P r k = s k) ↔ (∀ k ∈ K, r k = s k) := by
    constructor <;> intro h k hk <;> have := h k hk <;> simpa [hKP hk] using this
  have hpe : p.eval (merge F.cols (mask P r) s) = p.eval (merge F.cols r s) := by
    apply p.dep
    intro u hu
    have := Finset.mem_union.mp (hp hu)
    simp only [merge, mask_apply]
    by_cases h2 : u ∈ F.cols
    · simp [h2]
    · have h1 : u ∈ P := this.resolve_right h2
      simp [h1, h2]
  simp only [jrow, hagree, hpe]
  split
  · simp only [Option.map_some]
    congr 1
    funext u
    simp only [mask_apply, merge, Finset.mem_union]
    by_cases h1 : u ∈ P
    · simp [h1, hP h1]
    · by_cases h2 : u ∈ F.cols <;> simp [h1, h2]
  · rfl

/-- `join_proj_l` with the no-shadow hypothesis weakened to: the columns both operands expose
survive the projection (only columns *hidden* by the projection matter when the projected operand
is on the right, where its values win in the merged row). -/
theorem join_proj_l_hidden (p : Pred) (K P : TagSet) (X F : RS) :
    (P ⊆ rcols X ∧ K ⊆ P ∧ K ⊆ rcols F ∧ fv p ⊆ P ∪ rcols F ∧ rcols X ∩ rcols F ⊆ P) →
      proj (P ∪ rcols F) (join p K F X) = join p K F (proj P X) := by
  rintro ⟨hP, hKP, _, hp, hin⟩
  simp only [proj, join, rcols, fv] at *
  have hcx : ∀ u, u ∈ X.cols → u ∈ F.cols → u ∈ P := fun u h1 h2 =>
    hin (Finset.mem_inter.mpr ⟨h1, h2⟩)
  apply RS.ext
  · exact Finset.union_comm _ _
  apply map_joinRows_inner
  intro s _ r _
  have hagree : (∀ k ∈ K, s k = mask P r k) ↔ (∀ k ∈ K, s k = r k) := by
    constructor <;> intro h k hk <;> have := h k hk <;> simpa [hKP hk] using this
  have hpe : p.eval (merge P s (mask P r)) = p.eval (merge X.cols s r) := by
    apply p.dep
    intro u hu
    have := Finset.mem_union.mp (hp hu)
    simp only [merge, mask_apply]
    by_cases h1 : u ∈ P
    · simp [h1, hP h1]
    · have h2 : u ∈ F.cols := this.resolve_left h1
      have h3 : u ∉ X.cols := fun h => h1 (hcx u h h2)
      simp [h1, h3]
  simp only [jrow, hagree, hpe]
  split
  · simp only [Option.map_some]
    congr 1
    funext u
    simp only [mask_apply, merge, Finset.mem_union]
    by_cases h1 : u ∈ P
    · simp [h1, hP h1]
    · by_cases h2 : u ∈ F.cols
      · have h3 : u ∉ X.cols := fun h => h1 (hcx u h h2)
        simp [h1, h2, h3]
      · simp [h1, h2]
  · rfl

theorem join_calc_r (p : Pred) (K : TagSet) (t : Tag) (e : Expr) (X F : RS) (hX : Masked X) :
    (noshadow (insert t (rcols X)) (rcols F) K ∧ fvx e ⊆ rcols X ∧ t ∉ rcols X ∧ t ∉ rcols F ∧
        t ∉ fv p ∧ K ⊆ rcols X ∧ K ⊆ rcols F) →
      calcE t e (join p K X F) = join p K (calcE t e X) F := by
  rintro ⟨hns, he, htX, htF, htp, hKX, _⟩
  simp only [rcols, fv, fvx, noshadow] at *
  have hns' : X.cols ∩ F.cols ⊆ K := fun u hu =>
    hns (Finset.mem_inter.mpr ⟨Finset.mem_insert_of_mem (Finset.mem_inter.mp hu).1, (Finset.mem_inter.mp hu).2⟩)
  apply RS.ext
  · simp only [calcE, calcF, join]; ext u; simp [or_assoc]
  simp only [calcE, calcF, join]
  apply map_joinRows_outer
  intro r hr s _
  rw [mask_insert_update (hX r hr)]
  have hKt : ∀ k ∈ K, k ≠ t := fun k hk e' => htX (e' ▸ hKX hk)
  have hagree : (∀ k ∈ K, Function.update r t (e.eval r) k = s k) ↔ (∀ k ∈ K, r k = s k) := by
    constructor <;> intro h k hk <;> have := h k hk <;>
      simpa [Function.update_of_ne (hKt k hk)] using this
  have hpe : p.eval (merge F.cols (Function.update r t (e.eval r)) s) = p.eval (merge F.cols r s) := by
    apply p.dep
    intro u hu
    have hut : u ≠ t := fun e' => htp (e' ▸ hu)
    simp [merge, Function.update_of_ne hut]
  simp only [jrow, hagree, hpe]
  split
  · next hc =>
    have hev : e.eval (mask (X.cols ∪ F.cols) (merge F.cols r s)) = e.eval r := by
      apply e.dep
      intro u hu
      have huX : u ∈ X.cols := he hu
      simp only [mask_apply, Finset.mem_union, huX, true_or, if_true]
      exact merge_of_agree hns' hc.1 huX
    simp only [Option.map_some, hev]
    congr 1
    funext u
    by_cases hut : u = t
    · subst hut
      simp [merge, htF]
    · simp only [mask_apply, Function.update_of_ne hut, merge, Finset.mem_union, Finset.mem_insert, hut,
        false_or]
      split <;> rfl
  · rfl

theorem join_calc_l (p : Pred) (K : TagSet) (t : Tag) (e : Expr) (X F : RS) (hX : Masked X) :
    (noshadow (insert t (rcols X)) (rcols F) K ∧ fvx e ⊆ rcols X ∧ t ∉ rcols X ∧ t ∉ rcols F ∧
        t ∉ fv p ∧ K ⊆ rcols X ∧ K ⊆ rcols F) →
      calcE t e (join p K F X) = join p K F (calcE t e X) := by
  rintro ⟨_, he, htX, _, htp, hKX, _⟩
  simp only [rcols, fv, fvx, noshadow] at *
  apply RS.ext
  · simp only [calcE, calcF, join]; ext u; simp [or_left_comm]
  simp only [calcE, calcF, join]
  apply map_joinRows_inner
  intro s _ r hr
  rw [mask_insert_update (hX r hr)]
  have hKt : ∀ k ∈ K, k ≠ t := fun k hk e' => htX (e' ▸ hKX hk)
  have hagree : (∀ k ∈ K, s k = Function.update r t (e.eval r) k) ↔ (∀ k ∈ K, s k = r k) := by
    constructor <;> intro h k hk <;> have := h k hk <;>
      simpa [Function.update_of_ne (hKt k hk)] using this
  have hpe : p.eval (merge (insert t X.cols) s (Function.update r t (e.eval r))) =
      p.eval (merge X.cols s r) := by
    apply p.dep
    intro u hu
    have hut : u ≠ t := fun e' => htp (e' ▸ hu)
    simp [merge, hut]
  simp only [jrow, hagree, hpe]
  split
  · have hev : e.eval (mask (F.cols ∪ X.cols) (merge X.cols s r)) = e.eval r := by
      apply e.dep
      intro u hu
      have huX : u ∈ X.cols := he hu
      simp [merge, huX]
    simp only [Option.map_some, hev]
    congr 1
    funext u
    by_cases hut : u = t
    · subst hut
      simp [merge]
    · simp only [mask_apply, Function.update_of_ne hut, merge, Finset.mem_union, Finset.mem_insert, hut,
        false_or]
      split <;> rfl
  · rfl

theorem join_sort_r (p : Pred) (K : TagSet) (ts : Terms) (X F : RS) :
    (noshadow (rcols X) (rcols F) K ∧ fvts ts ⊆ rcols X ∧ K ⊆ rcols X ∧ K ⊆ rcols F) →
      sort ts (join p K X F) = join p K (sort ts X) F := by
  rintro ⟨hns, hts, _, _⟩
  simp only [sort, join]
  congr 1
  apply sortRows_joinRows
  intro t ht r _ s _ row h
  obtain ⟨ha, _, rfl⟩ := jrow_eq_some h
  apply t.1.dep
  intro u hu
  have huX : u ∈ X.cols := hts (mem_fvts.mpr ⟨t, ht, hu⟩)
  simp only [mask_apply, Finset.mem_union, huX, true_or, if_true]
  exact merge_of_agree hns ha huX

theorem join_unit (p : Pred) (K : TagSet) (X : RS) (hX : Masked X) :
    (K = ∅ ∧ fv p ⊆ rcols X) →
      join p K RelAlg.unit X = filter p X ∧ join p K X RelAlg.unit = filter p X := by
  rintro ⟨rfl, hp⟩
  simp only [fv, rcols] at hp
  constructor
  · apply RS.ext
    · simp [join, RelAlg.unit, filter, filterF]
    · simp only [join, RelAlg.unit, filter, filterF, joinRows_eq, List.flatMap_cons, List.flatMap_nil,
        List.append_nil]
      apply filterMap_eq_filter_of
      intro s hs
      have hm : merge X.cols zeroRow s = s := by
        funext u
        simp only [merge, zeroRow]
        split
        · rfl
        · next hu => exact (hX s hs u hu).symm
      have e1 : (∅ : TagSet) ∪ X.cols = X.cols := by simp
      simp only [jrow, hm, e1, hX.mask_eq hs]
      simp
  · apply RS.ext
    · simp [join, RelAlg.unit, filter, filterF]
    · simp only [join, RelAlg.unit, filter, filterF, joinRows_eq]
      apply flatMap_eq_filter_of
      intro r hr
      have hm : merge ∅ r zeroRow = r := by
        funext u
        simp [merge]
      have e1 : X.cols ∪ (∅ : TagSet) = X.cols := by simp
      simp only [List.filterMap_cons, List.filterMap_nil, jrow, hm, e1, hX.mask_eq hr]
      by_cases hq : p.eval r = true <;> simp [hq]

/-! ## iteration engine -/

theorem dedup_by_all_columns (K : TagSet) (X : RS) (hX : Masked X) :
    (K = rcols X → dedup_key K X = dedup X) ∧ rlen (dedup_key K X) ≤ rlen X ∧
      rcols (dedup_key K X) = rcols X := by
  refine ⟨?_, ?_, rfl⟩
  · rintro rfl
    simp only [dedup_key, dedup, rcols]
    rw [dedupKeyRows_eq_dedupRows _ _ fun r hr => hX.mask_eq hr]
  · simp only [rlen, dedup_key]
    exact_mod_cast length_dedupKeyRows_le K X.rows

/-! ## integer arithmetic -/

theorem mod_congruence (x a s : Int) : 0 < s → ((x - a) % s = 0 ↔ x % s = a % s) := by
  intro _
  exact (Int.emod_eq_emod_iff_emod_sub_eq_zero).symm

theorem floor_division (d s : Int) :
    (0 < s ∧ 0 ≤ d) → (d / s * s ≤ d ∧ d < (d / s + 1) * s ∧ 0 ≤ d / s ∧ (d / s * s) % s = 0) := by
  rintro ⟨hs, hd⟩
  refine ⟨Int.ediv_mul_le d (by omega), ?_, Int.ediv_nonneg hd (by omega), Int.mul_emod_left _ _⟩
  exact Int.lt_ediv_add_one_mul_self d hs

theorem emod_small_negative (y s : Int) : (0 < s ∧ 0 - s < y ∧ y < 0) → y % s = y + s := by
  rintro ⟨hs, h1, h2⟩
  rw [← Int.add_emod_right y s]
  exact Int.emod_eq_of_lt (by omega) (by omega)

/-! ## row-at-a-time laws (generator bodies of the RowIterable classes) -/

theorem snoc_len_cols (X : RS) (r : Row) :
    rlen (rsnoc X r) = rlen X + 1 ∧ rcols (rsnoc X r) = rcols X := by
  simp [rlen, rcols, rsnoc]

theorem prefix_zero (X : RS) : rprefix X 0 = RelAlg.empty (rcols X) := by
  simp [rprefix, RelAlg.empty, rcols]

theorem prefix_full (X : RS) : rprefix X (rlen X) = X := by
  cases X; simp [rprefix, rlen]

theorem prefix_len_cols (X : RS) (i : Int) :
    (0 ≤ i ∧ i ≤ rlen X) → rlen (rprefix X i) = i ∧ rcols (rprefix X i) = rcols X := by
  rintro ⟨h0, h1⟩
  refine ⟨?_, rfl⟩
  simp only [rlen] at h1
  simp only [rlen, rprefix, List.length_take]
  omega

theorem prefix_step (X : RS) (i : Int) :
    (0 ≤ i ∧ i < rlen X) → rprefix X (i + 1) = rsnoc (rprefix X i) (rnth X i) := by
  rintro ⟨h0, h1⟩
  obtain ⟨n, rfl⟩ := Int.eq_ofNat_of_zero_le h0
  simp only [rlen] at h1
  have hn : n < X.rows.length := by exact_mod_cast h1
  have e1 : ((n : Int) + 1).toNat = n + 1 := by omega
  simp only [rprefix, rsnoc, rnth, e1, Int.toNat_natCast]
  congr 1
  rw [List.take_succ_eq_append_getElem hn]
  simp [List.getD_eq_getElem?_getD, List.getElem?_eq_getElem hn]

theorem mapc_snoc (t : Tag) (cl : Callable) (X : RS) (r : Row) :
    mapc t cl (rsnoc X r) = rsnoc (mapc t cl X) (rmask (insert t (rcols X)) (rput r t (capp cl r))) := by
  simp [mapc, calcF, rsnoc, rmask, rput, capp, rcols]

theorem mapc_empty (t : Tag) (cl : Callable) (C : TagSet) :
    mapc t cl (RelAlg.empty C) = RelAlg.empty (insert t C) := by
  simp [mapc, calcF, RelAlg.empty]

theorem filterc_snoc (cl : Callable) (X : RS) (r : Row) :
    filterc cl (rsnoc X r) = if capp cl r ≠ 0 then rsnoc (filterc cl X) r else filterc cl X := by
  by_cases h : cl.fn r ≠ 0 <;> simp [filterc, filterF, rsnoc, capp, List.filter_append, h]

theorem filterc_empty (cl : Callable) (C : TagSet) :
    filterc cl (RelAlg.empty C) = RelAlg.empty C := by
  simp [filterc, filterF, RelAlg.empty]

theorem proj_snoc (P : TagSet) (X : RS) (r : Row) :
    proj P (rsnoc X r) = rsnoc (proj P X) (rmask P r) := by
  simp [proj, rsnoc, rmask]

theorem proj_empty (P C : TagSet) : proj P (RelAlg.empty C) = RelAlg.empty P := by
  simp [proj, RelAlg.empty]

theorem slice_empty (a : Int) (b : OptInt) (C : TagSet) :
    slice a b (RelAlg.empty C) = RelAlg.empty C := by
  unfold slice RelAlg.empty
  split
  · rfl
  · cases b <;> simp

theorem slice_snoc (a : Int) (b : OptInt) (X : RS) (r : Row) :
    (0 ≤ a ∧ (isNone b ∨ 0 ≤ val b)) →
    slice a b (rsnoc X r) =
      if a ≤ rlen X ∧ (isNone b ∨ rlen X < val b) then rsnoc (slice a b X) r else slice a b X := by
  rintro ⟨ha, hb⟩
  obtain ⟨n, rfl⟩ := Int.eq_ofNat_of_zero_le ha
  cases b with
  | none =>
    have hneg : ¬ ((n : Int) < 0 ∨ ∃ v, (none : OptInt) = some v ∧ v < 0) := by simp
    simp only [slice, hneg, if_false, rsnoc, rlen, isNone, true_or, and_true]
    by_cases h : n ≤ X.rows.length
    · have h' : (n : Int) ≤ (X.rows.length : Int) := by exact_mod_cast h
      simp [h', List.drop_append_of_le_length h]
    · have h' : ¬ (n : Int) ≤ (X.rows.length : Int) := by exact_mod_cast h
      have h2 : X.rows.length < n := Nat.lt_of_not_le h
      simp [h']
      rw [List.drop_eq_nil_of_le (by simp; omega), List.drop_eq_nil_of_le (by omega)]
  | some v =>
    have hv : 0 ≤ v := by
      rcases hb with hb | hb
      · simp [isNone] at hb
      · simpa [val] using hb
    obtain ⟨m, rfl⟩ := Int.eq_ofNat_of_zero_le hv
    have hneg : ¬ ((n : Int) < 0 ∨ ∃ w, (some (m : Int) : OptInt) = some w ∧ w < 0) := by
      simp
    simp only [slice, hneg, if_false, rsnoc, rlen, isNone, val, Option.getD_some, Int.toNat_natCast]
    simp only [reduceCtorEq, false_or, Int.ofNat_le, Int.ofNat_lt]
    by_cases h1 : X.rows.length < m
    · -- the new row is inside the take window
      have e1 : (X.rows ++ [r]).take m = X.rows ++ [r] := by
        apply List.take_of_length_le; simp; omega
      have e2 : X.rows.take m = X.rows := List.take_of_length_le (by omega)
      rw [e1, e2]
      by_cases h : n ≤ X.rows.length
      · simp [h, h1, List.drop_append_of_le_length h]
      · have h2 : X.rows.length < n := Nat.lt_of_not_le h
        simp [h]
        rw [List.drop_eq_nil_of_le (by simp; omega), List.drop_eq_nil_of_le (by omega)]
    · have h1' : m ≤ X.rows.length := Nat.le_of_not_lt h1
      have e1 : (X.rows ++ [r]).take m = X.rows.take m := List.take_append_of_le_length h1'
      simp [h1, e1]

theorem slice_prefix (a : Int) (b : OptInt) (X : RS) :
    (0 ≤ a ∧ ¬ isNone b ∧ 0 ≤ val b ∧ val b ≤ rlen X) →
    slice a b (rprefix X (val b)) = slice a b X := by
  rintro ⟨ha, hb, hv, hl⟩
  cases b with
  | none => simp [isNone] at hb
  | some v =>
    simp only [val, Option.getD_some] at hv hl ⊢
    have hneg : ¬ (a < 0 ∨ v < 0) := by omega
    simp [slice, hneg, rprefix, List.take_take]

theorem dedup_key_idem (K : TagSet) (X : RS) : dedup_key K (dedup_key K X) = dedup_key K X := by
  simp [dedup_key, dedupKeyRows_idem]

theorem dedup_key_empty (K C : TagSet) : dedup_key K (RelAlg.empty C) = RelAlg.empty C := by
  simp [dedup_key, dedupKeyRows, RelAlg.empty]

theorem dedup_key_unit (K : TagSet) : dedup_key K RelAlg.unit = RelAlg.unit := by
  simp [dedup_key, dedupKeyRows, RelAlg.unit, dictSet]

/-! ## the Sort arm: passes of a suffix of the terms -/

theorem tsuffix_len (ts : Terms) (a : Int) :
    (0 ≤ a ∧ a ≤ tlen ts) → tlen (tsuffix ts a) = tlen ts - a := by
  rintro ⟨h0, h1⟩
  simp only [tlen] at h1 ⊢
  simp only [tsuffix, List.length_drop]
  omega

theorem tsuffix_zero (ts : Terms) : tsuffix ts 0 = ts := by
  simp [tsuffix]

theorem sort_suffix_split (ts : Terms) (a b : Int) (X : RS) :
    (0 ≤ a ∧ a ≤ b ∧ b ≤ tlen ts) →
    sort (tsuffix ts a) X = sort (tslice ts a b) (sort (tsuffix ts b) X) := by
  rintro ⟨h0, h1, h2⟩
  obtain ⟨n, rfl⟩ := Int.eq_ofNat_of_zero_le h0
  obtain ⟨m, rfl⟩ := Int.eq_ofNat_of_zero_le (le_trans h0 h1)
  have hnm : n ≤ m := by exact_mod_cast h1
  simp only [sort, tsuffix, tslice, Int.toNat_natCast]
  congr 1
  have e : ts.drop n = (ts.take m).drop n ++ ts.drop m := by
    conv_lhs => rw [← List.take_append_drop m ts]
    rw [List.drop_append_of_le_length (by simp only [List.length_take]; simp only [tlen] at h2; omega)]
  rw [e, sortRows_append]

theorem sortc_group (cs : List Callable) (ts : Terms) (a b : Int) (d : Bool) (Y : RS) :
    (0 ≤ a ∧ a ≤ b ∧ b ≤ tlen ts ∧ den_terms cs ts a b ∧ same_dir ts a b d) →
    sortc cs d Y = sort (tslice ts a b) Y := by
  rintro ⟨_, _, _, hden, hdir⟩
  simp only [sortc, sort]
  congr 1
  exact sortcRows_eq_sortRows d cs (tslice ts a b) (forall₂_and_right hden hdir) Y.rows

/-! ## integer arithmetic: descending ranges -/

/-- a descending range `range(a, b, s)` (s < 0, non-empty) has the same elements as the ascending range
`range(m, a + 1, -s)` with `m = a + ((a - b - 1) / (-s)) * s` -/
theorem desc_range (a b s x : Int) :
    (s < 0 ∧ b < a) →
    ((b < x ∧ x ≤ a ∧ (a - x) % (-s) = 0) ↔
      (a + ((a - b - 1) / (-s)) * s ≤ x ∧ x ≤ a ∧ (x - (a + ((a - b - 1) / (-s)) * s)) % (-s) = 0)) := by
  rintro ⟨hs, _⟩
  set k := -s with hkdef
  set q := (a - b - 1) / k with hq
  have hk : 0 < k := by omega
  have hs' : s = -k := by omega
  have hdiv := Int.mul_ediv_add_emod (a - b - 1) k
  have hr0 := Int.emod_nonneg (a - b - 1) (ne_of_gt hk)
  have hr1 := Int.emod_lt_of_pos (a - b - 1) hk
  rw [← hq] at hdiv
  have hm : a + q * s = a - k * q := by rw [hs', Int.mul_neg, Int.mul_comm q k]; omega
  rw [hm]
  constructor
  · rintro ⟨h1, h2, h3⟩
    obtain ⟨j, hj⟩ := Int.dvd_of_emod_eq_zero h3
    have hj0 : 0 ≤ j := by
      by_contra hneg
      push_neg at hneg
      have : k * j < 0 := Int.mul_neg_of_pos_of_neg hk hneg
      omega
    have hjq : j ≤ q := by
      by_contra hlt
      push_neg at hlt
      have h4 : k * (q + 1) ≤ k * j := Int.mul_le_mul_of_nonneg_left (by omega) (le_of_lt hk)
      have h5 : k * (q + 1) = k * q + k := by rw [Int.mul_add, Int.mul_one]
      omega
    have hkq : k * j ≤ k * q := Int.mul_le_mul_of_nonneg_left hjq (le_of_lt hk)
    refine ⟨by omega, h2, ?_⟩
    have e : x - (a - k * q) = k * (q - j) := by
      have : k * (q - j) = k * q - k * j := Int.mul_sub k q j
      omega
    rw [e]; exact Int.mul_emod_right k (q - j)
  · rintro ⟨h1, h2, h3⟩
    obtain ⟨i, hi⟩ := Int.dvd_of_emod_eq_zero h3
    refine ⟨by omega, h2, ?_⟩
    have e : a - x = k * (q - i) := by
      have : k * (q - i) = k * q - k * i := Int.mul_sub k q i
      omega
    rw [e]; exact Int.mul_emod_right k (q - i)

end RelAlg.Laws
