/-
  RelAlg.Lemmas — helper lemmas about the model of RelAlg/Spec.lean (no law of laws.py here;
  the laws are in RelAlg/Laws.lean).
-/
import RelAlg.Spec

namespace RelAlg

open Classical

/-! ## mask -/

@[simp] theorem mask_apply (P : TagSet) (r : Row) (t : Tag) :
    mask P r t = if t ∈ P then r t else 0 := rfl

theorem mask_mask_of_subset {P Q : TagSet} (h : P ⊆ Q) (r : Row) : mask P (mask Q r) = mask P r := by
  funext t; simp only [mask_apply]; split
  · next ht => simp [h ht]
  · rfl

theorem mask_eq_self {P : TagSet} {r : Row} (h : ∀ t, t ∉ P → r t = 0) : mask P r = r := by
  funext t; simp only [mask_apply]; split
  · rfl
  · next ht => exact (h t ht).symm

theorem Masked.mask_eq {X : RS} (h : Masked X) {r : Row} (hr : r ∈ X.rows) : mask X.cols r = r :=
  mask_eq_self (h r hr)

theorem map_mask_eq_self {X : RS} (h : Masked X) : X.rows.map (mask X.cols) = X.rows := by
  conv => rhs; rw [← List.map_id X.rows]
  exact List.map_congr_left fun r hr => h.mask_eq hr

theorem Pred.eval_mask (p : Pred) {P : TagSet} (h : p.fv ⊆ P) (r : Row) : p.eval (mask P r) = p.eval r :=
  p.dep _ _ fun t ht => by simp [h ht]

theorem Expr.eval_mask (e : Expr) {P : TagSet} (h : e.fv ⊆ P) (r : Row) : e.eval (mask P r) = e.eval r :=
  e.dep _ _ fun t ht => by simp [h ht]

theorem mask_insert_update {c : TagSet} {r : Row} (h : ∀ s, s ∉ c → r s = 0) (t : Tag) (v : Int) :
    mask (insert t c) (Function.update r t v) = Function.update r t v := by
  apply mask_eq_self
  intro s hs
  simp only [Finset.mem_insert, not_or] at hs
  rw [Function.update_of_ne hs.1]
  exact h s hs.2

theorem calcF_rows_of_masked {X : RS} (hX : Masked X) (t : Tag) (f : Row → Int) :
    (calcF t f X).rows = X.rows.map fun r => Function.update r t (f r) := by
  simp only [calcF]
  exact List.map_congr_left fun r hr => mask_insert_update (hX r hr) t _

theorem Pred.eval_update (p : Pred) {t : Tag} (h : t ∉ p.fv) (r : Row) (v : Int) :
    p.eval (Function.update r t v) = p.eval r :=
  p.dep _ _ fun s hs => Function.update_of_ne (fun e' : s = t => h (e' ▸ hs)) _ _

theorem Expr.eval_update (e : Expr) {t : Tag} (h : t ∉ e.fv) (r : Row) (v : Int) :
    e.eval (Function.update r t v) = e.eval r :=
  e.dep _ _ fun s hs => Function.update_of_ne (fun e' : s = t => h (e' ▸ hs)) _ _

/-! ## closure of `Masked` under the operators -/

theorem masked_filterF {X : RS} (hX : Masked X) (f : Row → Bool) : Masked (filterF f X) :=
  fun r hr => hX r (List.mem_filter.mp hr).1

theorem masked_calcF {X : RS} (_hX : Masked X) (t : Tag) (f : Row → Int) : Masked (calcF t f X) := by
  intro r hr s hs
  simp only [calcF, List.mem_map] at hr hs
  obtain ⟨r', _, rfl⟩ := hr
  simp [hs]

theorem masked_proj (P : TagSet) (X : RS) : Masked (proj P X) := by
  intro r hr s hs
  simp only [proj, List.mem_map] at hr hs
  obtain ⟨r', _, rfl⟩ := hr
  simp [hs]

/-! ## slice -/

theorem slice_map (a : Int) (b : OptInt) (c c' : TagSet) (f : Row → Row) (l : List Row) :
    slice a b ⟨c, l.map f⟩ = ⟨c, (slice a b ⟨c', l⟩).rows.map f⟩ := by
  unfold slice
  split
  · rfl
  · cases b <;> simp [List.map_drop, List.map_take]

theorem slice_cols (a : Int) (b : OptInt) (X : RS) : (slice a b X).cols = X.cols := by
  unfold slice; split <;> rfl

theorem slice_rows_getElem? (a : Int) (b : OptInt) (X : RS) (h : wf a b) (i : Nat) :
    (slice a b X).rows[i]? =
      if isNone b ∨ a + i < val b then X.rows[a.toNat + i]? else none := by
  obtain ⟨ha, hb⟩ := h
  cases b with
  | none =>
    have : ¬ a < 0 := by omega
    simp [slice, isNone, this]
  | some v =>
    have hv : a ≤ v := by simpa [isNone, val] using hb
    have h1 : ¬ a < 0 := by omega
    have h2 : ¬ v < 0 := by omega
    simp only [slice, isNone, val, h1, h2, Option.some.injEq, exists_eq_left', or_self, if_false,
      List.getElem?_drop, List.getElem?_take, reduceCtorEq, false_or, Option.getD_some]
    have : (a.toNat + i < v.toNat) ↔ a + i < v := by omega
    simp only [this]

/-! ## join -/

theorem length_joinRows_le (p : Pred) (K cX cY : TagSet) (xs ys : List Row) :
    (joinRows p K cX cY xs ys).length ≤ xs.length * ys.length := by
  induction xs with
  | nil => simp [joinRows]
  | cons r xs ih =>
    simp only [joinRows, List.flatMap_cons, List.length_append, List.length_cons] at ih ⊢
    have := List.length_filterMap_le (fun s =>
      if (∀ k ∈ K, r k = s k) ∧ p.eval (merge cY r s) = true
      then some (mask (cX ∪ cY) (merge cY r s)) else none) ys
    rw [Nat.add_mul]
    omega

/-- the contribution of one pair of rows to the nested-loop join -/
def jrow (p : Pred) (K cX cY : TagSet) (r s : Row) : Option Row :=
  if (∀ k ∈ K, r k = s k) ∧ p.eval (merge cY r s) = true
  then some (mask (cX ∪ cY) (merge cY r s)) else none

theorem joinRows_eq (p : Pred) (K cX cY : TagSet) (xs ys : List Row) :
    joinRows p K cX cY xs ys = xs.flatMap fun r => ys.filterMap (jrow p K cX cY r) := rfl

theorem jrow_eq_some {p : Pred} {K cX cY : TagSet} {r s row : Row} (h : jrow p K cX cY r s = some row) :
    (∀ k ∈ K, r k = s k) ∧ p.eval (merge cY r s) = true ∧ row = mask (cX ∪ cY) (merge cY r s) := by
  unfold jrow at h
  split at h
  · next hc => exact ⟨hc.1, hc.2, (Option.some.inj h).symm⟩
  · cases h

theorem map_joinRows_outer (g f : Row → Row) (p p' : Pred) (K K' cX cY cX' cY' : TagSet) (xs ys : List Row)
    (h : ∀ r ∈ xs, ∀ s ∈ ys, (jrow p K cX cY r s).map g = jrow p' K' cX' cY' (f r) s) :
    (joinRows p K cX cY xs ys).map g = joinRows p' K' cX' cY' (xs.map f) ys := by
  rw [joinRows_eq, joinRows_eq, List.map_flatMap, List.flatMap_map]
  apply List.flatMap_congr
  intro r hr
  rw [List.map_filterMap]
  exact List.filterMap_congr fun s hs => h r hr s hs

theorem map_joinRows_inner (g f : Row → Row) (p p' : Pred) (K K' cX cY cX' cY' : TagSet) (xs ys : List Row)
    (h : ∀ r ∈ xs, ∀ s ∈ ys, (jrow p K cX cY r s).map g = jrow p' K' cX' cY' r (f s)) :
    (joinRows p K cX cY xs ys).map g = joinRows p' K' cX' cY' xs (ys.map f) := by
  rw [joinRows_eq, joinRows_eq, List.map_flatMap]
  apply List.flatMap_congr
  intro r hr
  rw [List.map_filterMap, List.filterMap_map]
  exact List.filterMap_congr fun s hs => h r hr s hs

theorem filter_joinRows_outer (q qX : Row → Bool) (p : Pred) (K cX cY : TagSet) (ys : List Row) :
    ∀ (xs : List Row), (∀ r ∈ xs, ∀ s ∈ ys, ∀ row, jrow p K cX cY r s = some row → q row = qX r) →
    (joinRows p K cX cY xs ys).filter q = joinRows p K cX cY (xs.filter qX) ys := by
  intro xs
  induction xs with
  | nil => intro _; rfl
  | cons r xs ih =>
    intro h
    have ih' := ih fun r' hr' => h r' (List.mem_cons_of_mem _ hr')
    have hr : ∀ row ∈ ys.filterMap (jrow p K cX cY r), q row = qX r := by
      intro row hrow
      obtain ⟨s, hs, e⟩ := List.mem_filterMap.mp hrow
      exact h r List.mem_cons_self s hs row e
    rw [joinRows_eq] at ih' ⊢
    rw [List.flatMap_cons, List.filter_append, ih', List.filter_cons]
    by_cases hq : qX r = true
    · simp only [hq, if_true, joinRows_eq, List.flatMap_cons]
      congr 1
      exact List.filter_eq_self.mpr fun row hrow => (hr row hrow).trans hq
    · have : (ys.filterMap (jrow p K cX cY r)).filter q = [] :=
        List.filter_eq_nil_iff.mpr fun row hrow => by rw [hr row hrow]; exact hq
      simp [hq, this]

theorem filter_joinRows_inner (q qY : Row → Bool) (p : Pred) (K cX cY : TagSet) (xs ys : List Row)
    (h : ∀ r ∈ xs, ∀ s ∈ ys, ∀ row, jrow p K cX cY r s = some row → q row = qY s) :
    (joinRows p K cX cY xs ys).filter q = joinRows p K cX cY xs (ys.filter qY) := by
  rw [joinRows_eq, joinRows_eq, List.filter_flatMap]
  apply List.flatMap_congr
  intro r hr
  rw [List.filter_filterMap, List.filterMap_filter]
  apply List.filterMap_congr
  intro s hs
  cases e : jrow p K cX cY r s with
  | none => simp
  | some row =>
    have := h r hr s hs row e
    simp only [Option.filter, this]

/-! ## dedup -/

theorem dedupAux_nil (seen : List Row) : dedupAux seen [] = [] := by simp [dedupAux]

theorem dedupAux_cons (seen : List Row) (r : Row) (l : List Row) :
    dedupAux seen (r :: l) = if r ∈ seen then dedupAux seen l else r :: dedupAux (r :: seen) l := by
  simp [dedupAux]

/-- structural characterisation of the dedup loop -/
noncomputable def dedupS : List Row → List Row
  | [] => []
  | r :: l => r :: (dedupS l).filter (fun x => decide (x ≠ r))

theorem dedupAux_eq_filter (l : List Row) : ∀ seen : List Row,
    dedupAux seen l = (dedupS l).filter (fun x => decide (x ∉ seen)) := by
  induction l with
  | nil => intro seen; simp [dedupAux_nil, dedupS]
  | cons r l ih =>
    intro seen
    rw [dedupAux_cons]
    by_cases h : r ∈ seen
    · simp only [h, if_true, dedupS, ih]
      rw [List.filter_cons]
      simp only [h, not_true_eq_false, decide_false, Bool.false_eq_true, if_false, List.filter_filter]
      apply List.filter_congr
      intro x _
      by_cases hx : x ∈ seen
      · simp [hx]
      · have : x ≠ r := fun e => hx (e ▸ h)
        simp [hx, this]
    · simp only [h, if_false, dedupS, ih]
      rw [List.filter_cons]
      simp only [h, not_false_eq_true, decide_true, if_true, List.filter_filter]
      congr 1
      apply List.filter_congr
      intro x _
      simp [List.mem_cons, not_or, Bool.and_comm]

theorem dedupRows_eq_dedupS (l : List Row) : dedupRows l = dedupS l := by
  simp [dedupRows, dedupAux_eq_filter]

@[simp] theorem dedupRows_nil : dedupRows [] = [] := by simp [dedupRows, dedupAux_nil]

theorem dedupRows_cons (r : Row) (l : List Row) :
    dedupRows (r :: l) = r :: (dedupRows l).filter (fun x => decide (x ≠ r)) := by
  simp [dedupRows_eq_dedupS, dedupS]

theorem dedupRows_sublist (l : List Row) : (dedupRows l).Sublist l := by
  induction l with
  | nil => simp
  | cons r l ih =>
    rw [dedupRows_cons]
    exact (List.filter_sublist.trans ih).cons_cons r

theorem length_dedupRows_le (l : List Row) : (dedupRows l).length ≤ l.length :=
  (dedupRows_sublist l).length_le

theorem dedupRows_ne_nil {l : List Row} (h : l ≠ []) : dedupRows l ≠ [] := by
  cases l with
  | nil => exact absurd rfl h
  | cons r l => rw [dedupRows_cons]; simp

theorem mem_dedupRows {l : List Row} {x : Row} : x ∈ dedupRows l ↔ x ∈ l := by
  induction l with
  | nil => simp
  | cons r l ih =>
    rw [dedupRows_cons]
    by_cases h : x = r
    · simp [h]
    · simp [h, ih]

theorem dedupRows_filter (p : Row → Bool) (l : List Row) :
    dedupRows (l.filter p) = (dedupRows l).filter p := by
  induction l with
  | nil => simp
  | cons r l ih =>
    rw [List.filter_cons]
    by_cases h : p r = true
    · simp only [h, if_true, dedupRows_cons, ih, List.filter_cons, List.filter_filter]
      congr 1
      apply List.filter_congr
      intro x _
      simp [Bool.and_comm]
    · simp only [h, if_false, Bool.false_eq_true, dedupRows_cons, ih, List.filter_cons, List.filter_filter]
      apply List.filter_congr
      intro x _
      by_cases hx : p x = true
      · have : x ≠ r := fun e => h (e ▸ hx)
        simp [hx, this]
      · simp [hx]

theorem dedupRows_idem (l : List Row) : dedupRows (dedupRows l) = dedupRows l := by
  induction l with
  | nil => simp
  | cons r l ih =>
    rw [dedupRows_cons, dedupRows_cons, dedupRows_filter, ih, List.filter_filter]
    congr 1
    apply List.filter_congr
    intro x _
    simp

theorem dedupRows_map (f : Row → Row) (l : List Row)
    (inj : ∀ x ∈ l, ∀ y ∈ l, f x = f y → x = y) :
    dedupRows (l.map f) = (dedupRows l).map f := by
  induction l with
  | nil => simp
  | cons r l ih =>
    have ih' := ih fun x hx y hy => inj x (List.mem_cons_of_mem _ hx) y (List.mem_cons_of_mem _ hy)
    rw [List.map_cons, dedupRows_cons, dedupRows_cons, ih', List.map_cons, List.filter_map]
    congr 2
    apply List.filter_congr
    intro x hx
    have hx' : x ∈ l := mem_dedupRows.mp hx
    have : f x = f r ↔ x = r :=
      ⟨fun e => inj x (List.mem_cons_of_mem _ hx') r (List.mem_cons_self) e, fun e => e ▸ rfl⟩
    simp [this]

theorem length_dedupRows_le_one {l : List Row} (h : ∀ x ∈ l, ∀ y ∈ l, x = y) :
    (dedupRows l).length ≤ 1 := by
  cases l with
  | nil => simp
  | cons r l =>
    rw [dedupRows_cons]
    have : (dedupRows l).filter (fun x => decide (x ≠ r)) = [] := by
      rw [List.filter_eq_nil_iff]
      intro x hx
      have := h x (List.mem_cons_of_mem _ (mem_dedupRows.mp hx)) r List.mem_cons_self
      simp [this]
    rw [this]; simp

/-- the rows emitted by the dedup loop are pairwise distinct -/
theorem nodup_dedupRows (l : List Row) : (dedupRows l).Nodup := by
  induction l with
  | nil => simp
  | cons r l ih =>
    rw [dedupRows_cons, List.nodup_cons]
    refine ⟨?_, ih.filter _⟩
    simp [List.mem_filter]

/-- the dedup loop does nothing on a list of pairwise distinct rows -/
theorem dedupRows_of_nodup {l : List Row} (h : l.Nodup) : dedupRows l = l := by
  induction l with
  | nil => simp
  | cons r l ih =>
    rw [List.nodup_cons] at h
    rw [dedupRows_cons, ih h.2]
    congr 1
    rw [List.filter_eq_self]
    intro x hx
    have : x ≠ r := fun e => h.1 (e ▸ hx)
    simp [this]

/-- slices of a row list are sublists -/
theorem slice_rows_sublist (a : Int) (b : OptInt) (X : RS) : (slice a b X).rows.Sublist X.rows := by
  unfold slice
  split
  · exact List.Sublist.refl _
  · cases b with
    | none => exact List.drop_sublist _ _
    | some v => exact (List.drop_sublist _ _).trans (List.take_sublist _ _)

/-! ## stable sort by an integer key (generic) -/

section StableSort

variable {α : Type} (r : α → α → Prop) [DecidableRel r] (key : α → Int)
  (hr : ∀ a b, r a b ↔ key a ≤ key b)

include hr

theorem pairwise_isort (l : List α) : (l.insertionSort r).Pairwise r := by
  have : Std.Total r := ⟨fun a b => by simp only [hr]; omega⟩
  have : IsTrans α r := ⟨fun a b c => by simp only [hr]; omega⟩
  exact List.pairwise_insertionSort r l

/-- stability: a stable sort does not change the subsequence of elements with a given key -/
theorem filter_class_isort (c : Int) (l : List α) :
    (l.insertionSort r).filter (fun x => decide (key x = c)) = l.filter (fun x => decide (key x = c)) := by
  have hpw : (l.filter (fun x => decide (key x = c))).Pairwise r := by
    apply List.pairwise_of_forall_mem_list
    intro a ha b hb
    have ha' := (List.mem_filter.mp ha).2
    have hb' := (List.mem_filter.mp hb).2
    simp only [decide_eq_true_eq] at ha' hb'
    rw [hr]; omega
  have hsub := (List.sublist_insertionSort hpw List.filter_sublist).filter (fun x => decide (key x = c))
  rw [List.filter_filter] at hsub
  simp only [Bool.and_self] at hsub
  have hlen := ((List.perm_insertionSort r l).filter (fun x => decide (key x = c))).length_eq
  exact (hsub.eq_of_length hlen.symm).symm

omit [DecidableRel r] in
/-- a sorted list is determined by its key classes -/
theorem eq_of_pairwise_of_classes : ∀ (l1 l2 : List α), l1.Pairwise r → l2.Pairwise r →
    (∀ c, l1.filter (fun x => decide (key x = c)) = l2.filter (fun x => decide (key x = c))) → l1 = l2
  | [], [], _, _, _ => rfl
  | [], b :: l2, _, _, h => by have := h (key b); simp at this
  | a :: l1, [], _, _, h => by have := h (key a); simp at this
  | a :: l1, b :: l2, h1, h2, h => by
    rw [List.pairwise_cons] at h1 h2
    have ha : a ∈ b :: l2 := by
      have m : a ∈ (a :: l1).filter (fun x => decide (key x = key a)) := by simp
      rw [h (key a)] at m; exact (List.mem_filter.mp m).1
    have hb : b ∈ a :: l1 := by
      have m : b ∈ (b :: l2).filter (fun x => decide (key x = key b)) := by simp
      rw [← h (key b)] at m; exact (List.mem_filter.mp m).1
    have hab : key a = key b := by
      have h1' : key a ≤ key b := by
        rcases List.mem_cons.mp hb with e | e
        · rw [e]
        · exact (hr _ _).mp (h1.1 b e)
      have h2' : key b ≤ key a := by
        rcases List.mem_cons.mp ha with e | e
        · rw [e]
        · exact (hr _ _).mp (h2.1 a e)
      omega
    have hk := h (key a)
    simp only [List.filter_cons, hab, decide_true, if_true, List.cons.injEq] at hk
    obtain ⟨rfl, ht⟩ := hk
    congr 1
    apply eq_of_pairwise_of_classes l1 l2 h1.2 h2.2
    intro c
    by_cases hc : key a = c
    · subst hc; exact ht
    · have := h c
      simpa [List.filter_cons, hc] using this

theorem isort_unique {l l' : List α} (hp : l'.Pairwise r)
    (hc : ∀ c, l'.filter (fun x => decide (key x = c)) = l.filter (fun x => decide (key x = c))) :
    l' = l.insertionSort r :=
  eq_of_pairwise_of_classes r key hr _ _ hp (pairwise_isort r key hr l)
    (fun c => by rw [hc, filter_class_isort r key hr])

theorem filter_isort (p : α → Bool) (l : List α) :
    (l.insertionSort r).filter p = (l.filter p).insertionSort r := by
  apply isort_unique r key hr
  · exact (pairwise_isort r key hr l).sublist List.filter_sublist
  · intro c
    rw [List.filter_comm, filter_class_isort r key hr, List.filter_comm]

/-- a pass that is repeated after operations commuting with filters is redundant -/
theorem isort_redundant (F : List α → List α)
    (hF : ∀ (p : α → Bool) (l : List α), (F l).filter p = F (l.filter p)) (l : List α) :
    (F (l.insertionSort r)).insertionSort r = (F l).insertionSort r := by
  apply isort_unique r key hr
  · exact pairwise_isort r key hr _
  · intro c
    rw [filter_class_isort r key hr, hF, filter_class_isort r key hr, hF]

end StableSort

/-! ## sort passes on rows -/

/-- the integer key of a term: descending = ascending on the negated value -/
def termKey (t : Term) (r : Row) : Int := if t.2 = true then t.1.eval r else - t.1.eval r

theorem termLe_iff (t : Term) (a b : Row) : termLe t a b ↔ termKey t a ≤ termKey t b := by
  unfold termLe termKey
  split
  · rfl
  · omega

theorem sortPass_perm (t : Term) (l : List Row) : (sortPass t l).Perm l :=
  List.perm_insertionSort _ l

theorem sortRows_perm (ts : Terms) (l : List Row) : (sortRows ts l).Perm l := by
  induction ts with
  | nil => exact List.Perm.refl _
  | cons t ts ih => exact (sortPass_perm t _).trans ih

@[simp] theorem sortRows_nil (l : List Row) : sortRows [] l = l := rfl
theorem sortRows_cons (t : Term) (ts : Terms) (l : List Row) :
    sortRows (t :: ts) l = sortPass t (sortRows ts l) := rfl
theorem sortRows_append (a b : Terms) (l : List Row) :
    sortRows (a ++ b) l = sortRows a (sortRows b l) := by
  simp [sortRows, List.foldr_append]

theorem mem_sortRows {ts : Terms} {l : List Row} {x : Row} : x ∈ sortRows ts l ↔ x ∈ l :=
  (sortRows_perm ts l).mem_iff

theorem filter_sortPass (p : Row → Bool) (t : Term) (l : List Row) :
    (sortPass t l).filter p = sortPass t (l.filter p) :=
  filter_isort _ (termKey t) (termLe_iff t) p l

theorem filter_sortRows (p : Row → Bool) (ts : Terms) (l : List Row) :
    (sortRows ts l).filter p = sortRows ts (l.filter p) := by
  induction ts with
  | nil => rfl
  | cons t ts ih => rw [sortRows_cons, filter_sortPass, ih, sortRows_cons]

theorem dedupRows_sortPass (t : Term) (l : List Row) :
    dedupRows (sortPass t l) = sortPass t (dedupRows l) := by
  apply isort_unique _ (termKey t) (termLe_iff t)
  · exact (pairwise_isort _ (termKey t) (termLe_iff t) l).sublist (dedupRows_sublist _)
  · intro c
    rw [← dedupRows_filter, sortPass, filter_class_isort _ (termKey t) (termLe_iff t), dedupRows_filter]

theorem dedupRows_sortRows (ts : Terms) (l : List Row) :
    dedupRows (sortRows ts l) = sortRows ts (dedupRows l) := by
  induction ts with
  | nil => rfl
  | cons t ts ih => rw [sortRows_cons, dedupRows_sortPass, ih, sortRows_cons]

theorem map_sortRows (f : Row → Row) (ts : Terms) (l : List Row)
    (h : ∀ t ∈ ts, ∀ x ∈ l, t.1.eval (f x) = t.1.eval x) :
    (sortRows ts l).map f = sortRows ts (l.map f) := by
  induction ts with
  | nil => rfl
  | cons t ts ih =>
    rw [sortRows_cons, sortRows_cons, ← ih (fun t' ht' => h t' (List.mem_cons_of_mem _ ht'))]
    apply List.map_insertionSort
    intro a ha b hb
    have ea := h t List.mem_cons_self a (mem_sortRows.mp ha)
    have eb := h t List.mem_cons_self b (mem_sortRows.mp hb)
    simp only [termLe, ea, eb]

/-- a sort pass by a term that is applied again later (i.e. occurs earlier in the list) is redundant -/
theorem sortPass_redundant (t : Term) (mid : Terms) (l : List Row) :
    sortPass t (sortRows mid (sortPass t l)) = sortPass t (sortRows mid l) :=
  isort_redundant _ (termKey t) (termLe_iff t) (sortRows mid) (fun p l => filter_sortRows p mid l) l

/-! ## term lists -/

theorem tcatList_nil (b : Terms) : tcatList [] b = b := rfl

theorem tcatList_cons (t : Term) (a b : Terms) :
    tcatList (t :: a) b = tcatList a (if t ∈ b then b else b ++ [t]) := rfl

theorem mem_tcatList {a : Terms} {x : Term} : ∀ {b : Terms}, x ∈ tcatList a b ↔ x ∈ a ∨ x ∈ b := by
  induction a with
  | nil => intro b; simp [tcatList_nil]
  | cons t a ih =>
    intro b
    rw [tcatList_cons, ih]
    by_cases h : t ∈ b
    · simp only [h, if_true, List.mem_cons]
      constructor
      · rintro (h' | h')
        · exact Or.inl (Or.inr h')
        · exact Or.inr h'
      · rintro ((rfl | h') | h')
        · exact Or.inr h
        · exact Or.inl h'
        · exact Or.inr h'
    · simp only [h, if_false, List.mem_cons, List.mem_append]
      tauto

theorem mem_fvts {ts : Terms} {s : Tag} : s ∈ fvts ts ↔ ∃ t ∈ ts, s ∈ t.1.fv := by
  induction ts with
  | nil => simp [fvts]
  | cons t ts ih =>
    have : fvts (t :: ts) = t.1.fv ∪ fvts ts := rfl
    rw [this, Finset.mem_union, ih]
    simp

theorem sortRows_tcatList (a : Terms) (l : List Row) :
    ∀ b : Terms, sortRows (tcatList a b) l = sortRows (b ++ a) l := by
  induction a with
  | nil => intro b; simp [tcatList_nil]
  | cons t a ih =>
    intro b
    rw [tcatList_cons]
    by_cases h : t ∈ b
    · simp only [h, if_true]
      rw [ih]
      obtain ⟨pre, mid, rfl⟩ := List.append_of_mem h
      simp only [List.append_assoc, List.cons_append, sortRows_append, sortRows_cons]
      rw [sortPass_redundant]
    · simp only [h, if_false]
      rw [ih]
      simp

theorem merge_of_agree {cX cF K : TagSet} {r s : Row} (hns : cX ∩ cF ⊆ K) (ha : ∀ k ∈ K, r k = s k)
    {u : Tag} (hu : u ∈ cX) : merge cF r s u = r u := by
  unfold merge
  split
  · next h => exact (ha u (hns (Finset.mem_inter.mpr ⟨hu, h⟩))).symm
  · rfl

/-! ## sort and join -/

theorem sortPass_joinRows (t : Term) (p : Pred) (K cX cY : TagSet) (xs ys : List Row)
    (h : ∀ r ∈ xs, ∀ s ∈ ys, ∀ row, jrow p K cX cY r s = some row → t.1.eval row = t.1.eval r) :
    sortPass t (joinRows p K cX cY xs ys) = joinRows p K cX cY (sortPass t xs) ys := by
  have hmem : ∀ {r}, r ∈ sortPass t xs ↔ r ∈ xs := (sortPass_perm t xs).mem_iff
  have hkey : ∀ r ∈ xs, ∀ row ∈ ys.filterMap (jrow p K cX cY r), t.1.eval row = t.1.eval r := by
    intro r hr row hrow
    obtain ⟨s, hs, e⟩ := List.mem_filterMap.mp hrow
    exact h r hr s hs row e
  symm
  apply isort_unique _ (termKey t) (termLe_iff t)
  · rw [joinRows_eq, List.pairwise_flatMap]
    constructor
    · intro a ha
      apply List.pairwise_of_forall_mem_list
      intro x hx y hy
      have ex := hkey a (hmem.mp ha) x hx
      have ey := hkey a (hmem.mp ha) y hy
      simp only [termLe, ex, ey]
      split <;> exact Int.le_refl _
    · apply (pairwise_isort _ (termKey t) (termLe_iff t) xs).imp_of_mem
      intro a b ha hb hab x hx y hy
      have ex := hkey a (hmem.mp ha) x hx
      have ey := hkey b (hmem.mp hb) y hy
      simp only [termLe, ex, ey]
      exact hab
  · intro c
    have hq : ∀ r ∈ xs, ∀ s ∈ ys, ∀ row, jrow p K cX cY r s = some row →
        decide (termKey t row = c) = decide (termKey t r = c) := by
      intro r hr s hs row e
      rw [show termKey t row = termKey t r by simp only [termKey, h r hr s hs row e]]
    rw [filter_joinRows_outer _ _ p K cX cY ys _ (fun r hr => hq r (hmem.mp hr)),
      filter_joinRows_outer _ _ p K cX cY ys _ hq, sortPass,
      filter_class_isort _ (termKey t) (termLe_iff t)]

theorem sortRows_joinRows (ts : Terms) (p : Pred) (K cX cY : TagSet) (xs ys : List Row)
    (h : ∀ t ∈ ts, ∀ r ∈ xs, ∀ s ∈ ys, ∀ row, jrow p K cX cY r s = some row → t.1.eval row = t.1.eval r) :
    sortRows ts (joinRows p K cX cY xs ys) = joinRows p K cX cY (sortRows ts xs) ys := by
  induction ts with
  | nil => rfl
  | cons t ts ih =>
    rw [sortRows_cons, sortRows_cons, ih fun t' ht' => h t' (List.mem_cons_of_mem _ ht')]
    apply sortPass_joinRows
    intro r hr
    exact h t List.mem_cons_self r (mem_sortRows.mp hr)

/-! ## join with the unit sequence -/

theorem filterMap_eq_filter_of (φ : Row → Option Row) (q : Row → Bool) (l : List Row)
    (h : ∀ s ∈ l, φ s = if q s = true then some s else none) : l.filterMap φ = l.filter q := by
  induction l with
  | nil => rfl
  | cons a l ih =>
    have ih' := ih fun s hs => h s (List.mem_cons_of_mem _ hs)
    rw [List.filterMap_cons, h a List.mem_cons_self, List.filter_cons]
    by_cases hq : q a = true <;> simp [hq, ih']

theorem flatMap_eq_filter_of (g : Row → List Row) (q : Row → Bool) (l : List Row)
    (h : ∀ r ∈ l, g r = if q r = true then [r] else []) : l.flatMap g = l.filter q := by
  induction l with
  | nil => rfl
  | cons a l ih =>
    have ih' := ih fun s hs => h s (List.mem_cons_of_mem _ hs)
    rw [List.flatMap_cons, h a List.mem_cons_self, List.filter_cons, ih']
    by_cases hq : q a = true <;> simp [hq]

/-! ## dedup_key -/

theorem length_dictSet_le (d : List (Row × Row)) (k v : Row) : (dictSet d k v).length ≤ d.length + 1 := by
  unfold dictSet
  split <;> simp

theorem length_foldl_dictSet_le (K : TagSet) (l : List Row) : ∀ d : List (Row × Row),
    (l.foldl (fun d r => dictSet d (mask K r) r) d).length ≤ d.length + l.length := by
  induction l with
  | nil => intro d; simp
  | cons r l ih =>
    intro d
    rw [List.foldl_cons]
    have h1 := ih (dictSet d (mask K r) r)
    have h2 := length_dictSet_le d (mask K r) r
    simp only [List.length_cons]
    omega

theorem length_dedupKeyRows_le (K : TagSet) (l : List Row) : (dedupKeyRows K l).length ≤ l.length := by
  have := length_foldl_dictSet_le K l []
  simpa [dedupKeyRows] using this

theorem dedupAux_congr {seen seen' : List Row} (h : ∀ x, x ∈ seen ↔ x ∈ seen') (l : List Row) :
    dedupAux seen l = dedupAux seen' l := by
  rw [dedupAux_eq_filter, dedupAux_eq_filter]
  apply List.filter_congr
  intro x _
  simp [h x]

theorem foldl_dictSet_eq (K : TagSet) (l : List Row) (hl : ∀ r ∈ l, mask K r = r) : ∀ seen : List Row,
    l.foldl (fun d r => dictSet d (mask K r) r) (seen.map fun r => (r, r)) =
      (seen ++ dedupAux seen l).map fun r => (r, r) := by
  induction l with
  | nil => intro seen; simp [dedupAux_nil]
  | cons r l ih =>
    intro seen
    have ih' := ih fun x hx => hl x (List.mem_cons_of_mem _ hx)
    rw [List.foldl_cons, hl r List.mem_cons_self, dedupAux_cons]
    have hkeys : (seen.map fun r : Row => (r, r)).map Prod.fst = seen := by
      simp [List.map_map, Function.comp_def]
    by_cases h : r ∈ seen
    · have : dictSet (seen.map fun r => (r, r)) r r = seen.map fun r => (r, r) := by
        unfold dictSet
        rw [hkeys]
        simp only [h, if_true, List.map_map]
        apply List.map_congr_left
        intro x _
        simp only [Function.comp]
        split
        · next e => rw [e]
        · rfl
      rw [this, ih' seen]
      simp [h]
    · have : dictSet (seen.map fun r => (r, r)) r r = (seen ++ [r]).map fun r => (r, r) := by
        unfold dictSet
        rw [hkeys]
        simp [h]
      rw [this, ih' (seen ++ [r])]
      simp only [h, if_false, List.append_assoc, List.cons_append, List.nil_append]
      rw [dedupAux_congr (seen := seen ++ [r]) (seen' := r :: seen)]
      intro x
      simp [or_comm]

theorem dedupKeyRows_eq_dedupRows (K : TagSet) (l : List Row) (hl : ∀ r ∈ l, mask K r = r) :
    dedupKeyRows K l = dedupRows l := by
  have := foldl_dictSet_eq K l hl []
  simp only [List.map_nil, List.nil_append] at this
  simp [dedupKeyRows, this, dedupRows, List.map_map, Function.comp_def]

/-! ## closure of `Masked` under the remaining operators
(the model is closed: every operator maps masked sequences to masked sequences; for `chain` this
needs the columns of the second operand to be among those of the first) -/

theorem masked_empty (C : TagSet) : Masked (empty C) := by
  intro r hr; simp [empty] at hr

theorem masked_unit : Masked unit := by
  intro r hr t _
  simp only [unit, List.mem_singleton] at hr
  rw [hr]; rfl

theorem masked_filter {X : RS} (hX : Masked X) (p : Pred) : Masked (filter p X) :=
  masked_filterF hX _

theorem masked_calcE {X : RS} (hX : Masked X) (t : Tag) (e : Expr) : Masked (calcE t e X) :=
  masked_calcF hX t _

theorem masked_dedup {X : RS} (hX : Masked X) : Masked (dedup X) :=
  fun r hr => hX r (mem_dedupRows.mp hr)

theorem masked_sort {X : RS} (hX : Masked X) (ts : Terms) : Masked (sort ts X) :=
  fun r hr => hX r (mem_sortRows.mp hr)

theorem masked_slice {X : RS} (hX : Masked X) (a : Int) (b : OptInt) : Masked (slice a b X) := by
  unfold slice
  split
  · exact hX
  · intro r hr
    apply hX r
    cases b with
    | none => exact List.mem_of_mem_drop hr
    | some v => exact List.mem_of_mem_take (List.mem_of_mem_drop hr)

theorem masked_chain {X Y : RS} (hX : Masked X) (hY : Masked Y) (h : Y.cols ⊆ X.cols) :
    Masked (chain X Y) := by
  intro r hr t ht
  simp only [chain, List.mem_append] at hr ht
  rcases hr with hr | hr
  · exact hX r hr t ht
  · exact hY r hr t fun h' => ht (h h')

theorem masked_join (p : Pred) (K : TagSet) (X Y : RS) : Masked (join p K X Y) := by
  intro row hrow t ht
  simp only [join, joinRows_eq, List.mem_flatMap, List.mem_filterMap] at hrow ht
  obtain ⟨r, _, s, _, e⟩ := hrow
  obtain ⟨_, _, rfl⟩ := jrow_eq_some e
  simp [ht]

theorem masked_mapc {X : RS} (hX : Masked X) (t : Tag) (cl : Callable) : Masked (mapc t cl X) :=
  masked_calcF hX t _

theorem masked_filterc {X : RS} (hX : Masked X) (cl : Callable) : Masked (filterc cl X) :=
  masked_filterF hX _

theorem mem_dictSet_snd {d : List (Row × Row)} {k v x : Row}
    (h : x ∈ (dictSet d k v).map Prod.snd) : x ∈ d.map Prod.snd ∨ x = v := by
  unfold dictSet at h
  split at h
  · simp only [List.map_map, List.mem_map, Function.comp] at h
    obtain ⟨kv, hkv, e⟩ := h
    split at e
    · exact Or.inr e.symm
    · exact Or.inl (List.mem_map.mpr ⟨kv, hkv, e⟩)
  · simpa using h

theorem mem_foldl_dictSet (K : TagSet) (l : List Row) : ∀ (d : List (Row × Row)) (x : Row),
    x ∈ (l.foldl (fun d r => dictSet d (mask K r) r) d).map Prod.snd → x ∈ d.map Prod.snd ∨ x ∈ l := by
  induction l with
  | nil => intro d x h; exact Or.inl h
  | cons r l ih =>
    intro d x h
    rw [List.foldl_cons] at h
    rcases ih _ x h with h' | h'
    · rcases mem_dictSet_snd h' with h'' | h''
      · exact Or.inl h''
      · exact Or.inr (h'' ▸ List.mem_cons_self)
    · exact Or.inr (List.mem_cons_of_mem _ h')

theorem mem_dedupKeyRows {K : TagSet} {l : List Row} {x : Row} (h : x ∈ dedupKeyRows K l) : x ∈ l := by
  rcases mem_foldl_dictSet K l [] x h with h' | h'
  · simp at h'
  · exact h'

theorem masked_dedup_key {X : RS} (hX : Masked X) (K : TagSet) : Masked (dedup_key K X) :=
  fun r hr => hX r (mem_dedupKeyRows hr)

/-! ## keyed deduplication (dict semantics): rebuilding the dict from its own values gives the dict back -/

/-- invariant of the dict built by `dedupKeyRows`: keys are distinct and each key is the masked value -/
def DictOK (K : TagSet) (d : List (Row × Row)) : Prop :=
  (d.map Prod.fst).Nodup ∧ ∀ kv ∈ d, kv.1 = mask K kv.2

theorem dictSet_keys_of_mem (d : List (Row × Row)) (k v : Row) (h : k ∈ d.map Prod.fst) :
    (dictSet d k v).map Prod.fst = d.map Prod.fst := by
  simp only [dictSet, h, if_true, List.map_map]
  apply List.map_congr_left
  intro kv _
  by_cases e : kv.1 = k <;> simp [e]

theorem dictOK_dictSet (K : TagSet) (d : List (Row × Row)) (r : Row) (h : DictOK K d) :
    DictOK K (dictSet d (mask K r) r) := by
  obtain ⟨h1, h2⟩ := h
  by_cases hk : mask K r ∈ d.map Prod.fst
  · refine ⟨?_, ?_⟩
    · rw [dictSet_keys_of_mem d _ r hk]; exact h1
    · intro kv hkv
      simp only [dictSet, hk, if_true, List.mem_map] at hkv
      obtain ⟨kv', hkv', rfl⟩ := hkv
      by_cases e : kv'.1 = mask K r
      · simp [e]
      · simp [e]; exact h2 kv' hkv'
  · refine ⟨?_, ?_⟩
    · simp only [dictSet, hk, if_false, List.map_append, List.map_cons, List.map_nil]
      rw [List.nodup_append]
      refine ⟨h1, by simp, ?_⟩
      intro a ha b hb
      simp only [List.mem_singleton] at hb
      subst hb
      intro e; subst e; exact hk ha
    · intro kv hkv
      simp only [dictSet, hk, if_false, List.mem_append, List.mem_singleton] at hkv
      rcases hkv with hkv | rfl
      · exact h2 kv hkv
      · rfl

theorem dictOK_foldl (K : TagSet) (l : List Row) (d : List (Row × Row)) (h : DictOK K d) :
    DictOK K (l.foldl (fun d r => dictSet d (mask K r) r) d) := by
  induction l generalizing d with
  | nil => exact h
  | cons r l ih => exact ih _ (dictOK_dictSet K d r h)

theorem foldl_rebuild (K : TagSet) (d2 d1 : List (Row × Row)) (h : DictOK K (d1 ++ d2)) :
    (d2.map Prod.snd).foldl (fun d r => dictSet d (mask K r) r) d1 = d1 ++ d2 := by
  induction d2 generalizing d1 with
  | nil => simp
  | cons kv d2 ih =>
    obtain ⟨h1, h2⟩ := h
    have hk : kv.1 = mask K kv.2 := h2 kv (by simp)
    have hnot : mask K kv.2 ∉ d1.map Prod.fst := by
      rw [← hk]
      intro hm
      rw [List.map_append, List.nodup_append] at h1
      exact h1.2.2 _ hm _ (by simp) rfl
    simp only [List.map_cons, List.foldl_cons]
    have step : dictSet d1 (mask K kv.2) kv.2 = d1 ++ [kv] := by
      simp only [dictSet, hnot, if_false]
      congr 2
      exact Prod.ext hk.symm rfl
    rw [step]
    have e : (d1 ++ [kv]) ++ d2 = d1 ++ kv :: d2 := by simp
    have := ih (d1 ++ [kv]) (by rw [e]; exact ⟨h1, h2⟩)
    rw [this, e]

theorem dedupKeyRows_idem (K : TagSet) (l : List Row) :
    dedupKeyRows K (dedupKeyRows K l) = dedupKeyRows K l := by
  unfold dedupKeyRows
  have hok := dictOK_foldl K l [] (by simp [DictOK])
  have := foldl_rebuild K (l.foldl (fun d r => dictSet d (mask K r) r) []) [] (by simpa using hok)
  simp only [List.nil_append] at this
  rw [this]

/-! ## stable sort by an arbitrary decidable total preorder -/
section StablePreorder

variable {α : Type} (r : α → α → Prop) [DecidableRel r]
  (htot : ∀ a b, r a b ∨ r b a) (htr : ∀ a b c, r a b → r b c → r a c)

include htot htr

theorem pairwise_isortP (l : List α) : (l.insertionSort r).Pairwise r := by
  have : Std.Total r := ⟨htot⟩
  have : IsTrans α r := ⟨htr⟩
  exact List.pairwise_insertionSort r l

/-- stability: a stable sort does not change the subsequence of the elements equivalent to `c` -/
theorem filter_class_isortP (c : α) (l : List α) :
    (l.insertionSort r).filter (fun x => decide (r x c ∧ r c x)) = l.filter (fun x => decide (r x c ∧ r c x)) := by
  have : Std.Total r := ⟨htot⟩
  have : IsTrans α r := ⟨htr⟩
  have hpw : (l.filter (fun x => decide (r x c ∧ r c x))).Pairwise r := by
    apply List.pairwise_of_forall_mem_list
    intro a ha b hb
    have ha' := (List.mem_filter.mp ha).2
    have hb' := (List.mem_filter.mp hb).2
    simp only [decide_eq_true_eq] at ha' hb'
    exact htr _ _ _ ha'.1 hb'.2
  have hsub := (List.sublist_insertionSort hpw List.filter_sublist).filter (fun x => decide (r x c ∧ r c x))
  rw [List.filter_filter] at hsub
  simp only [Bool.and_self] at hsub
  have hlen := ((List.perm_insertionSort r l).filter (fun x => decide (r x c ∧ r c x))).length_eq
  exact (hsub.eq_of_length hlen.symm).symm

omit htr in
/-- a sorted list is determined by its equivalence classes -/
theorem eq_of_pairwise_of_classesP : ∀ (l1 l2 : List α), l1.Pairwise r → l2.Pairwise r →
    (∀ c, l1.filter (fun x => decide (r x c ∧ r c x)) = l2.filter (fun x => decide (r x c ∧ r c x))) → l1 = l2
  | [], [], _, _, _ => rfl
  | [], b :: l2, _, _, h => by
      have hb : r b b := (htot b b).elim id id
      have := h b; simp [hb] at this
  | a :: l1, [], _, _, h => by
      have ha : r a a := (htot a a).elim id id
      have := h a; simp [ha] at this
  | a :: l1, b :: l2, h1, h2, h => by
    rw [List.pairwise_cons] at h1 h2
    have raa : r a a := (htot a a).elim id id
    have rbb : r b b := (htot b b).elim id id
    have ha : a ∈ b :: l2 := by
      have m : a ∈ (a :: l1).filter (fun x => decide (r x a ∧ r a x)) := by simp [raa]
      rw [h a] at m; exact (List.mem_filter.mp m).1
    have hb : b ∈ a :: l1 := by
      have m : b ∈ (b :: l2).filter (fun x => decide (r x b ∧ r b x)) := by simp [rbb]
      rw [← h b] at m; exact (List.mem_filter.mp m).1
    have hab : r a b := by
      rcases List.mem_cons.mp hb with e | e
      · rw [e]; exact raa
      · exact h1.1 b e
    have hba : r b a := by
      rcases List.mem_cons.mp ha with e | e
      · rw [e]; exact rbb
      · exact h2.1 a e
    have hk := h a
    simp only [List.filter_cons, raa, hba, hab, and_self, decide_true, if_true, List.cons.injEq] at hk
    obtain ⟨rfl, _⟩ := hk
    congr 1
    apply eq_of_pairwise_of_classesP l1 l2 h1.2 h2.2
    intro c
    have := h c
    by_cases hc : r a c ∧ r c a
    · simpa [List.filter_cons, hc] using this
    · simpa [List.filter_cons, hc] using this

theorem isort_uniqueP {l l' : List α} (hp : l'.Pairwise r)
    (hc : ∀ c, l'.filter (fun x => decide (r x c ∧ r c x)) = l.filter (fun x => decide (r x c ∧ r c x))) :
    l' = l.insertionSort r :=
  eq_of_pairwise_of_classesP r htot _ _ hp (pairwise_isortP r htot htr l)
    (fun c => by rw [hc, filter_class_isortP r htot htr])

theorem filter_isortP (p : α → Bool) (l : List α) :
    (l.insertionSort r).filter p = (l.filter p).insertionSort r := by
  apply isort_uniqueP r htot htr
  · exact (pairwise_isortP r htot htr l).sublist List.filter_sublist
  · intro c
    rw [List.filter_comm, filter_class_isortP r htot htr, List.filter_comm]

end StablePreorder

/-! ## lexicographic comparison of key tuples; LSD radix sort -/

theorem lexLe_total (asc : Bool) : ∀ (cs : List Callable) (r s : Row), lexLe asc cs r s ∨ lexLe asc cs s r
  | [], _, _ => Or.inl trivial
  | c :: cs, r, s => by
    simp only [lexLe]
    rcases lt_trichotomy (ckey asc c r) (ckey asc c s) with h | h | h
    · exact Or.inl (Or.inl h)
    · rcases lexLe_total asc cs r s with h' | h'
      · exact Or.inl (Or.inr ⟨h, h'⟩)
      · exact Or.inr (Or.inr ⟨h.symm, h'⟩)
    · exact Or.inr (Or.inl h)

theorem lexLe_trans (asc : Bool) : ∀ (cs : List Callable) (r s u : Row), lexLe asc cs r s → lexLe asc cs s u → lexLe asc cs r u
  | [], _, _, _, _, _ => trivial
  | c :: cs, r, s, u, h1, h2 => by
    simp only [lexLe] at h1 h2 ⊢
    rcases h1 with h1 | ⟨e1, h1⟩ <;> rcases h2 with h2 | ⟨e2, h2⟩
    · exact Or.inl (lt_trans h1 h2)
    · exact Or.inl (by omega)
    · exact Or.inl (by omega)
    · exact Or.inr ⟨by omega, lexLe_trans asc cs r s u h1 h2⟩

/-- insertion sort only looks at the relation between members of the list -/
theorem orderedInsert_congr {α : Type} (r r' : α → α → Prop) [DecidableRel r] [DecidableRel r'] (a : α) :
    ∀ (l : List α), (∀ b ∈ l, r a b ↔ r' a b) → l.orderedInsert r a = l.orderedInsert r' a
  | [], _ => rfl
  | b :: l, h => by
    have hb := h b (by simp)
    by_cases hr : r a b
    · simp [List.orderedInsert, hr, hb.mp hr]
    · have hr' : ¬ r' a b := fun x => hr (hb.mpr x)
      simp only [List.orderedInsert, hr, hr', if_false]
      congr 1
      exact orderedInsert_congr r r' a l (fun b' hb' => h b' (by simp [hb']))

theorem insertionSort_congr {α : Type} (r r' : α → α → Prop) [DecidableRel r] [DecidableRel r'] :
    ∀ (l : List α), (∀ a ∈ l, ∀ b ∈ l, r a b ↔ r' a b) → l.insertionSort r = l.insertionSort r'
  | [], _ => rfl
  | a :: l, h => by
    rw [List.insertionSort_cons, List.insertionSort_cons]
    have ih := insertionSort_congr r r' l (fun x hx y hy => h x (by simp [hx]) y (by simp [hy]))
    rw [← ih]
    apply orderedInsert_congr
    intro b hb
    have hb' : b ∈ l := (List.perm_insertionSort r l).subset hb
    exact h a (by simp) b (by simp [hb'])

theorem insertionSort_true {α : Type} (l : List α) : l.insertionSort (fun _ _ => True) = l := by
  induction l with
  | nil => rfl
  | cons a l ih =>
    rw [List.insertionSort_cons, ih]
    cases l <;> simp [List.orderedInsert]

/-- LSD radix sort: one stable sort by the tuple == stable passes from the last component to the first -/
theorem sortcRows_eq_sortRows (asc : Bool) : ∀ (cs : List Callable) (ts : Terms),
    List.Forall₂ (fun c t => den_x c t.1 ∧ t.2 = asc) cs ts → ∀ l : List Row, sortcRows cs asc l = sortRows ts l
  | [], [], _, l => by
    simp only [sortcRows, sortRows, List.foldr_nil]
    have : (lexLe asc []) = (fun _ _ => True) := by funext r s; simp [lexLe]
    have h := insertionSort_congr (lexLe asc []) (fun _ _ => True) l (fun a _ b _ => by simp [lexLe])
    rw [h, insertionSort_true]
  | c :: cs, t :: ts, h, l => by
    rcases List.forall₂_cons.mp h with ⟨⟨hden, hdir⟩, hrest⟩
    have ih := sortcRows_eq_sortRows asc cs ts hrest l
    rw [sortRows_cons, ← ih]
    -- the adjusted value of c is the integer key of the term t
    have hkey : ∀ r, termKey t r = ckey asc c r := by
      intro r
      simp only [termKey, ckey, hdir, den_x] at *
      rw [hden r]
    simp only [sortcRows, sortPass]
    apply isort_unique (termLe t) (termKey t) (termLe_iff t)
    · -- sorted by the tuple implies sorted by its first component
      have hp := pairwise_isortP (lexLe asc (c :: cs)) (lexLe_total asc (c :: cs)) (lexLe_trans asc (c :: cs)) l
      refine hp.imp ?_
      intro a b hab
      rw [termLe_iff, hkey, hkey]
      simp only [lexLe] at hab
      rcases hab with h' | ⟨h', _⟩ <;> omega
    · intro v
      rw [filter_isortP (lexLe asc (c :: cs)) (lexLe_total asc (c :: cs)) (lexLe_trans asc (c :: cs)),
          filter_isortP (lexLe asc cs) (lexLe_total asc cs) (lexLe_trans asc cs)]
      apply insertionSort_congr
      intro a ha b hb
      have ha' := (List.mem_filter.mp ha).2
      have hb' := (List.mem_filter.mp hb).2
      simp only [decide_eq_true_eq] at ha' hb'
      have e : ckey asc c a = ckey asc c b := by rw [← hkey, ← hkey, ha', hb']
      simp only [lexLe, e, lt_irrefl, false_or, true_and]

theorem forall₂_and_right {α β : Type} {R : α → β → Prop} {P : β → Prop} :
    ∀ {l1 : List α} {l2 : List β}, List.Forall₂ R l1 l2 → (∀ t ∈ l2, P t) → List.Forall₂ (fun c t => R c t ∧ P t) l1 l2
  | _, _, List.Forall₂.nil, _ => List.Forall₂.nil
  | _, _, List.Forall₂.cons h t, hp =>
    List.Forall₂.cons ⟨h, hp _ (by simp)⟩ (forall₂_and_right t (fun x hx => hp x (by simp [hx])))

end RelAlg
