/-
  RelAlg.Sanity — concrete spot checks that the definitions of RelAlg/Spec.lean behave like the
  Python reference (`NativeBackend` of lawcheck.py) on the points where a transcription could
  plausibly go wrong: direction and stability of the sort passes, order of the passes, which
  occurrence `dedup` keeps, position/value kept by `dedup_key`, `X[a:b]`, nested-loop order and
  "columns of Y win" in `join`, `Sort.then`.  Not laws; compiled by check.sh.
-/
import RelAlg.Lemmas

namespace RelAlg.Sanity

open Classical RelAlg

/-- `sorted([r1, r2, r3], key=e)` with keys 1, 0, 1 is `[r2, r1, r3]` (stable). -/
example (e : Expr) (r1 r2 r3 : Row) (h1 : e.eval r1 = 1) (h2 : e.eval r2 = 0) (h3 : e.eval r3 = 1) :
    sortRows [(e, true)] [r1, r2, r3] = [r2, r1, r3] := by
  simp [sortRows, sortPass, termLe, List.insertionSort, List.orderedInsert, h1, h2, h3]

/-- `sorted([r1, r2, r3], key=e, reverse=True)` with keys 1, 0, 1 is `[r1, r3, r2]`
(descending, equal keys keep their original order). -/
example (e : Expr) (r1 r2 r3 : Row) (h1 : e.eval r1 = 1) (h2 : e.eval r2 = 0) (h3 : e.eval r3 = 1) :
    sortRows [(e, false)] [r1, r2, r3] = [r1, r3, r2] := by
  simp [sortRows, sortPass, termLe, List.insertionSort, List.orderedInsert, h1, h2, h3]

/-- two terms: the first term is the major key (passes are applied last to first). -/
example (e f : Expr) (r1 r2 r3 : Row)
    (h1 : e.eval r1 = 1) (h2 : e.eval r2 = 0) (h3 : e.eval r3 = 1)
    (g1 : f.eval r1 = 5) (g2 : f.eval r2 = 7) (g3 : f.eval r3 = 3) :
    sortRows [(e, true), (f, true)] [r1, r2, r3] = [r2, r3, r1] := by
  simp [sortRows, sortPass, termLe, List.insertionSort, List.orderedInsert, h1, h2, h3, g1, g2, g3]

/-- dedup keeps the first occurrence. -/
example (a b : Row) (h : a ≠ b) : dedupRows [a, b, a, b] = [a, b] := by
  simp [dedupRows, dedupAux, h, h.symm]

/-- dedup_key: first position, last row. -/
example (K : TagSet) (a b c : Row) (h1 : mask K c = mask K a) (h2 : mask K b ≠ mask K a) :
    dedupKeyRows K [a, b, c] = [c, b] := by
  simp [dedupKeyRows, dictSet, h1, h2, h2.symm]

/-- `X[1:3]` and `X[1:]`. -/
example (c : TagSet) (r0 r1 r2 r3 : Row) :
    slice 1 (some 3) ⟨c, [r0, r1, r2, r3]⟩ = ⟨c, [r1, r2]⟩ ∧
      slice 1 none ⟨c, [r0, r1, r2, r3]⟩ = ⟨c, [r1, r2, r3]⟩ := by
  constructor <;> simp [slice]

/-- nested-loop order: X drives the outer loop. -/
example (p : Pred) (hp : ptrue p) (cX cY : TagSet) (x1 x2 y1 y2 : Row) :
    joinRows p ∅ cX cY [x1, x2] [y1, y2] =
      [mask (cX ∪ cY) (merge cY x1 y1), mask (cX ∪ cY) (merge cY x1 y2),
       mask (cX ∪ cY) (merge cY x2 y1), mask (cX ∪ cY) (merge cY x2 y2)] := by
  simp [joinRows, hp _]

/-- the columns of Y win, the other columns come from X. -/
example (x y : Row) : merge {1, 2} x y 1 = y 1 ∧ merge {1, 2} x y 0 = x 0 := by
  simp [merge]

/-- `Sort.then`: `b` first, then the terms of `a` that are not already present. -/
example (t u v : Term) (h1 : t ≠ u) (h2 : t ≠ v) (h3 : u ≠ v) :
    tcatList [t, u] [u, v] = [u, v, t] := by
  simp [tcatList, h1, h2, h3, h1.symm]

end RelAlg.Sanity
