"""C01 / C10 / C18: the native iteration engine executes trees exactly; payloads are honoured and set once.

``iteration.Engine.execute`` is verified arm by arm against the row semantics.  The RowIterable classes it
instantiates are covered by contracts/rowiter.py: constructors, ``__iter__`` bodies (generators as loops with a
ghost output sequence) and the conversion methods are proved from the current source, which yields the class
lemmas ``content(o) == F(attributes of o)`` used here.  The Sort arm (groupby + several stable list.sort passes,
inline in execute) is still a summary covered by the bounded stand-in replay/bounded_rowiter.py.
"""
from __future__ import annotations

import ast

import z3

from pyvc import smt
from pyvc.smt import SV, TBool, TRefT, TTagSet
from pyvc.state import Closure, PyList, PyDict, PyTuple
from spec import vocab as V
from contracts.apply import A, B, cid, cols, eng, is_marker

ROWITER = ("RowSequence", "RowMapping", "CalculationRowIterable", "ProjectionRowIterable", "SelectionRowIterable", "ChainRowIterable", "SliceRowIterable")


def same_rows(X, Y):
    return X == Y


height = z3.Function("tree_height", smt.Ref, smt.IntS)  # well-foundedness of (immutable, hence acyclic) relation trees


def payload_heap(c, old=False):
    return c.ex.heap_array(c.old if old else c.state, "BaseRelation.payload", smt.Ref)


def payload_inv(c, heap):
    """Every payload attached to a relation holds that relation's rows."""
    r = z3.Const("r", smt.Ref)
    p = z3.Select(heap, r)
    return z3.ForAll([r], z3.Implies(z3.And(r != smt.NONE, p != smt.NONE), same_rows(V.content(p), V.rows(r))), patterns=[z3.Select(heap, r)])


def _builtin(ex, name, args, kwargs, st, node):
    # tuple(tag for tag in relation.columns if tag.is_key): the key columns, as a set (order is irrelevant to a dict key)
    if name == "tuple" and len(args) == 1 and isinstance(args[0], Closure) and isinstance(args[0].node, ast.GeneratorExp):
        g = args[0].node
        if len(g.generators) == 1 and isinstance(g.elt, ast.Name) and isinstance(g.generators[0].target, ast.Name) and g.elt.id == g.generators[0].target.id:
            sc = ast.SetComp(elt=g.elt, generators=g.generators)
            ast.copy_location(sc, g)
            s2 = st.fork()
            s2.env = dict(args[0].env)
            rs = ex.comprehension(sc, s2, "set")
            if len(rs) == 1 and rs[0].kind == "ok" and isinstance(rs[0].value, SV) and rs[0].value.td == TTagSet:
                return ex.ok(rs[0].value, st)
    return None


def _case_body(ex, stmt, case, st):
    """The Sort arm of iteration.Engine.execute (list(), itertools.groupby, several list.sort passes) is outside the
    executor's subset: it is replaced by its summary 'a RowSequence holding the stable multi-key sort of the target rows'.
    The summary is an ASSUMPTION of this check, covered by the bounded native stand-in replay/bounded_rowiter.py."""
    fi = ex.frame.fi
    if fi is None or fi.key != "iteration._engine:Engine.execute":
        return None
    if not (isinstance(case.pattern, ast.MatchClass) and ast.unparse(case.pattern.cls) == "Sort"):
        return None
    from pyvc.state import Res

    terms, rows = st.env.get("terms"), st.env.get("target_rows")
    if terms is None or rows is None:
        return None
    ci = ex.repo.cls("RowSequence")
    it = SV(TRefT(ci), smt.fresh_const("sorted_rows", smt.Ref), fresh=True)
    st.assume(it.z != smt.NONE, smt.typ(it.z) == ex.types.cid(ci), V.content(it.z) == V.s_sort(terms.z, V.content(rows.z)))
    # list(target_rows) iterates its argument: the ghost iteration counters (C18) change in an unspecified way
    st.heap = dict(st.heap)
    st.heap["RowIterable.iterations"] = z3.Const(smt.fresh_name("H_RowIterable.iterations"), z3.ArraySort(smt.Ref, smt.IntS))
    ex.assumed_contracts_used.add("summary: Sort arm of iteration.Engine.execute == stable multi-key sort (bounded stand-in replay/bounded_rowiter.py)")
    return [Res("return", it, st, node=case.body[-1])]


def register(reg):
    reg.load("c20")
    reg.load("rowiter")  # the RowIterable classes: class lemmas proved from their bodies
    reg.add_hook("case_body", _case_body)
    if _height_axioms not in reg.global_axioms:
        reg.global_axioms.append(_height_axioms)
    reg.add_hook("builtin", _builtin)
    TIt = TRefT(reg_cls(reg, "RowIterable"))
    TCall = TRefT(None)
    P = ("C01", "C10")
    # ---- converted callables denote the expression (proved for the portable operator set under C12; assumed here)
    k = reg.contract("iteration._engine:Engine.convert_column_expression", assumed=True, properties=P, result_td=TCall,
                     note="closure(row) == value of the expression on row: subject of C12")
    k.ens("denotes-the-expression", lambda c: B(z3.And(c.result.z != smt.NONE, V.denotes_x(c.result.z, c.expression.z))))
    k = reg.contract("iteration._engine:Engine.convert_predicate", assumed=True, properties=P, result_td=TCall,
                     note="closure(row) == value of the predicate on row: subject of C12")
    k.ens("denotes-the-predicate", lambda c: B(z3.And(c.result.z != smt.NONE, V.denotes_p(c.result.z, c.predicate.z))))

    # ---- execute
    def arms(c):
        r = c.relation.z
        t = smt.typ(r)
        uop = smt.typ(A(c, "UnaryOperationRelation", "operation")(r))
        bop = smt.typ(A(c, "BinaryOperationRelation", "operation")(r))
        un = t == cid(c, "UnaryOperationRelation")
        out = [(f"unary:{n}", z3.And(un, uop == cid(c, n))) for n in ("Calculation", "Deduplication", "Projection", "Selection", "Slice", "Sort")]
        out.append(("binary:Chain", z3.And(t == cid(c, "BinaryOperationRelation"), bop == cid(c, "Chain"))))
        out.append(("binary:Join", z3.And(t == cid(c, "BinaryOperationRelation"), bop == cid(c, "Join"))))
        out += [(n.lower(), t == cid(c, n)) for n in ("LeafRelation", "Materialization", "Transfer", "MarkerRelation", "Select")]
        return out

    k = reg.contract("iteration._engine:Engine.execute", properties=P, modifies=("BaseRelation.payload",), result_td=TIt, split=arms, split_all=True)
    k.req("payloads-hold-their-relations-rows", lambda c: B(payload_inv(c, payload_heap(c))))
    def leaves_have_payloads(c, heap):
        r = z3.Const("r", smt.Ref)
        return z3.ForAll([r], z3.Implies(smt.typ(r) == cid(c, "LeafRelation"), z3.Select(heap, r) != smt.NONE), patterns=[z3.Select(heap, r)])

    k.req("iteration-leaves-carry-their-rows", lambda c: B(leaves_have_payloads(c, payload_heap(c))))
    k.req("relation-columns-truthful", lambda c: B(cols(c, c.relation.z) == V.rcols(V.rows(c.relation.z))))
    k.ens("yields-exactly-the-rows-of-direct-evaluation", lambda c: B(same_rows(V.content(c.result.z), V.rows(c.relation.z))))
    k.ens("payloads-still-hold-their-relations-rows", lambda c: B(payload_inv(c, payload_heap(c))))
    old_p = lambda c: z3.Select(payload_heap(c, True), c.relation.z)  # noqa: E731
    trivial = lambda c: z3.Or(A(c, "BaseRelation", "is_join_identity")(c.relation.z),  # noqa: E731
                              A(c, "BaseRelation", "max_rows")(c.relation.z) == smt.OptInt.oi_some(z3.IntVal(0)))
    k.ens("cached-payload-returned-without-re-evaluation",
          lambda c: B(z3.Implies(z3.And(old_p(c) != smt.NONE, z3.Not(trivial(c))), z3.And(c.result.z == old_p(c), payload_heap(c) == payload_heap(c, True)))))
    k.ens("payloads-are-never-replaced",
          lambda c: B(z3.ForAll([z3.Const("r", smt.Ref)], z3.Implies(z3.Select(payload_heap(c, True), z3.Const("r", smt.Ref)) != smt.NONE,
                                                                     z3.Select(payload_heap(c), z3.Const("r", smt.Ref)) == z3.Select(payload_heap(c, True), z3.Const("r", smt.Ref))),
                                patterns=[z3.Select(payload_heap(c), z3.Const("r", smt.Ref))])))
    k.ens("only-nodes-of-this-tree-get-payloads",
          lambda c: B(z3.ForAll([z3.Const("r", smt.Ref)], z3.Implies(height(z3.Const("r", smt.Ref)) > height(c.relation.z),
                                                                     z3.Select(payload_heap(c), z3.Const("r", smt.Ref)) == z3.Select(payload_heap(c, True), z3.Const("r", smt.Ref))),
                                patterns=[z3.Select(payload_heap(c), z3.Const("r", smt.Ref))])))
    k.ens("an-executed-materialization-keeps-its-rows",
          lambda c: B(z3.Implies(z3.And(smt.typ(c.relation.z) == cid(c, "Materialization"), z3.Not(trivial(c))), z3.Select(payload_heap(c), c.relation.z) != smt.NONE)))
    k.raises("EngineError", None)

    def all_key_columns(c, _):
        """F8's witness class is 'the relation has a non-key column'; excluded = every column is a key."""
        t = z3.Const("t", smt.Tag)
        return B(z3.ForAll([t], z3.Implies(z3.IsMember(t, cols(c, c.relation.z)), V.is_key(t)), patterns=[z3.IsMember(t, cols(c, c.relation.z))]))

    reg.witness_classes["F8-nonkey-columns"] = all_key_columns


def bounded_extra(repo, reg, tier):
    """Run the bounded native stand-in for the assumed RowIterable class contracts / Sort arm / converted callables."""
    import os
    import subprocess

    from pyvc.verify import PROVED, REFUTED, OblResult

    n = "4" if tier == "quick" else "5"
    env = {**os.environ, "PYTHONPATH": os.path.join(os.environ.get("PYVC_REPO", "/repo"), "python"), "PYTHONDONTWRITEBYTECODE": "1"}
    p = subprocess.run(["/venv/bin/python", "/verif/replay/bounded_rowiter.py", n], capture_output=True, text=True, env=env, timeout=900)
    ok = "NOT-REPRODUCED" in p.stdout
    r = OblResult("bounded/rowiterable-class-contracts-and-sort-arm", "bounded:replay/bounded_rowiter.py", "bounded-stand-in", "", "bounded",
                  PROVED if ok else REFUTED, solver="native-enumeration (bounded, not a proof)", reason=(p.stdout + p.stderr).strip()[-600:])
    r.info["bounded"] = True
    # execution must not write to any pre-existing object (leaf payloads keep denoting the leaf's rows): the frame
    # obligations of C09, restricted to the iteration engine's modules, are part of this check as well
    from contracts.persist import frame_obligations

    frame = [o for o in frame_obligations(repo) if o.func.startswith("iteration.")]
    for o in frame:
        o.label = o.label.replace("C09/", "C01/")
    return [r] + frame, ["RowIterable class contracts, the Sort arm summary and the converted callables are ASSUMED by the deductive part and only bounded-checked natively "
                 f"(replay/bounded_rowiter.py, sequences up to length {n}, 3 columns, values 0..2): " + p.stdout.strip()[-120:]]


def _height_axioms(ex):
    class _C:
        pass
    c = _C()
    c.ex = ex
    r = z3.Const("r", smt.Ref)
    ut, mt = A(c, "UnaryOperationRelation", "target"), A(c, "MarkerRelation", "target")
    bl, br = A(c, "BinaryOperationRelation", "lhs"), A(c, "BinaryOperationRelation", "rhs")
    return [z3.ForAll([r], z3.Implies(smt.typ(r) == cid(c, "UnaryOperationRelation"), height(ut(r)) < height(r)), patterns=[height(r)]),
            z3.ForAll([r], z3.Implies(is_marker(c, r), height(mt(r)) < height(r)), patterns=[height(r)]),
            z3.ForAll([r], z3.Implies(smt.typ(r) == cid(c, "BinaryOperationRelation"), z3.And(height(bl(r)) < height(r), height(br(r)) < height(r))), patterns=[height(r)])]


def reg_cls(reg, name):
    from contracts.apply import reg_cls as rc

    return rc(reg, name)
