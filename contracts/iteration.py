"""C01 / C10 / C18: the native iteration engine executes trees exactly; payloads are honoured and set once.

``iteration.Engine.execute`` is verified arm by arm against the row semantics.  The RowIterable classes it
instantiates are covered by contracts/rowiter.py: constructors, ``__iter__`` bodies (generators as loops with a
ghost output sequence) and the conversion methods are proved from the current source, which yields the class
lemmas ``content(o) == F(attributes of o)`` used here.  The converted callables are proved in contracts/itconv.py and
the Sort arm (groupby + one stable list.sort per group) is executed for real with a loop invariant (contracts/sortarm.py).
"""
from __future__ import annotations

import ast

import z3

from pyvc import smt
from pyvc.smt import SV, TBool, TRefT, TTagSet
from pyvc.state import Closure, PyList, PyDict, PyTuple
from spec import vocab as V
from contracts.apply import A, B, cid, cols, eng, is_marker

ROWITER = ("RowSequence", "RowMapping", "CalculationRowIterable", "ProjectionRowIterable", "SelectionRowIterable", "ChainRowIterable", "SliceRowIterable")


def same_rows(X, Y):
    return X == Y


height = z3.Function("tree_height", smt.Ref, smt.IntS)  # well-foundedness of (immutable, hence acyclic) relation trees


def payload_heap(c, old=False):
    return c.ex.heap_array(c.old if old else c.state, "BaseRelation.payload", smt.Ref)


def payload_inv(c, heap):
    """Every payload attached to a relation holds that relation's rows."""
    r = z3.Const("r", smt.Ref)
    p = z3.Select(heap, r)
    return z3.ForAll([r], z3.Implies(z3.And(r != smt.NONE, p != smt.NONE), same_rows(V.content(p), V.rows(r))), patterns=[z3.Select(heap, r)])


def _builtin(ex, name, args, kwargs, st, node):
    # tuple(tag for tag in relation.columns if tag.is_key): the key columns, as a set (order is irrelevant to a dict key)
    if name == "tuple" and len(args) == 1 and isinstance(args[0], Closure) and isinstance(args[0].node, ast.GeneratorExp):
        g = args[0].node
        if len(g.generators) == 1 and isinstance(g.elt, ast.Name) and isinstance(g.generators[0].target, ast.Name) and g.elt.id == g.generators[0].target.id:
            sc = ast.SetComp(elt=g.elt, generators=g.generators)
            ast.copy_location(sc, g)
            s2 = st.fork()
            s2.env = dict(args[0].env)
            rs = ex.comprehension(sc, s2, "set")
            if len(rs) == 1 and rs[0].kind == "ok" and isinstance(rs[0].value, SV) and rs[0].value.td == TTagSet:
                return ex.ok(rs[0].value, st)
    return None


def register(reg):
    reg.load("c20")
    reg.load("rowiter")  # the RowIterable classes: class lemmas proved from their bodies
    reg.load("itconv")  # convert_column_expression / convert_column_container / convert_predicate: proved closures
    if _portable_tree_axioms not in reg.global_axioms:
        reg.global_axioms.append(_portable_tree_axioms)
    reg.load("sortarm")  # the Sort arm of execute: groupby + one stable sort per group, by loop invariant
    if _height_axioms not in reg.global_axioms:
        reg.global_axioms.append(_height_axioms)
    reg.add_hook("builtin", _builtin)
    TIt = TRefT(reg_cls(reg, "RowIterable"))
    TCall = TRefT(None)
    P = ("C01", "C10")
    # ---- execute
    def arms(c):
        r = c.relation.z
        t = smt.typ(r)
        uop = smt.typ(A(c, "UnaryOperationRelation", "operation")(r))
        bop = smt.typ(A(c, "BinaryOperationRelation", "operation")(r))
        un = t == cid(c, "UnaryOperationRelation")
        out = [(f"unary:{n}", z3.And(un, uop == cid(c, n))) for n in ("Calculation", "Deduplication", "Projection", "Selection", "Slice", "Sort")]
        out.append(("binary:Chain", z3.And(t == cid(c, "BinaryOperationRelation"), bop == cid(c, "Chain"))))
        out.append(("binary:Join", z3.And(t == cid(c, "BinaryOperationRelation"), bop == cid(c, "Join"))))
        out += [(n.lower(), t == cid(c, n)) for n in ("LeafRelation", "Materialization", "Transfer", "MarkerRelation", "Select")]
        return out

    k = reg.contract("iteration._engine:Engine.execute", properties=P, modifies=("BaseRelation.payload",), result_td=TIt, split=arms, split_all=True)
    k.req("payloads-hold-their-relations-rows", lambda c: B(payload_inv(c, payload_heap(c))))
    def leaves_have_payloads(c, heap):
        r = z3.Const("r", smt.Ref)
        return z3.ForAll([r], z3.Implies(smt.typ(r) == cid(c, "LeafRelation"), z3.Select(heap, r) != smt.NONE), patterns=[z3.Select(heap, r)])

    k.req("iteration-leaves-carry-their-rows", lambda c: B(leaves_have_payloads(c, payload_heap(c))))
    k.req("relation-columns-truthful", lambda c: B(cols(c, c.relation.z) == V.rcols(V.rows(c.relation.z))))
    # the property quantifies over expressions / predicates of the portable operator set
    k.req("expressions-over-the-portable-operator-set", lambda c: B(ptree(c.relation.z)))
    k.ens("yields-exactly-the-rows-of-direct-evaluation", lambda c: B(same_rows(V.content(c.result.z), V.rows(c.relation.z))))
    k.ens("payloads-still-hold-their-relations-rows", lambda c: B(payload_inv(c, payload_heap(c))))
    old_p = lambda c: z3.Select(payload_heap(c, True), c.relation.z)  # noqa: E731
    trivial = lambda c: z3.Or(A(c, "BaseRelation", "is_join_identity")(c.relation.z),  # noqa: E731
                              A(c, "BaseRelation", "max_rows")(c.relation.z) == smt.OptInt.oi_some(z3.IntVal(0)))
    k.ens("cached-payload-returned-without-re-evaluation",
          lambda c: B(z3.Implies(z3.And(old_p(c) != smt.NONE, z3.Not(trivial(c))), z3.And(c.result.z == old_p(c), payload_heap(c) == payload_heap(c, True)))))
    k.ens("payloads-are-never-replaced",
          lambda c: B(z3.ForAll([z3.Const("r", smt.Ref)], z3.Implies(z3.Select(payload_heap(c, True), z3.Const("r", smt.Ref)) != smt.NONE,
                                                                     z3.Select(payload_heap(c), z3.Const("r", smt.Ref)) == z3.Select(payload_heap(c, True), z3.Const("r", smt.Ref))),
                                patterns=[z3.Select(payload_heap(c), z3.Const("r", smt.Ref))])))
    k.ens("only-nodes-of-this-tree-get-payloads",
          lambda c: B(z3.ForAll([z3.Const("r", smt.Ref)], z3.Implies(height(z3.Const("r", smt.Ref)) > height(c.relation.z),
                                                                     z3.Select(payload_heap(c), z3.Const("r", smt.Ref)) == z3.Select(payload_heap(c, True), z3.Const("r", smt.Ref))),
                                patterns=[z3.Select(payload_heap(c), z3.Const("r", smt.Ref))])))
    k.ens("an-executed-materialization-keeps-its-rows",
          lambda c: B(z3.Implies(z3.And(smt.typ(c.relation.z) == cid(c, "Materialization"), z3.Not(trivial(c))), z3.Select(payload_heap(c), c.relation.z) != smt.NONE)))
    k.raises("EngineError", None)

    # ---- the Sort arm's loop over the groups of same-direction terms, taken from the last group to the first
    from contracts import sortarm as SA
    from spec.laws import instance

    def sort_inv(c, kk, env, ts):
        m = SA.gcount(ts.z)
        X0 = V.content(env.target_rows.z)
        return B(z3.And(0 <= kk.z, kk.z <= m, env.rows_list.z == V.s_sort(V.tsuffix(ts.z, SA.gstart(ts.z, m - kk.z)), X0)))

    def sort_lemmas(c, kk, j, env, ts):
        """Facts about the group handled in this iteration (each proved as its own obligation) and the law instances."""
        a, b = SA.gstart(ts.z, j.z), SA.gstart(ts.z, j.z + 1)
        cs, d = env.callables.z, env.ascending.z
        X0 = V.content(env.target_rows.z)
        hints = [("group-callables-denote-the-group-terms", V.den_terms(cs, ts.z, a, b)),
                 ("group-terms-share-the-direction", V.same_dir(ts.z, a, b, d))]
        before = V.s_sort(V.tsuffix(ts.z, b), X0)
        lemmas = [instance("sortc-group", cs, ts.z, a, b, d, before), instance("sort-suffix-split", ts.z, a, b, X0)]
        return hints, lemmas

    k.inv(0, sort_inv)
    k.loop_lemmas = {0: sort_lemmas}

    def all_key_columns(c, _):
        """F8's witness class is 'the relation has a non-key column'; excluded = every column is a key."""
        t = z3.Const("t", smt.Tag)
        return B(z3.ForAll([t], z3.Implies(z3.IsMember(t, cols(c, c.relation.z)), V.is_key(t)), patterns=[z3.IsMember(t, cols(c, c.relation.z))]))

    reg.witness_classes["F8-nonkey-columns"] = all_key_columns


def bounded_extra(repo, reg, tier):
    """Native cross-check (bounded, NOT part of the proof): the RowIterable classes, the Sort arm and the converted
    callables against direct evaluation on small inputs.  Since contracts/rowiter.py, itconv.py and sortarm.py these are
    proved; the cross-check stays as an independent test of the verifier's model of Python (generators, dict
    comprehensions, list.sort, closures) against CPython."""
    import os
    import subprocess

    from pyvc.verify import PROVED, REFUTED, OblResult

    n = "4" if tier == "quick" else "5"
    env = {**os.environ, "PYTHONPATH": os.path.join(os.environ.get("PYVC_REPO", "/repo"), "python"), "PYTHONDONTWRITEBYTECODE": "1"}
    p = subprocess.run(["/venv/bin/python", "/verif/replay/bounded_rowiter.py", n], capture_output=True, text=True, env=env, timeout=900)
    ok = "NOT-REPRODUCED" in p.stdout
    r = OblResult("bounded/native-cross-check-of-the-iteration-engine-model", "bounded:replay/bounded_rowiter.py", "bounded-stand-in", "", "bounded",
                  PROVED if ok else REFUTED, solver="native-enumeration (bounded, not a proof)", reason=(p.stdout + p.stderr).strip()[-600:])
    r.info["bounded"] = True
    return [r] + frame_obligations_iteration(repo), ["native cross-check of the verifier's model of generators / dict comprehensions / list.sort / closures against CPython "
                                                     f"(replay/bounded_rowiter.py, sequences up to length {n}, 3 columns, values 0..2; bounded, not part of the proof): " + p.stdout.strip()[-120:]]


def frame_obligations_iteration(repo, prefix="C01/"):
    """Execution must not write to any pre-existing object (leaf payloads keep denoting the leaf's rows): the frame
    obligations of C09, restricted to the iteration engine's modules."""
    from contracts.persist import frame_obligations

    frame = [o for o in frame_obligations(repo) if o.func.startswith("iteration.")]
    for o in frame:
        o.label = o.label.replace("C09/", prefix)
    return frame


ptree = z3.Function("portable_tree", smt.Ref, smt.BoolS)  # every expression / predicate in the tree is over the portable operator set


def _portable_tree_axioms(ex):
    from contracts.sqlexpr import all_portable, portable

    class _C:
        pass
    c = _C()
    c.ex = ex
    r, x = z3.Const("r", smt.Ref), z3.Const("x", smt.Ref)
    t = smt.typ(r)
    uo, ut = A(c, "UnaryOperationRelation", "operation")(r), A(c, "UnaryOperationRelation", "target")(r)
    bl, br = A(c, "BinaryOperationRelation", "lhs")(r), A(c, "BinaryOperationRelation", "rhs")(r)
    mt = A(c, "MarkerRelation", "target")(r)
    pop = z3.And(z3.Implies(smt.typ(uo) == cid(c, "Calculation"), portable(A(c, "Calculation", "expression")(uo))),
                 z3.Implies(smt.typ(uo) == cid(c, "Selection"), portable(A(c, "Selection", "predicate")(uo))),
                 z3.Implies(smt.typ(uo) == cid(c, "Sort"), all_portable(A(c, "Sort", "terms")(uo))))

    def ax(cond, body):
        return z3.ForAll([r], z3.Implies(cond, ptree(r) == body), patterns=[ptree(r)])

    return [ax(t == cid(c, "LeafRelation"), z3.BoolVal(True)),
            ax(t == cid(c, "UnaryOperationRelation"), z3.And(pop, ptree(ut))),
            ax(t == cid(c, "BinaryOperationRelation"), z3.And(ptree(bl), ptree(br))),
            ax(is_marker(c, r), ptree(mt)),
            z3.ForAll([x], z3.Implies(smt.typ(x) == cid(c, "SortTerm"), portable(x) == portable(A(c, "SortTerm", "expression")(x))), patterns=[portable(x)])]


def _height_axioms(ex):
    class _C:
        pass
    c = _C()
    c.ex = ex
    r = z3.Const("r", smt.Ref)
    ut, mt = A(c, "UnaryOperationRelation", "target"), A(c, "MarkerRelation", "target")
    bl, br = A(c, "BinaryOperationRelation", "lhs"), A(c, "BinaryOperationRelation", "rhs")
    return [z3.ForAll([r], z3.Implies(smt.typ(r) == cid(c, "UnaryOperationRelation"), height(ut(r)) < height(r)), patterns=[height(r)]),
            z3.ForAll([r], z3.Implies(is_marker(c, r), height(mt(r)) < height(r)), patterns=[height(r)]),
            z3.ForAll([r], z3.Implies(smt.typ(r) == cid(c, "BinaryOperationRelation"), z3.And(height(bl(r)) < height(r), height(br(r)) < height(r))), patterns=[height(r)])]


def reg_cls(reg, name):
    from contracts.apply import reg_cls as rc

    return rc(reg, name)
