"""Operation-level contracts: engine support, required columns, Slice.then / Sort.then, simplify (C05)."""
from __future__ import annotations

import z3

from pyvc import smt
from pyvc.smt import SV, TBool, TInt, TOptInt, TRefT, TTagSet
from spec import vocab as V
from spec import laws as L

SeqInfo = V.SeqRef.info


def B(z):
    return SV(TBool, z)


def _isinstance_hook(ex, v, ci, st):
    return None


def _builtin(ex, name, args, kwargs, st, node):
    # isinstance(engine, self.supporting_engine_types): second argument is a tuple object, not a class literal
    if name == "isinstance" and len(args) == 2 and isinstance(args[1], SV) and isinstance(args[1].td, TRefT) and isinstance(args[0], SV):
        return ex.ok(SV(TBool, V.eng_isinst(args[0].z, args[1].z)), st)
    return None


def _seq_contains(ex, container, item, st):
    if container.z.sort() == V.SeqRef.sort:
        return V.smember(container.z, item.z)
    return None


class Z3B(L.Z3Backend):
    pass


def slice_fields(c, s):
    return c.attr(s, "start").z, c.attr(s, "stop").z


def register(reg):
    reg.load("op_slice", "meta", "predicates", "inv")
    reg.add_hook("builtin", _builtin)
    reg.add_hook("seq_contains", _seq_contains)
    Bk = Z3B()

    # ------------------------------------------------------------------ is_supported_by == supp
    for key in ("_columns._expression:ColumnExpression.is_supported_by", "_columns._predicate:Predicate.is_supported_by",
                "_columns._container:ColumnContainer.is_supported_by", "_unary_operation:UnaryOperation.is_supported_by"):
        k = reg.contract(key, virtual=True, pure=True, symbol=V.supp, properties=("C14",))
        k.ens("denotes-structural-support", lambda c: B(c.result.z == V.supp(c.self.z, c.engine.z)))

    # ------------------------------------------------------------------ columns_required of operations
    k = reg.contract("_unary_operation:UnaryOperation.columns_required", virtual=True, attr=True, properties=("C04", "C20"))
    k.ens("exactly-the-needed-columns", lambda c: B(c.result.z == V.opreq(c.self.z)))
    a = reg.contract("attr:UnaryOperation.columns_required")
    a.ensures = list(k.ensures)
    k2 = reg.contract("_operations._sort:Sort.columns_required", attr=True, properties=("C04", "C20", "C13"))
    k2.ensures = list(k.ensures)
    k2.inv(0, lambda c, i, env, seq: B(env.result.z == V.fvtp(seq.z, i.z)))

    # ------------------------------------------------------------------ Slice.then (restated with the window predicate of the law)
    k = reg.contracts["_operations._slice:Slice.then"]
    k.ens("window-equivalent", lambda c: B(L.win_equiv(Bk, *slice_fields(c, c.self), *slice_fields(c, c.next), *slice_fields(c, c.result))))

    # ------------------------------------------------------------------ Sort.then
    k = reg.contract("_operations._sort:Sort.then", properties=("C05",))
    k.ens("next-terms-first-then-new-ones", lambda c: B(V.is_tcat(c.attr(c.result, "terms").z, c.attr(c.self, "terms").z, c.attr(c.next, "terms").z)))
    TEng = TRefT(None)
    both = lambda c, g: z3.And(V.all_supp(c.attr(c.self, "terms").z, g.z), V.all_supp(c.attr(c.next, "terms").z, g.z))  # noqa: E731
    k.ens("supported-where-both-are", lambda c: c.forall([(TEng, "eng")], lambda g: B(z3.Implies(both(c, g), V.all_supp(c.attr(c.result, "terms").z, g.z))),
                                                         patterns=lambda g: [V.all_supp(c.attr(c.result, "terms").z, g.z)]))
    k.inv(0, lambda c, i, env, seq: B(z3.And(env.new_terms.z == V.tcatp(c.attr(c.self, "terms").z, c.attr(c.next, "terms").z, i.z),
                                             z3.Implies(both(c, c.forall([(TEng, "eng")], lambda g: g)), V.all_supp(env.new_terms.z, c.forall([(TEng, "eng")], lambda g: g).z)))))

    # ------------------------------------------------------------------ simplify (C05)
    def simplify_sem(c):
        X = z3.Const("g_X", V.RS) if c.mode == "prove" else z3.Const(smt.fresh_name("qX"), V.RS)
        C = V.rcols(X)
        up, me, res = c.upstream.z if "upstream" in c.args else c.current.z, c.self.z, c.result.z
        hyp = z3.And(V.uvalid(up, C), V.uvalid(me, V.opcols(up, C)))
        body = z3.Implies(hyp, z3.Or(res == smt.NONE, V.sem(res, X) == V.sem(me, V.sem(up, X))))
        if c.mode == "prove":
            return B(body)
        return B(z3.ForAll([X], body, patterns=[V.sem(res, X), V.sem(me, V.sem(up, X))]))

    def simplify_valid(c):
        T = z3.Const("g_T", smt.TagSet) if c.mode == "prove" else z3.Const(smt.fresh_name("qT"), smt.TagSet)
        up, me, res = c.upstream.z if "upstream" in c.args else c.current.z, c.self.z, c.result.z
        body = z3.Implies(z3.And(V.uvalid(up, T), V.uvalid(me, V.opcols(up, T))),
                          z3.Or(res == smt.NONE, z3.And(V.uvalid(res, T), V.opcols(res, T) == V.opcols(me, V.opcols(up, T)))))
        if c.mode == "prove":
            return B(body)
        return B(z3.ForAll([T], body, patterns=[V.uvalid(res, T), V.opcols(res, T)]))

    def simplify_supp(c):
        g = c.forall([(TRefT(None), "eng")], lambda g: g).z if c.mode == "prove" else z3.Const(smt.fresh_name("qg"), smt.Ref)
        up, me, res = c.upstream.z if "upstream" in c.args else c.current.z, c.self.z, c.result.z
        body = z3.Implies(z3.And(V.supp(up, g), V.supp(me, g), res != smt.NONE), V.supp(res, g))
        if c.mode == "prove":
            return B(body)
        return B(z3.ForAll([g], body, patterns=[V.supp(res, g)]))

    k = reg.contract("_unary_operation:UnaryOperation.simplify", virtual=True, properties=("C05",))
    k.ens("merged-equals-sequence", simplify_sem)
    k.ens("merged-valid-on-the-upstream-target", simplify_valid)
    k.ens("merged-supported-where-both-are", simplify_supp)
    k.ens("merged-is-of-the-new-operations-kind-or-the-upstream-operation",
          lambda c: B(z3.Or(c.result.z == smt.NONE, smt.typ(c.result.z) == smt.typ(c.self.z), c.result.z == (c.upstream.z if "upstream" in c.args else c.current.z))))


# ====================================================================== commute (C04)
NODE_OPS = ("Calculation", "Deduplication", "Projection", "Selection", "Slice", "Sort")


def register_commute(reg):
    P = ("C04", "C03")

    def parts(c):
        cur = c.current
        cur_op = c.attr(cur, "operation").z
        tgt = c.attr(cur, "target")
        C = c.attr(tgt, "columns").z
        X = z3.Const("g_X", V.RS)
        res = c.result
        first, second = c.attr(res, "first").z, c.attr(res, "second").z
        done = c.attr(res, "done").z
        return cur_op, C, X, first, second, done

    def cells(c):
        cur_op = c.attr(c.current, "operation").z
        return [(f"cur={n}", smt.typ(cur_op) == c.ex.types.cid(c.ex.repo.cls(n))) for n in NODE_OPS]

    k = reg.contract("_unary_operation:UnaryOperation.commute", virtual=True, properties=P, split=cells)
    # X ranges over every row sequence whose columns are those of current.target
    k.req("new-operation-valid-at-the-root", lambda c: B(V.uvalid(c.self.z, c.attr(c.current, "columns").z)))
    k.req("target-columns-truthful", lambda c: B(c.attr(c.attr(c.current, "target"), "columns").z == V.rcols(V.rows(c.attr(c.current, "target").z))))

    def pj_pre(c):
        me = c.self.z
        ex = c.ex
        A = ex.spec.A
        jb = A("PartialJoin", "binary")(me)
        fx = A("PartialJoin", "fixed")(me)
        K = A("Join", "min_columns")(jb)
        Fc = A("BaseRelation", "columns")(fx)
        cond = z3.And(A("Join", "max_columns")(jb) == smt.OptTagSet.ots_some(K), z3.IsSubset(K, Fc), Fc == V.rcols(V.rows(fx)),
                      z3.IsSubset(z3.SetIntersect(c.attr(c.current, "columns").z, Fc), K),
                      z3.IsSubset(V.fv(A("Join", "predicate")(jb)), z3.SetUnion(c.attr(c.current, "columns").z, Fc)))
        return B(z3.Implies(smt.typ(me) == ex.types.cid(ex.repo.cls("PartialJoin")), cond))

    k.req("join-resolved-and-unshadowed-at-the-root", pj_pre)

    from spec.vocab import TRS

    def with_X(c, body, pats=None):
        cur_op, C, _X, first, second, done = parts(c)
        me = c.self.z

        def inner(X):
            return B(z3.Implies(V.rcols(X.z) == C, body(me, cur_op, C, X.z, first, second, done)))

        return c.forall([(TRS, "X")], inner, patterns=(lambda X: [V.sem(cur_op, X.z)]) if pats is None else pats)

    def no_X(c, body):
        cur_op, C, _X, first, second, done = parts(c)
        return B(body(c.self.z, cur_op, C, first, second, done))

    k.ens("refusal-hands-back-the-existing-operation", lambda c: no_X(c, lambda me, cur, C, f, s, d: z3.Implies(f == smt.NONE, s == cur)))
    k.ens("reported-operations-well-formed",
          lambda c: no_X(c, lambda me, cur, C, f, s, d: z3.Implies(f != smt.NONE, z3.And(V.uvalid(f, C), V.uvalid(s, V.opcols(f, C)),
                                                                                      V.opcols(s, V.opcols(f, C)) == V.opcols(me, V.opcols(cur, C)) if False else z3.BoolVal(True)))))
    k.ens("full-move-preserves-rows",
          lambda c: with_X(c, lambda me, cur, C, X, f, s, d: z3.Implies(z3.And(d, f != smt.NONE), V.sem(s, V.sem(f, X)) == V.sem(me, V.sem(cur, X)))))
    k.ens("done-without-move-means-no-op",
          lambda c: with_X(c, lambda me, cur, C, X, f, s, d: z3.Implies(z3.And(d, f == smt.NONE), V.sem(cur, X) == V.sem(me, V.sem(cur, X)))))
    k.ens("partial-move-preserves-rows",
          lambda c: with_X(c, lambda me, cur, C, X, f, s, d: z3.Implies(z3.And(z3.Not(d), f != smt.NONE),
                                                                        V.sem(me, V.sem(s, V.sem(f, X))) == V.sem(me, V.sem(cur, X)))))
    def second_local(c):
        """For a projection P whose moved part is the projection Q: the operation left behind looks only at columns Q keeps, as far
        as P can tell -- for EVERY row sequence Y between Q and the target's columns (this is what lets backtracking insert Q, or
        anything at least as wide, further upstream)."""
        cur_op, C, _X, first, second, done = parts(c)
        me = c.self.z
        A = c.ex.spec.A
        Pc, Qc = A("Projection", "columns")(me), A("Projection", "columns")(first)
        isp = smt.typ(me) == c.ex.types.cid(c.ex.repo.cls("Projection"))

        def inner(Y):
            return B(z3.Implies(z3.And(isp, first != smt.NONE, z3.IsSubset(Qc, V.rcols(Y.z)), z3.IsSubset(V.rcols(Y.z), C)),
                                V.s_proj(Pc, V.sem(second, Y.z)) == V.s_proj(Pc, V.sem(second, V.s_proj(Qc, Y.z)))))

        return c.forall([(TRS, "Y")], inner, patterns=lambda Y: [V.sem(second, Y.z)])

    k.ens("what-a-moved-projection-leaves-behind-only-looks-at-the-columns-it-keeps", second_local)
    k.ens("only-projections-move-partially",
          lambda c: no_X(c, lambda me, cur, C, f, s, d: z3.Implies(smt.typ(me) != c.ex.types.cid(c.ex.repo.cls("Projection")), z3.Or(f == smt.NONE, d))))
    k.ens("moved-operations-supported-where-the-originals-are",
          lambda c: c.forall([(TRefT(None), "eng")], lambda g: no_X(c, lambda me, cur, C, f, s, d: z3.Implies(
              z3.And(f != smt.NONE, V.supp(me, g.z), V.supp(cur, g.z)), z3.And(V.supp(f, g.z), V.supp(s, g.z)))),
              patterns=lambda g: [V.supp(c.attr(c.result, "first").z, g.z), V.supp(c.attr(c.result, "second").z, g.z)]))
    k.ens("second-operation-can-be-a-node",
          lambda c: no_X(c, lambda me, cur, C, f, s, d: z3.Or(*[smt.typ(s) == c.ex.types.cid(c.ex.repo.cls(n)) for n in NODE_OPS + ("Identity",)])))
    k.ens("moved-operation-is-of-the-same-kind",
          lambda c: no_X(c, lambda me, cur, C, f, s, d: z3.Implies(f != smt.NONE, z3.And(smt.typ(f) == smt.typ(me),
                                                                                      z3.Implies(smt.typ(me) == c.ex.types.cid(c.ex.repo.cls("PartialJoin")), f == me)))))
    def no_hidden_shadow(c):
        me, cur = c.self.z, c.attr(c.current, "operation").z
        A = c.ex.spec.A
        cidf = lambda n: c.ex.types.cid(c.ex.repo.cls(n))  # noqa: E731
        tcols = c.attr(c.attr(c.current, "target"), "columns").z
        hidden = z3.SetDifference(tcols, A("Projection", "columns")(cur))
        Fc = A("BaseRelation", "columns")(A("PartialJoin", "fixed")(me))
        return B(z3.Implies(z3.And(smt.typ(me) == cidf("PartialJoin"), smt.typ(cur) == cidf("Projection"), c.attr(c.result, "first").z != smt.NONE),
                            z3.SetIntersect(hidden, Fc) == smt.EMPTY_TAGS))

    k.ens("a-join-moves-past-a-projection-only-if-no-hidden-column-is-shadowed", no_hidden_shadow)
    k.ens("a-partially-moved-projection-keeps-what-the-existing-operation-needs",
          lambda c: no_X(c, lambda me, cur, C, f, s, d: z3.Implies(z3.And(z3.Not(d), f != smt.NONE), z3.IsSubset(V.opreq(cur), V.opreq(f)))))
    k.ens("a-partially-moved-projection-keeps-what-the-request-needs",
          lambda c: no_X(c, lambda me, cur, C, f, s, d: z3.Implies(z3.And(z3.Not(d), f != smt.NONE),
                                                                   z3.And(smt.typ(f) == c.ex.types.cid(c.ex.repo.cls("Projection")), s == cur,
                                                                          z3.IsSubset(V.opreq(me), V.opcols(cur, V.opreq(f)))))))


def _witnesses(reg):
    def hidden_shadow(c, _):
        """F7: the existing projection hides a column that the fixed operand also has."""
        A = c.ex.spec.A
        if "current" in c.args:
            me, current = c.self.z, c.current
        else:  # Engine.backtrack_unary(operation, tree, preferred)
            me, current = c.operation.z, SV(TRefT(c.ex.repo.cls("UnaryOperationRelation")), c.tree.z)
        cur_op = c.attr(current, "operation").z
        tcols = c.attr(c.attr(current, "target"), "columns").z
        Fc = A("BaseRelation", "columns")(A("PartialJoin", "fixed")(me))
        hidden = z3.SetDifference(tcols, A("Projection", "columns")(cur_op))
        unary = smt.typ(current.z) == c.ex.types.cid(c.ex.repo.cls("UnaryOperationRelation")) if "current" not in c.args else z3.BoolVal(True)
        return B(z3.Not(z3.And(unary, smt.typ(me) == c.ex.types.cid(c.ex.repo.cls("PartialJoin")),
                               smt.typ(cur_op) == c.ex.types.cid(c.ex.repo.cls("Projection")), z3.SetIntersect(hidden, Fc) != smt.EMPTY_TAGS)))

    def fixed_is_lhs(c, _):
        A = c.ex.spec.A
        return B(z3.Not(A("PartialJoin", "fixed_is_lhs")(c.self.z)))

    reg.witness_classes["F7-hidden-shadow"] = hidden_shadow
    reg.witness_classes["F19-fixed-is-lhs"] = fixed_is_lhs


_prev = register


def register(reg):  # noqa: F811
    _prev(reg)
    register_commute(reg)
    _witnesses(reg)
