"""Operation-level contracts: engine support, required columns, Slice.then / Sort.then, simplify (C05)."""
from __future__ import annotations

import z3

from pyvc import smt
from pyvc.smt import SV, TBool, TInt, TOptInt, TRefT, TTagSet
from spec import vocab as V
from spec import laws as L

SeqInfo = V.SeqRef.info


def B(z):
    return SV(TBool, z)


def _isinstance_hook(ex, v, ci, st):
    return None


def _builtin(ex, name, args, kwargs, st, node):
    # isinstance(engine, self.supporting_engine_types): second argument is a tuple object, not a class literal
    if name == "isinstance" and len(args) == 2 and isinstance(args[1], SV) and isinstance(args[1].td, TRefT) and isinstance(args[0], SV):
        return ex.ok(SV(TBool, V.eng_isinst(args[0].z, args[1].z)), st)
    return None


def _seq_contains(ex, container, item, st):
    if container.z.sort() == V.SeqRef.sort:
        return V.smember(container.z, item.z)
    return None


class Z3B(L.Z3Backend):
    pass


def slice_fields(c, s):
    return c.attr(s, "start").z, c.attr(s, "stop").z


def register(reg):
    reg.load("op_slice", "meta", "predicates", "inv")
    reg.add_hook("builtin", _builtin)
    reg.add_hook("seq_contains", _seq_contains)
    Bk = Z3B()

    # ------------------------------------------------------------------ is_supported_by == supp
    for key in ("_columns._expression:ColumnExpression.is_supported_by", "_columns._predicate:Predicate.is_supported_by",
                "_columns._container:ColumnContainer.is_supported_by", "_unary_operation:UnaryOperation.is_supported_by"):
        k = reg.contract(key, virtual=True, pure=True, symbol=V.supp, properties=("C14",))
        k.ens("denotes-structural-support", lambda c: B(c.result.z == V.supp(c.self.z, c.engine.z)))

    # ------------------------------------------------------------------ columns_required of operations
    k = reg.contract("_unary_operation:UnaryOperation.columns_required", virtual=True, attr=True, properties=("C04", "C20"))
    k.ens("exactly-the-needed-columns", lambda c: B(c.result.z == V.opreq(c.self.z)))
    a = reg.contract("attr:UnaryOperation.columns_required")
    a.ensures = list(k.ensures)
    k2 = reg.contract("_operations._sort:Sort.columns_required", attr=True, properties=("C04", "C20", "C13"))
    k2.ensures = list(k.ensures)
    k2.inv(0, lambda c, i, env, seq: B(env.result.z == V.fvtp(seq.z, i.z)))

    # ------------------------------------------------------------------ Slice.then (restated with the window predicate of the law)
    k = reg.contracts["_operations._slice:Slice.then"]
    k.ens("window-equivalent", lambda c: B(L.win_equiv(Bk, *slice_fields(c, c.self), *slice_fields(c, c.next), *slice_fields(c, c.result))))

    # ------------------------------------------------------------------ Sort.then
    k = reg.contract("_operations._sort:Sort.then", properties=("C05",))
    k.ens("next-terms-first-then-new-ones", lambda c: B(V.is_tcat(c.attr(c.result, "terms").z, c.attr(c.self, "terms").z, c.attr(c.next, "terms").z)))
    k.inv(0, lambda c, i, env, seq: B(env.new_terms.z == V.tcatp(c.attr(c.self, "terms").z, c.attr(c.next, "terms").z, i.z)))

    # ------------------------------------------------------------------ simplify (C05)
    def simplify_sem(c):
        X = z3.Const("g_X", V.RS) if c.mode == "prove" else z3.Const(smt.fresh_name("qX"), V.RS)
        C = V.rcols(X)
        up, me, res = c.upstream.z if "upstream" in c.args else c.current.z, c.self.z, c.result.z
        hyp = z3.And(V.uvalid(up, C), V.uvalid(me, V.rcols(V.sem(up, X))))
        concl = z3.Or(res == smt.NONE, z3.And(V.sem(res, X) == V.sem(me, V.sem(up, X)), V.uvalid(res, C)))
        body = z3.Implies(hyp, concl)
        if c.mode == "prove":
            return B(body)
        return B(z3.ForAll([X], body, patterns=[V.sem(res, X), V.sem(me, V.sem(up, X))]))

    k = reg.contract("_unary_operation:UnaryOperation.simplify", virtual=True, properties=("C05",))
    k.ens("merged-equals-sequence", simplify_sem)
