"""The public factory methods of BaseRelation (session 4).

``with_rows_satisfying``, ``with_calculated_column``, ``with_only_columns``, ``without_duplicates``, ``sorted``, ``chain``,
``materialized`` and ``transferred_to`` are what a user calls; each builds one operation object and hands it to ``apply`` /
the engine.  They are thin, but they sit between every property statement ("the factory call ...") and the code the other
contracts verify, and until this session nothing verified them: a change *inside* one of them (terms reversed, a default swapped,
the wrong operand passed on) changed no obligation.  Their postconditions are taken from the documented meaning of the factory, in
the specification's own row functions (not in terms of ``sem(operation)``, which would only restate the body):

    r.with_rows_satisfying(p)        rows == s_filter(p, rows(r))
    r.with_calculated_column(t, e)   rows == s_calc(t, e, rows(r))
    r.with_only_columns(C)           rows == s_proj(C, rows(r))
    r.without_duplicates()           rows == s_dedup(rows(r))
    r.sorted(terms)                  rows == s_sort(terms, rows(r))
    r.chain(q)                       rows == s_chain(rows(r), rows(q))
    r.materialized(...)              rows == rows(r), same engine
    r.transferred_to(E)              rows == rows(r), engine E

for every preferred-engine option combination, plus the C20 clauses (ill-formed requests raise the documented error) restated at
the factory.  ``__getitem__`` has had its contract since the first session (contracts/c20.py).  ``join`` is in
contracts/factory_join.py: for a caller-supplied predicate its rows are the natural join on the shared key columns filtered by the
predicate; for the default predicate only the structural clauses are stated (the specification has no congruence law that would
tie "some always-true predicate" to one object).
"""
from __future__ import annotations

import z3

from pyvc import smt
from spec import vocab as V
from contracts.apply import A, B, cid, cols, eng, truthful_cols

MOD = "_relation:BaseRelation"
OPTS_ERR = ("EngineError", "RelationalAlgebraError", "NotImplementedError")


def register(reg):
    reg.load("c20")
    reg.load("factory_join")  # Relation.join (predicate-given case)
    P = ("C03", "C05", "C20")
    rows = V.rows

    def common(k, sem_rows):
        k.req("target-columns-truthful", lambda c: B(truthful_cols(c, c.self.z)))
        k.ens("rows-are-the-documented-operation-applied-to-this-relation", lambda c: B(rows(c.result.z) == sem_rows(c)))
        k.ens("result-columns-truthful", lambda c: B(truthful_cols(c, c.result.z)))
        k.ens("without-transfer-the-result-stays-in-this-relations-engine", lambda c: B(z3.Implies(z3.Not(c.transfer.z), eng(c, c.result.z) == eng(c, c.self.z))))
        for e in OPTS_ERR:
            k.raises(e, None)

    C = lambda c: cols(c, c.self.z)  # noqa: E731
    triv = lambda c, p: c.ex.pure_symbol("_columns._predicate:Predicate.as_trivial", [smt.Ref], smt.Tri)(p)  # noqa: E731

    k = reg.contract(f"{MOD}.with_rows_satisfying", properties=P)
    common(k, lambda c: V.s_filter(c.predicate.z, rows(c.self.z)))
    miss = lambda c: z3.Not(z3.IsSubset(V.fv(c.predicate.z), C(c)))  # noqa: E731
    # (which columns a selection *requires* is decided on the predicate it stores -- flattened, possibly needing fewer columns than the
    # supplied one --, so the must-raise clause of C20 lives on UnaryOperation.apply; here: ColumnError only if a column is missing)
    k.raises("ColumnError", lambda c: B(miss(c)))

    k = reg.contract(f"{MOD}.with_calculated_column", properties=P)
    common(k, lambda c: V.s_calc(c.tag.z, c.expression.z, rows(c.self.z)))
    bad = lambda c: z3.Or(z3.IsMember(c.tag.z, C(c)), z3.Not(z3.IsSubset(V.fv(c.expression.z), C(c))), V.fv(c.expression.z) == smt.EMPTY_TAGS)  # noqa: E731
    k.must("existing-tag-missing-column-or-constant-expression-rejected", "ColumnError", lambda c: B(bad(c)))
    k.raises("ColumnError", lambda c: B(bad(c)))

    k = reg.contract(f"{MOD}.with_only_columns", properties=P)
    common(k, lambda c: V.s_proj(c.columns.z, rows(c.self.z)))
    pbad = lambda c: z3.Not(z3.IsSubset(c.columns.z, C(c)))  # noqa: E731
    k.must("projection-on-missing-columns-rejected", "ColumnError", lambda c: B(pbad(c)))
    k.raises("ColumnError", lambda c: B(pbad(c)))

    k = reg.contract(f"{MOD}.without_duplicates", properties=P)
    common(k, lambda c: V.s_dedup(rows(c.self.z)))

    k = reg.contract(f"{MOD}.sorted", properties=P)
    common(k, lambda c: V.s_sort(c.terms.z, rows(c.self.z)))
    k.raises("ColumnError", None)

    k = reg.contract(f"{MOD}.chain", properties=P)
    k.req("operand-columns-truthful", lambda c: B(z3.And(truthful_cols(c, c.self.z), truthful_cols(c, c.rhs.z))))
    k.ens("rows-are-this-relations-rows-followed-by-the-others", lambda c: B(rows(c.result.z) == V.s_chain(rows(c.self.z), rows(c.rhs.z))))
    k.must("chain-of-different-columns-rejected", "ColumnError", lambda c: B(cols(c, c.self.z) != cols(c, c.rhs.z)))
    k.must("chain-across-engines-rejected", "EngineError", lambda c: B(z3.And(cols(c, c.self.z) == cols(c, c.rhs.z), eng(c, c.self.z) != eng(c, c.rhs.z))))
    k.raises("ColumnError", lambda c: B(cols(c, c.self.z) != cols(c, c.rhs.z)))
    for e in OPTS_ERR:
        k.raises(e, None)

    k = reg.contract(f"{MOD}.materialized", properties=("C15", "C20"))
    k.req("target-columns-truthful", lambda c: B(truthful_cols(c, c.self.z)))
    k.ens("same-rows-columns-and-engine", lambda c: B(z3.And(rows(c.result.z) == rows(c.self.z), cols(c, c.result.z) == cols(c, c.self.z), eng(c, c.result.z) == eng(c, c.self.z))))
    for e in OPTS_ERR:
        k.raises(e, None)

    k = reg.contract(f"{MOD}.transferred_to", properties=("C15", "C20"))
    k.req("target-columns-truthful", lambda c: B(truthful_cols(c, c.self.z)))
    k.ens("same-rows-and-columns-in-the-destination-engine",
          lambda c: B(z3.And(rows(c.result.z) == rows(c.self.z), cols(c, c.result.z) == cols(c, c.self.z), eng(c, c.result.z) == c.destination.z)))
    for e in OPTS_ERR:
        k.raises(e, None)
