"""C17 (and the SQL half of the engine contracts used by C03/C05/C14/C15): sql.Select markers and sql.Engine.conform.

Select invariant ("coherence"), proved at the only construction site (Select.apply_skip) and assumed on read:

  rows        rows(select.target) == slice(dedup?(proj?(sort(rows(skip_to)))))  with the recorded operations
  structure   peeling the recorded slice, deduplication, projection and sort nodes (each may be absent) off
              select.target arrives at select.skip_to
  flag        is_compound  <=>  skip_to is a Chain node
  top         skip_to carries none of the four managed operations on top
"""
from __future__ import annotations

import z3

from pyvc import smt
from pyvc.smt import SV, TBool, TRefT
from spec import vocab as V
from contracts.apply import A, B, cid, cols, eng, truthful_cols, reg_cls, keeps_ready


def is_unary(c, z):
    return smt.typ(z) == cid(c, "UnaryOperationRelation")


def u_op(c, z):
    return A(c, "UnaryOperationRelation", "operation")(z)


def u_t(c, z):
    return A(c, "UnaryOperationRelation", "target")(z)


def is_chain_node(c, z):
    return z3.And(smt.typ(z) == cid(c, "BinaryOperationRelation"), smt.typ(A(c, "BinaryOperationRelation", "operation")(z)) == cid(c, "Chain"))


MANAGED = ("Sort", "Projection", "Deduplication", "Slice")


udeep = z3.Function("no_managed_operation_through_calculations_and_selections", smt.Ref, smt.BoolS)


def unmanaged_top(c, z):
    """None of the operations a Select manages is reachable from z through calculation / selection nodes (in
    particular: none on top).  Recursive, so that a selection merged into an existing selection -- which re-inserts
    the merged operation one level further up -- keeps it."""
    return udeep(z)


def udeep_axioms(ex):
    class _C:
        pass
    c = _C()
    c.ex = ex
    r = z3.Const("r", smt.Ref)
    op = u_op(c, r)
    through = z3.Or(smt.typ(op) == cid(c, "Calculation"), smt.typ(op) == cid(c, "Selection"))
    managed = z3.Or(*[smt.typ(op) == cid(c, n) for n in MANAGED])
    return [z3.ForAll([r], udeep(r) == z3.If(is_unary(c, r), z3.And(z3.Not(managed), z3.Implies(through, udeep(u_t(c, r)))), z3.BoolVal(True)), patterns=[udeep(r)])]


def noop(c, op):
    t = smt.typ(op)
    return z3.Or(t == cid(c, "Identity"),
                 z3.And(t == cid(c, "Slice"), A(c, "Slice", "start")(op) == 0, smt.OptInt.is_oi_none(A(c, "Slice", "stop")(op))),
                 z3.And(t == cid(c, "Sort"), V.SeqRef.info.len(A(c, "Sort", "terms")(op)) == 0))


def mergeable(c, me, up):
    """The only pairs for which UnaryOperation.simplify returns something (so that _finish_apply does not stack a node)."""
    same = z3.And(smt.typ(me) == smt.typ(up), z3.Or(*[smt.typ(me) == cid(c, n) for n in ("Projection", "Selection", "Slice", "Sort")]))
    return z3.Or(same, noop(c, me),
                 z3.And(smt.typ(me) == cid(c, "Projection"), smt.typ(up) == cid(c, "Calculation"),
                        z3.Not(z3.IsMember(A(c, "Calculation", "tag")(up), A(c, "Projection", "columns")(me)))))


def peel(c, t, op):
    return z3.If(z3.And(op != smt.NONE, is_unary(c, t), u_op(c, t) == op), u_t(c, t), t)


def S(c, f):
    return A(c, "Select", f)


def pipe(c, R0, sort, proj, dedup, slc):
    R1 = V.sem(sort, R0)
    R2 = z3.If(proj == smt.NONE, R1, V.sem(proj, R1))
    R3 = z3.If(dedup == smt.NONE, R2, V.sem(dedup, R2))
    return V.sem(slc, R3)


def sel_rows_ok(c, o):
    return V.rows(A(c, "MarkerRelation", "target")(o)) == pipe(c, V.rows(S(c, "skip_to")(o)), S(c, "sort")(o), S(c, "projection")(o), S(c, "deduplication")(o), S(c, "slice")(o))


def sel_struct_ok(c, o):
    t = A(c, "MarkerRelation", "target")(o)
    t = peel(c, t, S(c, "slice")(o))
    t = peel(c, t, S(c, "deduplication")(o))
    t = peel(c, t, S(c, "projection")(o))
    t = peel(c, t, S(c, "sort")(o))
    return t == S(c, "skip_to")(o)


def register(reg):
    reg.load("c20")
    reg.global_axioms.append(udeep_axioms)
    P = ("C17",)
    TRel = TRefT(reg_cls(reg, "BaseRelation"))
    TSel = TRefT(reg_cls(reg, "Select"))

    # ------------------------------------------------------------------ structural clauses of the generic protocol
    for key in ("_unary_operation:UnaryOperation.simplify", "_unary_operation:UnaryOperation._finish_apply", "_binary_operation:BinaryOperation._finish_apply"):
        reg.contracts[key].properties = tuple(reg.contracts[key].properties) + ("C17",)
    k = reg.contracts["_unary_operation:UnaryOperation.simplify"]
    up = lambda c: c.upstream.z if "upstream" in c.args else c.current.z  # noqa: E731
    k.ens("merges-only-within-a-class-or-drops-an-unused-calculation",
          lambda c: B(z3.Implies(c.result.z != smt.NONE, mergeable(c, c.self.z, up(c)))))
    k = reg.contracts["_unary_operation:UnaryOperation._finish_apply"]
    triv = lambda c: c.ex.pure_symbol("_columns._predicate:Predicate.as_trivial", [smt.Ref], smt.Tri)  # noqa: E731

    def does_nothing(c, me, target):
        """The request is recognised as a no-op on this target (the overrides of _finish_apply return the target)."""
        return z3.Or(noop(c, me), smt.typ(me) == cid(c, "PartialJoin"),
                     z3.And(smt.typ(me) == cid(c, "Projection"), A(c, "Projection", "columns")(me) == cols(c, target)),
                     z3.And(smt.typ(me) == cid(c, "Selection"), triv(c)(A(c, "Selection", "predicate")(me)) == smt.TRI_T))

    k.ens("a-request-recognised-as-a-no-op-returns-the-target",
          lambda c: B(z3.Implies(z3.And(does_nothing(c, c.self.z, c.target.z), smt.typ(c.self.z) != cid(c, "PartialJoin")), c.result.z == c.target.z)))
    k.ens("stacks-a-node-unless-the-operations-merge",
          lambda c: B(z3.Implies(z3.And(z3.Not(does_nothing(c, c.self.z, c.target.z)),
                                        z3.Or(z3.Not(is_unary(c, c.target.z)), z3.Not(mergeable(c, c.self.z, u_op(c, c.target.z))))),
                                 z3.And(is_unary(c, c.result.z), u_op(c, c.result.z) == c.self.z, u_t(c, c.result.z) == c.target.z))))
    sel_true = lambda c: z3.And(smt.typ(c.self.z) == cid(c, "Selection"), triv(c)(A(c, "Selection", "predicate")(c.self.z)) == smt.TRI_T)  # noqa: E731
    k.ens("calculations-and-selections-keep-managed-operations-out",
          lambda c: B(z3.Implies(z3.And(z3.Or(smt.typ(c.self.z) == cid(c, "Calculation"), smt.typ(c.self.z) == cid(c, "Selection")), udeep(c.target.z)), udeep(c.result.z))))
    k.ens("a-trivially-true-selection-returns-the-target", lambda c: B(z3.Implies(sel_true(c), c.result.z == c.target.z)))
    kb = reg.contracts["_binary_operation:BinaryOperation._finish_apply"]
    kb.ens("result-is-an-operand-or-a-binary-node",
           lambda c: B(z3.Or(c.result.z == c.lhs.z, c.result.z == c.rhs.z, smt.typ(c.result.z) == cid(c, "BinaryOperationRelation"))))
    kb.ens("a-chain-builds-a-chain-node", lambda c: B(z3.Implies(smt.typ(c.self.z) == cid(c, "Chain"), is_chain_node(c, c.result.z))))

    # ------------------------------------------------------------------ Select invariant
    for f in ("sort", "projection", "deduplication", "slice", "skip_to", "is_compound"):
        pass
    reg.object_invariant("Select", "select-rows-are-the-recorded-operations-over-the-skip-target", lambda c, o: B(sel_rows_ok(c, o.z)))
    reg.object_invariant("Select", "operations-between-the-marker-and-its-skip-target-are-the-recorded-ones", lambda c, o: B(sel_struct_ok(c, o.z)))
    def slice_wf(c, o):
        sl = S(c, "slice")(o.z)
        a, b = A(c, "Slice", "start")(sl), A(c, "Slice", "stop")(sl)
        return B(z3.And(a >= 0, z3.Or(smt.OptInt.is_oi_none(b), smt.OptInt.oi_val(b) >= a)))

    reg.object_invariant("Select", "recorded-slice-well-formed", slice_wf)
    reg.object_invariant("Select", "select-columns-truthful", lambda c, o: B(truthful_cols(c, o.z)))
    reg.object_invariant("Select", "compound-exactly-for-chains", lambda c, o: B(S(c, "is_compound")(o.z) == is_chain_node(c, S(c, "skip_to")(o.z))))
    reg.object_invariant("Select", "skip-target-has-no-managed-operation-on-top", lambda c, o: B(unmanaged_top(c, S(c, "skip_to")(o.z))))
    reg.object_invariant("Select", "recorded-operations-valid-on-the-skip-target",
                         lambda c, o: B(z3.And(V.uvalid(S(c, "sort")(o.z), cols(c, S(c, "skip_to")(o.z))),
                                               z3.Or(S(c, "projection")(o.z) == smt.NONE, V.uvalid(S(c, "projection")(o.z), cols(c, S(c, "skip_to")(o.z)))),
                                               truthful_cols(c, S(c, "skip_to")(o.z)))))

    # ------------------------------------------------------------------ has_* flags
    for name, body in (("has_sort", lambda c: V.SeqRef.info.len(A(c, "Sort", "terms")(S(c, "sort")(c.self.z))) > 0),
                       ("has_projection", lambda c: S(c, "projection")(c.self.z) != smt.NONE),
                       ("has_deduplication", lambda c: S(c, "deduplication")(c.self.z) != smt.NONE),
                       ("has_slice", lambda c: z3.Or(A(c, "Slice", "start")(S(c, "slice")(c.self.z)) != 0,
                                                     z3.Not(smt.OptInt.is_oi_none(A(c, "Slice", "stop")(S(c, "slice")(c.self.z))))))):
        kk = reg.contract(f"sql._select:Select.{name}", attr=True, properties=P)
        kk.ens("definition", (lambda body: lambda c: B(c.result.z == body(c)))(body))

    # ------------------------------------------------------------------ Select.apply_skip
    k = reg.contract("sql._select:Select.apply_skip", properties=P, result_td=TSel)
    sort_of = lambda c: c.sort.z  # noqa: E731
    k.req("skip-target-columns-truthful", lambda c: B(truthful_cols(c, c.skip_to.z)))
    k.req("skip-target-has-no-managed-operation-on-top", lambda c: B(unmanaged_top(c, c.skip_to.z)))
    k.req("sort-valid-on-the-skip-target", lambda c: B(z3.Or(c.sort.z == smt.NONE, V.uvalid(c.sort.z, cols(c, c.skip_to.z)))))
    k.req("projection-valid-on-the-skip-target", lambda c: B(z3.Or(c.projection.z == smt.NONE, V.uvalid(c.projection.z, cols(c, c.skip_to.z)))))
    res = lambda c: c.result.z  # noqa: E731
    k.ens("records-the-requested-operations",
          lambda c: B(z3.And(S(c, "skip_to")(res(c)) == c.skip_to.z,
                             z3.If(c.sort.z == smt.NONE, V.SeqRef.info.len(A(c, "Sort", "terms")(S(c, "sort")(res(c)))) == 0, S(c, "sort")(res(c)) == c.sort.z),
                             S(c, "projection")(res(c)) == c.projection.z, S(c, "deduplication")(res(c)) == c.deduplication.z,
                             z3.If(c.slice.z == smt.NONE, noop(c, S(c, "slice")(res(c))), S(c, "slice")(res(c)) == c.slice.z))))
    k.ens("rows-are-the-requested-operations-over-the-skip-target",
          lambda c: B(V.rows(res(c)) == pipe(c, V.rows(c.skip_to.z), S(c, "sort")(res(c)), c.projection.z, c.deduplication.z, S(c, "slice")(res(c)))))
    k.ens("same-engine-truthful-columns", lambda c: B(z3.And(eng(c, res(c)) == eng(c, c.skip_to.z), truthful_cols(c, res(c)))))
    k.ens("introduces-no-unprocessed-transfer", lambda c: keeps_ready(c, res(c), c.skip_to.z))
    k.raises("EngineError", None)


def sql_engine_cid(c):
    return c.ex.types.cid(c.ex.repo.cls("lsst.daf.relation.sql._engine.Engine"))


def in_sql(c, z):
    return smt.typ(eng(c, z)) == sql_engine_cid(c)


def is_select(c, z):
    return smt.typ(z) == cid(c, "Select")


_prev = register


def register(reg):  # noqa: F811
    _prev(reg)
    P = ("C17",)
    TRel = TRefT(reg_cls(reg, "BaseRelation"))
    TSel = TRefT(reg_cls(reg, "Select"))
    from contracts.binary import bvalid

    reg.object_invariant("Select", "select-lives-in-a-sql-engine", lambda c, o: B(in_sql(c, o.z)))
    k = reg.contracts["sql._select:Select.apply_skip"]
    k.req("skip-target-in-a-sql-engine", lambda c: B(in_sql(c, c.skip_to.z)))

    def f11_excluded(c, _):
        """F11's witness class: a projection applied directly on top of a calculation whose column it drops."""
        st = c.skip_to.z
        return B(z3.Not(z3.And(c.projection.z != smt.NONE, is_unary(c, st), smt.typ(u_op(c, st)) == cid(c, "Calculation"),
                               z3.Not(z3.IsMember(A(c, "Calculation", "tag")(u_op(c, st)), A(c, "Projection", "columns")(c.projection.z))))))

    reg.witness_classes["F11-projection-drops-the-calculation-on-top"] = f11_excluded

    # ------------------------------------------------------------------ Select.strip
    k = reg.contract("sql._select:Select.strip", properties=P, result_td=smt.TTupleT([TRel, smt.TBool]))
    r0 = lambda c: c.result.items[0].z  # noqa: E731
    r1 = lambda c: c.result.items[1].z  # noqa: E731
    me = lambda c: c.self.z  # noqa: E731
    bare = lambda c: z3.And(S(c, "deduplication")(me(c)) == smt.NONE, V.SeqRef.info.len(A(c, "Sort", "terms")(S(c, "sort")(me(c)))) == 0, noop(c, S(c, "slice")(me(c))))  # noqa: E731
    k.ens("strips-exactly-a-bare-select",
          lambda c: B(z3.If(bare(c), z3.And(r0(c) == S(c, "skip_to")(me(c)), r1(c) == (S(c, "projection")(me(c)) != smt.NONE)), z3.And(r0(c) == me(c), z3.Not(r1(c))))))
    k.ens("stripped-rows-differ-by-the-projection-only",
          lambda c: B(V.rows(me(c)) == z3.If(r1(c), V.sem(S(c, "projection")(me(c)), V.rows(r0(c))), V.rows(r0(c)))))

    # ------------------------------------------------------------------ sql.Engine.conform
    k = reg.contract("sql._engine:Engine.conform", properties=P + ("C15",), result_td=TSel)
    k.req("relation-columns-truthful", lambda c: B(truthful_cols(c, c.relation.z)))
    # C15: a locked relation (leaf, materialization) is wrapped in a Select as the identical object -- never re-created
    k.ens("a-locked-relation-is-wrapped-as-the-identical-object",
          lambda c: B(z3.Implies(z3.Or(smt.typ(c.relation.z) == cid(c, "LeafRelation"), smt.typ(c.relation.z) == cid(c, "Materialization")),
                                 S(c, "skip_to")(c.result.z) == c.relation.z)))
    k.req("relation-in-this-engine", lambda c: B(z3.And(eng(c, c.relation.z) == c.self.z)))
    k.ens("a-select-is-returned-as-it-is", lambda c: B(z3.Implies(is_select(c, c.relation.z), c.result.z == c.relation.z)))
    k.ens("same-rows-engine-columns", lambda c: B(z3.And(V.rows(c.result.z) == V.rows(c.relation.z), eng(c, c.result.z) == eng(c, c.relation.z),
                                                         cols(c, c.result.z) == cols(c, c.relation.z), truthful_cols(c, c.result.z))))
    k.raises("EngineError", None)
    k.raises("RelationalAlgebraError", None)
    k.raises("NotImplementedError", None)

    # ------------------------------------------------------------------ _append_unary_to_select / _append_binary_to_select
    k = reg.contract("sql._engine:Engine._append_unary_to_select", properties=P, result_td=TSel,
                     note="commutation / nesting rules of the SQL engine")
    k.req("operation-valid-on-the-select", lambda c: B(V.uvalid(c.operation.z, cols(c, c.select.z))))
    k.req("select-in-this-engine", lambda c: B(eng(c, c.select.z) == c.self.z))
    pjb = lambda c: A(c, "PartialJoin", "binary")(c.operation.z)  # noqa: E731
    pjf = lambda c: A(c, "PartialJoin", "fixed")(c.operation.z)  # noqa: E731
    k.req("a-join-is-resolved-against-this-select",
          lambda c: B(z3.Implies(smt.typ(c.operation.z) == cid(c, "PartialJoin"),
                                 z3.And(z3.If(A(c, "PartialJoin", "fixed_is_lhs")(c.operation.z), bvalid(c, pjb(c), pjf(c), c.select.z), bvalid(c, pjb(c), c.select.z, pjf(c))),
                                        truthful_cols(c, pjf(c)), eng(c, pjf(c)) == c.self.z))))
    def unary_cells(c):
        t, sel = smt.typ(c.operation.z), c.select.z
        has_proj, has_dedup = S(c, "projection")(sel) != smt.NONE, S(c, "deduplication")(sel) != smt.NONE
        compound = S(c, "is_compound")(sel)
        is_ = lambda n: t == cid(c, n)  # noqa: E731
        f24 = z3.And(is_("Calculation"), z3.Not(compound), has_proj)
        f23 = z3.And(is_("Projection"), has_dedup)
        f10 = z3.And(is_("Projection"), z3.Not(has_dedup), compound)
        return [("calculation:projected", f24), ("projection:deduplicated", f23), ("projection:chain", f10), ("other", z3.Not(z3.Or(f24, f23, f10)))]

    # (cells kept for diagnosis; the three defects they isolated -- F23, F10, F24 -- are repaired, so the obligations are no longer split)

    def unary_lemmas(c):
        from spec import laws
        sel = c.select.z
        R0 = V.rows(S(c, "skip_to")(sel))
        R1 = V.sem(S(c, "sort")(sel), R0)
        R2 = z3.If(S(c, "projection")(sel) == smt.NONE, R1, V.sem(S(c, "projection")(sel), R1))
        sl = S(c, "slice")(sel)
        return [B(laws.instance("dedup-slice-dedup", A(c, "Slice", "start")(sl), A(c, "Slice", "stop")(sl), R2))]

    k.ens("rows-are-the-operation-applied", lambda c: B(V.rows(c.result.z) == V.sem(c.operation.z, V.rows(c.select.z))), lemmas=unary_lemmas)
    k.ens("stays-in-the-engine-truthful-columns", lambda c: B(z3.And(z3.Implies(smt.typ(c.operation.z) != cid(c, "PartialJoin"), eng(c, c.result.z) == eng(c, c.select.z)), truthful_cols(c, c.result.z))))
    k.ens("identity-returns-the-select-itself", lambda c: B(z3.Implies(smt.typ(c.operation.z) == cid(c, "Identity"), c.result.z == c.select.z)))
    k.raises("EngineError", None)
    k.raises("RelationalAlgebraError", None)
    k.raises("NotImplementedError", None)
    k.raises("ColumnError", lambda c: B(smt.typ(c.operation.z) == cid(c, "PartialJoin")))
    k = reg.contract("sql._engine:Engine._append_binary_to_select", properties=P, result_td=TSel, note="chain nesting / join projection hoisting of the SQL engine")
    k.req("operands-in-this-engine", lambda c: B(z3.And(eng(c, c.lhs.z) == c.self.z, eng(c, c.rhs.z) == c.self.z)))
    k.req("operation-valid-on-operands", lambda c: B(bvalid(c, c.operation.z, c.lhs.z, c.rhs.z)))
    k.ens("rows-are-the-operation-applied", lambda c: B(V.rows(c.result.z) == V.bsem(c.operation.z, V.rows(c.lhs.z), V.rows(c.rhs.z))))
    k.ens("stays-in-the-engine-truthful-columns", lambda c: B(z3.And(eng(c, c.result.z) == eng(c, c.lhs.z), truthful_cols(c, c.result.z))))
    k.raises("EngineError", None)
    k.raises("RelationalAlgebraError", None)

    sel_sort_cols = lambda c: V.fvts(A(c, "Sort", "terms")(S(c, "sort")(c.select.z)))  # noqa: E731

    def f23_excluded(c, _):
        return B(z3.Not(z3.And(smt.typ(c.operation.z) == cid(c, "Projection"), S(c, "deduplication")(c.select.z) != smt.NONE,
                               z3.Not(z3.IsSubset(sel_sort_cols(c), cols(c, c.select.z))))))

    def f10_excluded(c, _):
        return B(z3.Not(z3.And(smt.typ(c.operation.z) == cid(c, "Projection"), S(c, "deduplication")(c.select.z) == smt.NONE, S(c, "is_compound")(c.select.z),
                               z3.Not(z3.IsSubset(sel_sort_cols(c), A(c, "Projection", "columns")(c.operation.z))))))

    def f24_excluded(c, _):
        return B(z3.Not(z3.And(smt.typ(c.operation.z) == cid(c, "Calculation"), S(c, "projection")(c.select.z) != smt.NONE,
                               z3.IsMember(A(c, "Calculation", "tag")(c.operation.z), cols(c, S(c, "skip_to")(c.select.z))))))

    reg.witness_classes["F23-sort-column-projected-away-before-deduplication"] = f23_excluded
    reg.witness_classes["F10-sort-column-projected-away-from-a-chain"] = f10_excluded
    reg.witness_classes["F24-calculated-tag-hidden-by-the-projection"] = f24_excluded

    # ------------------------------------------------------------------ engine entry points: every factory result is a Select
    def sel_result(key, rows_fn, extra=()):
        kk = reg.contract(key, properties=P, result_td=TSel)
        kk.ens("result-is-a-coherent-select-with-the-expected-rows", lambda c: B(z3.And(is_select(c, c.result.z), V.rows(c.result.z) == rows_fn(c), truthful_cols(c, c.result.z))))
        for e in ("EngineError", "RelationalAlgebraError", "NotImplementedError") + tuple(extra):
            kk.raises(e, None)
        return kk

    kk = sel_result("sql._engine:Engine.append_unary", lambda c: V.sem(c.operation.z, V.rows(c.target.z)), extra=("ColumnError",))
    kk.req("operation-valid-on-target", lambda c: B(V.uvalid(c.operation.z, cols(c, c.target.z))))
    kk.req("target-columns-truthful-in-this-engine", lambda c: B(z3.And(truthful_cols(c, c.target.z), eng(c, c.target.z) == c.self.z)))
    kk.req("a-join-is-resolved-against-this-target",
           lambda c: B(z3.Implies(smt.typ(c.operation.z) == cid(c, "PartialJoin"),
                                  z3.And(z3.If(A(c, "PartialJoin", "fixed_is_lhs")(c.operation.z),
                                               bvalid(c, A(c, "PartialJoin", "binary")(c.operation.z), A(c, "PartialJoin", "fixed")(c.operation.z), c.target.z),
                                               bvalid(c, A(c, "PartialJoin", "binary")(c.operation.z), c.target.z, A(c, "PartialJoin", "fixed")(c.operation.z))),
                                         truthful_cols(c, A(c, "PartialJoin", "fixed")(c.operation.z)), eng(c, A(c, "PartialJoin", "fixed")(c.operation.z)) == c.self.z))))
    kk = sel_result("sql._engine:Engine.append_binary", lambda c: V.bsem(c.operation.z, V.rows(c.lhs.z), V.rows(c.rhs.z)))
    kk.req("operation-valid-on-operands", lambda c: B(bvalid(c, c.operation.z, c.lhs.z, c.rhs.z)))
    kk.req("operands-truthful-in-this-engine", lambda c: B(z3.And(truthful_cols(c, c.lhs.z), truthful_cols(c, c.rhs.z), eng(c, c.lhs.z) == c.self.z, eng(c, c.rhs.z) == c.self.z)))
    kk = sel_result("sql._engine:Engine.transfer", lambda c: V.rows(c.target.z))
    kk.req("target-columns-truthful", lambda c: B(truthful_cols(c, c.target.z)))
    kk.ens("lands-in-this-engine", lambda c: B(eng(c, c.result.z) == c.self.z))
    kk = sel_result("sql._engine:Engine.materialize", lambda c: V.rows(c.target.z))
    kk.req("target-columns-truthful-in-this-engine", lambda c: B(z3.And(truthful_cols(c, c.target.z), eng(c, c.target.z) == c.self.z)))
    # C19: the SQL override hands name / name_prefix to the base implementation untouched -- the materialization it wraps keeps an
    # explicit name, and a generated one starts with the requested prefix and ends with this call's uuid
    from contracts.names import uuid_hex
    from pyvc.types import OptStr as _OS
    from pyvc.smt import TStr as _TStr

    kk.properties = tuple(kk.properties) + ("C19",)
    wrapped = lambda c: S(c, "skip_to")(c.result.z)  # noqa: E731
    new_mat = lambda c: z3.And(smt.typ(wrapped(c)) == cid(c, "Materialization"), c.allocated_by_call(wrapped(c)))  # noqa: E731
    mname = lambda c: c.ex.types.attr_symbol(c.ex.repo.cls("Materialization"), "name", _TStr)(wrapped(c))  # noqa: E731
    kk.ens("explicit-name-kept", lambda c: B(z3.Implies(z3.And(new_mat(c), _OS.is_os_some(c.name.z)), mname(c) == _OS.os_val(c.name.z))))
    kk.ens("generated-name-has-prefix-and-fresh-uuid",
           lambda c: B(z3.Implies(z3.And(new_mat(c), _OS.is_os_none(c.name.z)),
                                  z3.And(z3.PrefixOf(c.name_prefix.z, mname(c)),
                                         z3.SuffixOf(uuid_hex(c.state.ghost["last_uuid"]), mname(c)) if "last_uuid" in c.state.ghost else z3.BoolVal(False)))))

    # ------------------------------------------------------------------ Select.reapply (the marker protocol, used by the Processor)
    k = reg.contracts.get("sql._select:Select.reapply")
    if k is None:
        k = reg.contract("sql._select:Select.reapply", properties=P, result_td=TRel)
    else:
        k.assumed = False
        k.properties = tuple(set(k.properties) | {"C17"})
        k.ensures, k.may_raise = [], {}
    k.req("target-columns-truthful-in-the-selects-engine", lambda c: B(z3.And(truthful_cols(c, c.target.z), eng(c, c.target.z) == eng(c, c.self.z))))
    k.ens("same-select-for-the-same-target", lambda c: B(z3.Implies(c.target.z == A(c, "MarkerRelation", "target")(c.self.z), c.result.z == c.self.z)))
    k.ens("a-select-with-the-targets-rows",
          lambda c: B(z3.And(is_select(c, c.result.z), V.rows(c.result.z) == V.rows(c.target.z), cols(c, c.result.z) == cols(c, c.target.z), eng(c, c.result.z) == eng(c, c.target.z),
                             truthful_cols(c, c.result.z))))
    k.must("a-payload-is-rejected", "EngineError", lambda c: B(c.payload.z != smt.NONE))
    k.raises("EngineError", None)
    k.raises("RelationalAlgebraError", None)
    k.raises("NotImplementedError", None)

    def stripped(c, z):
        b = z3.And(S(c, "deduplication")(z) == smt.NONE, V.SeqRef.info.len(A(c, "Sort", "terms")(S(c, "sort")(z))) == 0, noop(c, S(c, "slice")(z)))
        return z3.If(b, S(c, "skip_to")(z), z)

    def f7_excluded(c, _):
        """F7's witness class in the SQL engine: a join whose (stripped) operands both expose a column that is not a join column."""
        K = A(c, "Join", "min_columns")(c.operation.z)
        return B(z3.Implies(smt.typ(c.operation.z) == cid(c, "Join"),
                            z3.IsSubset(z3.SetIntersect(cols(c, stripped(c, c.lhs.z)), cols(c, stripped(c, c.rhs.z))), K)))

    reg.witness_classes["F7-sql-hidden-shadow"] = f7_excluded
