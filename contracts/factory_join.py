"""Relation.join (session 4): the factory whose body is ``Join(p or literal True).partial(rhs).apply(self, ...)``.

For a caller-supplied predicate the postcondition is the natural join of the documentation: the operands' shared *key* columns are the
join columns, the predicate filters the pairs.  (Restriction shared with C03/C04: a column exposed by both operands is a join column.)
For the default predicate only the structural clause is stated: the specification has no congruence law for ``s_join`` under
predicate equivalence, so "the join under some always-true predicate" cannot be tied to one predicate object.
"""
from __future__ import annotations

import z3

from pyvc import smt
from spec import vocab as V
from contracts.apply import B, cols, eng, truthful_cols


def register(reg):
    reg.load("c20")
    P = ("C03", "C05", "C20")
    rows = V.rows
    k = reg.contract("_relation:BaseRelation.join", properties=P)
    C = lambda c: cols(c, c.self.z)  # noqa: E731
    F = lambda c: cols(c, c.rhs.z)  # noqa: E731
    shared = lambda c: z3.SetIntersect(C(c), F(c))  # noqa: E731
    K = lambda c: V.keys_of(shared(c))  # noqa: E731
    k.req("operand-columns-truthful", lambda c: B(z3.And(truthful_cols(c, c.self.z), truthful_cols(c, c.rhs.z))))
    k.req("shared-columns-are-join-columns", lambda c: B(z3.IsSubset(shared(c), K(c))))
    k.req("predicate-columns-available", lambda c: B(z3.Implies(c.predicate.z != smt.NONE, z3.IsSubset(V.fv(c.predicate.z), z3.SetUnion(C(c), F(c))))))
    k.ens("rows-are-the-natural-join-filtered-by-the-predicate",
          lambda c: B(z3.Implies(c.predicate.z != smt.NONE, rows(c.result.z) == V.s_join(c.predicate.z, K(c), rows(c.self.z), rows(c.rhs.z)))))
    k.ens("result-columns-truthful", lambda c: B(truthful_cols(c, c.result.z)))
    k.ens("without-transfer-the-result-is-in-an-operand-engine",
          lambda c: B(z3.Implies(z3.Not(c.transfer.z), z3.Or(eng(c, c.result.z) == eng(c, c.self.z), eng(c, c.result.z) == eng(c, c.rhs.z)))))
    for e in ("EngineError", "ColumnError", "RelationalAlgebraError", "NotImplementedError"):
        k.raises(e, None)
