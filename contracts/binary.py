"""Binary operations: Chain / Join / IgnoreOne application (C06 consumers, C14, C20)."""
from __future__ import annotations

import z3

from pyvc import smt
from pyvc.smt import SV, TBool, TRefT
from spec import vocab as V
from contracts.apply import A, B, cid, cols, eng, truthful_cols, reg_cls, keeps_ready


def resolved(c, j):
    return A(c, "Join", "max_columns")(j) == smt.OptTagSet.ots_some(A(c, "Join", "min_columns")(j))


def bvalid(c, op, l, r):
    """A binary operation is well-formed on these operands (what _begin_apply establishes)."""
    t = smt.typ(op)
    K = A(c, "Join", "min_columns")(op)
    return z3.And(
        z3.Implies(t == cid(c, "Chain"), cols(c, l) == cols(c, r)),
        z3.Implies(t == cid(c, "Join"), z3.And(resolved(c, op), z3.IsSubset(K, cols(c, l)), z3.IsSubset(K, cols(c, r)),
                                               z3.IsSubset(V.fv(A(c, "Join", "predicate")(op)), z3.SetUnion(cols(c, l), cols(c, r))))),
    )


def register(reg):
    reg.load("apply")
    TBin = TRefT(reg_cls(reg, "BinaryOperation"))
    PB = ("C14", "C20", "C06")

    # tree invariants of binary nodes (C14)
    reg.object_invariant("BinaryOperationRelation", "operands-share-an-engine",
                         lambda c, o: B(eng(c, c.attr(o, "lhs").z) == eng(c, c.attr(o, "rhs").z)))
    reg.object_invariant("BinaryOperationRelation", "operation-valid-on-operands",
                         lambda c, o: B(bvalid(c, c.attr(o, "operation").z, c.attr(o, "lhs").z, c.attr(o, "rhs").z)))
    reg.object_invariant("BinaryOperationRelation", "join-predicate-supported",
                         lambda c, o: B(z3.Implies(smt.typ(c.attr(o, "operation").z) == cid(c, "Join"),
                                                   V.supp(A(c, "Join", "predicate")(c.attr(o, "operation").z), eng(c, c.attr(o, "lhs").z)))))

    # ------------------------------------------------------------------ _begin_apply
    k = reg.contract("_binary_operation:BinaryOperation._begin_apply", virtual=True, pure=True, properties=PB, result_td=TBin)
    k.req("operand-columns-truthful", lambda c: B(z3.And(truthful_cols(c, c.lhs.z), truthful_cols(c, c.rhs.z))))
    is_chain = lambda c: smt.typ(c.self.z) == cid(c, "Chain")  # noqa: E731
    is_join = lambda c: smt.typ(c.self.z) == cid(c, "Join")  # noqa: E731
    k.must("chain-across-engines-rejected", "EngineError", lambda c: B(z3.And(is_chain(c), eng(c, c.lhs.z) != eng(c, c.rhs.z))))
    k.must("chain-of-different-columns-rejected", "ColumnError", lambda c: B(z3.And(is_chain(c), eng(c, c.lhs.z) == eng(c, c.rhs.z), cols(c, c.lhs.z) != cols(c, c.rhs.z))))
    k.must("join-predicate-needs-missing-columns", "ColumnError",
           lambda c: B(z3.And(is_join(c), z3.Not(z3.IsSubset(V.fv(A(c, "Join", "predicate")(c.self.z)), z3.SetUnion(cols(c, c.lhs.z), cols(c, c.rhs.z)))))))
    k.must("join-on-missing-columns-rejected", "ColumnError",
           lambda c: B(z3.And(is_join(c), resolved(c, c.self.z),
                              z3.Not(z3.And(z3.IsSubset(A(c, "Join", "min_columns")(c.self.z), cols(c, c.lhs.z)), z3.IsSubset(A(c, "Join", "min_columns")(c.self.z), cols(c, c.rhs.z)))))))
    k.raises("EngineError", lambda c: B(z3.And(is_chain(c), eng(c, c.lhs.z) != eng(c, c.rhs.z))))
    k.raises("ColumnError", lambda c: B(z3.Or(z3.And(is_chain(c), cols(c, c.lhs.z) != cols(c, c.rhs.z)), is_join(c))))
    res = lambda c: c.result.z  # noqa: E731
    k.ens("kept-operation-valid", lambda c: B(z3.Implies(smt.typ(res(c)) != cid(c, "IgnoreOne"), bvalid(c, res(c), c.lhs.z, c.rhs.z))))
    k.ens("kept-operation-means-the-same",
          lambda c: B(V.bsem(res(c), V.rows(c.lhs.z), V.rows(c.rhs.z)) == V.bsem(c.self.z, V.rows(c.lhs.z), V.rows(c.rhs.z))))
    k.ens("same-kind-or-elided", lambda c: B(z3.Or(smt.typ(res(c)) == smt.typ(c.self.z), z3.And(is_join(c), smt.typ(res(c)) == cid(c, "IgnoreOne")))))
    k.ens("join-predicate-kept", lambda c: B(z3.Implies(z3.And(is_join(c), smt.typ(res(c)) == cid(c, "Join")),
                                                        A(c, "Join", "predicate")(res(c)) == A(c, "Join", "predicate")(c.self.z))))

    # ------------------------------------------------------------------ _finish_apply
    k = reg.contract("_binary_operation:BinaryOperation._finish_apply", virtual=True, properties=PB)
    k.req("operation-valid-on-operands", lambda c: B(bvalid(c, c.self.z, c.lhs.z, c.rhs.z)))
    k.req("operand-columns-truthful", lambda c: B(z3.And(truthful_cols(c, c.lhs.z), truthful_cols(c, c.rhs.z))))
    k.req("chain-operands-share-an-engine", lambda c: B(z3.Implies(smt.typ(c.self.z) == cid(c, "Chain"), eng(c, c.lhs.z) == eng(c, c.rhs.z))))
    k.ens("rows-are-the-operation-applied", lambda c: B(V.rows(c.result.z) == V.bsem(c.self.z, V.rows(c.lhs.z), V.rows(c.rhs.z))))
    k.ens("result-columns-truthful", lambda c: B(truthful_cols(c, c.result.z)))
    k.ens("result-in-an-operand-engine", lambda c: B(z3.Or(eng(c, c.result.z) == eng(c, c.lhs.z), eng(c, c.result.z) == eng(c, c.rhs.z))))
    k.ens("introduces-no-unprocessed-transfer", lambda c: keeps_ready(c, c.result.z, c.lhs.z, c.rhs.z))
    k.must("join-across-engines-rejected", "EngineError",
           lambda c: B(z3.And(smt.typ(c.self.z) == cid(c, "Join"), eng(c, c.lhs.z) != eng(c, c.rhs.z),
                              z3.Not(A(c, "BaseRelation", "is_join_identity")(c.lhs.z)), z3.Not(A(c, "BaseRelation", "is_join_identity")(c.rhs.z)))))
    k.raises("EngineError", lambda c: B(z3.And(smt.typ(c.self.z) == cid(c, "Join"),
                                               z3.Or(eng(c, c.lhs.z) != eng(c, c.rhs.z), z3.Not(V.supp(A(c, "Join", "predicate")(c.self.z), eng(c, c.lhs.z)))))))

    # ------------------------------------------------------------------ Engine.append_binary / BinaryOperation.apply
    k = reg.contract("_engine:Engine.append_binary", virtual=True, unverified_impls=("sql.",), properties=PB)
    k.req("operation-valid-on-operands", lambda c: B(bvalid(c, c.operation.z, c.lhs.z, c.rhs.z)))
    k.req("operand-columns-truthful", lambda c: B(z3.And(truthful_cols(c, c.lhs.z), truthful_cols(c, c.rhs.z))))
    k.req("chain-operands-share-an-engine", lambda c: B(z3.Implies(smt.typ(c.operation.z) == cid(c, "Chain"), eng(c, c.lhs.z) == eng(c, c.rhs.z))))
    k.ens("rows-are-the-operation-applied", lambda c: B(V.rows(c.result.z) == V.bsem(c.operation.z, V.rows(c.lhs.z), V.rows(c.rhs.z))))
    k.ens("result-columns-truthful", lambda c: B(truthful_cols(c, c.result.z)))
    k.ens("result-in-an-operand-engine", lambda c: B(z3.Or(eng(c, c.result.z) == eng(c, c.lhs.z), eng(c, c.result.z) == eng(c, c.rhs.z))))
    k.ens("introduces-no-unprocessed-transfer", lambda c: keeps_ready(c, c.result.z, c.lhs.z, c.rhs.z))
    k.raises("EngineError", None)
    k.raises("RelationalAlgebraError", None)

    k = reg.contract("_binary_operation:BinaryOperation.apply", properties=PB)
    k.req("operand-columns-truthful", lambda c: B(z3.And(truthful_cols(c, c.lhs.z), truthful_cols(c, c.rhs.z))))
    k.ens("rows-are-the-operation-applied", lambda c: B(V.rows(c.result.z) == V.bsem(c.self.z, V.rows(c.lhs.z), V.rows(c.rhs.z))))
    k.ens("result-columns-truthful", lambda c: B(truthful_cols(c, c.result.z)))
    k.ens("result-in-an-operand-engine", lambda c: B(z3.Or(eng(c, c.result.z) == eng(c, c.lhs.z), eng(c, c.result.z) == eng(c, c.rhs.z))))
    k.ens("introduces-no-unprocessed-transfer", lambda c: keeps_ready(c, c.result.z, c.lhs.z, c.rhs.z))
    # C20 at the entry point the factories call (session 4: Relation.chain is under contract and needs these from its callee)
    is_chain = lambda c: smt.typ(c.self.z) == cid(c, "Chain")  # noqa: E731
    k.must("chain-of-different-columns-rejected", "ColumnError", lambda c: B(z3.And(is_chain(c), cols(c, c.lhs.z) != cols(c, c.rhs.z))))
    k.must("chain-across-engines-rejected", "EngineError", lambda c: B(z3.And(is_chain(c), cols(c, c.lhs.z) == cols(c, c.rhs.z), eng(c, c.lhs.z) != eng(c, c.rhs.z))))
    k.raises("EngineError", None)
    k.raises("ColumnError", lambda c: B(z3.Not(z3.And(is_chain(c), cols(c, c.lhs.z) == cols(c, c.rhs.z)))))
    k.raises("RelationalAlgebraError", None)
