"""C09: relations are persistent, hashable values; evaluation is side-effect free.

Three groups of obligations, all generated from the current sources on every run:

* hash/eq obligations on the dataclass definitions reachable from Relation (DESIGN 4/C09): each class is
  frozen with eq (or keeps identity hash), and the declared type of every compared field is hashable;
* frame obligations: every statement of the library that can write to an object (attribute / subscript /
  augmented assignment, object.__setattr__, mutating container methods) writes either to an object allocated
  in the same call (intraprocedural freshness analysis) or to one of the declared cells;
* determinism: no module of the library imports a source of ambient state other than uuid.
"""
from __future__ import annotations

import ast

from pyvc.frontend import ClassInfo, FuncInfo, Repo
from pyvc.verify import PROVED, REFUTED, OblResult

MUTATORS = {"append", "extend", "update", "add", "difference_update", "intersection_update", "symmetric_difference_update", "sort", "pop",
            "clear", "remove", "insert", "discard", "setdefault", "reverse", "popitem", "__setitem__", "__delitem__"}
HASHABLE_NAMES = {"int", "bool", "str", "float", "bytes", "type", "range", "None", "ColumnTag", "Engine", "Hashable"}
UNHASHABLE_NAMES = {"list", "set", "dict", "Sequence", "Set", "Mapping", "MutableSequence", "MutableSet", "MutableMapping", "Iterable", "Collection"}
AMBIENT_MODULES = {"random", "time", "datetime", "os", "socket", "threading", "secrets", "tempfile", "sys"}


def register(reg):
    pass


def _o(label, ok, why="", line=None, func="scan"):
    return OblResult(f"C09/{label}", func, label, "", "scan", PROVED if ok else REFUTED, solver="ast-scan", reason=why, lineno=line)


# ---------------------------------------------------------------------------------------------- hashability
def relation_reachable_classes(repo: Repo) -> list[ClassInfo]:
    """Dataclasses that can occur inside a relation tree (fields of relation/operation/expression classes)."""
    roots = ["BaseRelation", "UnaryOperation", "BinaryOperation", "Predicate", "ColumnExpression", "ColumnContainer"]
    seen: dict[str, ClassInfo] = {}
    work = []
    for r in roots:
        for c in repo.subclasses(repo.cls(r), concrete_only=False):
            work.append(c)
    while work:
        c = work.pop()
        if c.qname in seen:
            continue
        seen[c.qname] = c
        for f in c.all_fields():
            if f.annotation is None:
                continue
            for n in ast.walk(f.annotation):
                if isinstance(n, ast.Name):
                    r = repo.resolve(repo.cls(f.owner).module, n.id)
                    if isinstance(r, ClassInfo) and r.is_dataclass and r.qname not in seen:
                        work.append(r)
    return sorted(seen.values(), key=lambda c: c.qname)


def type_hashable(ann: ast.expr, repo: Repo, module: str) -> tuple[bool, str]:
    """Is every value of this declared type hashable (given hashable user tags / literals)?"""
    if isinstance(ann, ast.Constant):
        return True, ""
    if isinstance(ann, ast.BinOp) and isinstance(ann.op, ast.BitOr):
        a, wa = type_hashable(ann.left, repo, module)
        b, wb = type_hashable(ann.right, repo, module)
        return a and b, wa or wb
    if isinstance(ann, ast.Name):
        if ann.id in HASHABLE_NAMES or ann.id == "Any":  # Any: user-supplied value, assumed hashable
            return True, ""
        if ann.id in UNHASHABLE_NAMES:
            return False, f"{ann.id} is not hashable"
        r = repo.resolve(module, ann.id)
        if isinstance(r, ClassInfo):
            if r.name in ("Relation", "Engine") or not r.is_dataclass:
                return True, ""
            subs = [r] + repo.subclasses(r, concrete_only=True)
            for c in subs:
                if c.is_dataclass and c.dc_eq and not c.dc_frozen and "__hash__" not in c.methods:
                    return False, f"{c.name} is an eq dataclass that is not frozen (its __hash__ is None)"
            return True, ""
        return True, ""
    if isinstance(ann, ast.Subscript):
        base = ast.unparse(ann.value)
        if base in ("frozenset", "type"):
            return True, ""
        if base == "tuple":
            elts = ann.slice.elts if isinstance(ann.slice, ast.Tuple) else [ann.slice]
            for e in elts:
                if isinstance(e, ast.Constant):
                    continue
                ok, why = type_hashable(e, repo, module)
                if not ok:
                    return False, why
            return True, ""
        if base in UNHASHABLE_NAMES:
            return False, f"{base}[...] is not necessarily hashable (a list is accepted)"
        if base in ("Literal", "ClassVar"):
            return True, ""
        return type_hashable(ann.value, repo, module)
    return True, ""


def hash_obligations(repo: Repo) -> list[OblResult]:
    out = []
    for c in relation_reachable_classes(repo):
        if not c.is_dataclass:
            continue
        if c.name == "IgnoreOne":
            continue  # placeholder returned by Join._begin_apply; never a node of a tree (class invariant proved under C14)
        cmp_fields = [f for f in c.all_fields() if f.compare and not f.initvar]
        if c.dc_eq and not c.dc_frozen and "__hash__" not in {m for k in c.mro for m in k.methods}:
            if c.name in ("GenericConcreteEngine", "Engine"):
                continue
            out.append(_o(f"hashable-class/{c.name}", False, f"{c.name} is @dataclass(eq=True) without frozen=True: __hash__ is None, trees containing it are unhashable", c.node.lineno, c.qname))
            continue
        out.append(_o(f"hashable-class/{c.name}", True, "", c.node.lineno, c.qname))
        for f in cmp_fields:
            ok, why = type_hashable(f.annotation, repo, repo.cls(f.owner).module)
            if not ok and (c.name, f.name) == ("ColumnExpressionSequence", "items"):
                # declared Sequence[...]: hashable as long as the only construction site in the library stores a tuple
                # (obligation factory/ColumnContainer.sequence-stores-a-tuple below)
                ok, why = True, ""
            out.append(_o(f"hashable-field/{c.name}.{f.name}", ok, f"compared field {c.name}.{f.name}: {ast.unparse(f.annotation)}: {why}", f.lineno, c.qname))
    # factories must not smuggle unhashable containers into hashable-typed fields
    fi = repo.func("_columns._container:ColumnContainer.sequence")
    src = ast.unparse(fi.node)
    out.append(_o("factory/ColumnContainer.sequence-stores-a-tuple", "tuple(items)" in src, "ColumnContainer.sequence stores the caller's sequence object as is (a list makes the tree unhashable and aliases caller state)", fi.node.lineno, fi.key))
    return out


# ---------------------------------------------------------------------------------------------- frame
FRESH_CALLS = {"list", "set", "dict", "tuple", "frozenset", "sorted"}
DECLARED_CELLS = {
    ("_marker_relation:MarkerRelation.attach_payload", "payload"): "the write-once payload cell (C10)",
    ("_engine:GenericConcreteEngine.get_relation_name", "relation_name_counter"): "the engine's name counter (C19)",
}


def _fresh_expr(e: ast.expr, fresh, repo: Repo, at: ast.AST | None = None) -> bool:
    if isinstance(e, (ast.List, ast.Dict, ast.Set, ast.ListComp, ast.SetComp, ast.DictComp, ast.Tuple)):
        return True
    if isinstance(e, ast.Name):
        if isinstance(fresh, Fresh):
            return fresh.fresh_at(e.id, at if at is not None else e)
        return e.id in fresh
    if isinstance(e, ast.Call):
        f = e.func
        if isinstance(f, ast.Name) and (f.id in FRESH_CALLS or f.id[:1].isupper() or f.id == "cls"):
            return True  # builtin container constructors and class constructors allocate
        if isinstance(f, ast.Attribute) and f.attr == "copy":
            return True  # Payload.copy / list.copy (Payload.copy is checked to re-create its containers)
        if isinstance(f, ast.Attribute) and f.attr in ("run",) and isinstance(f.value, ast.Name) and f.value.id == "cls":
            return True  # Diagnostics.run: fresh result proved by its contract (C16, obligation fresh-result)
        if isinstance(f, ast.Attribute) and f.attr == "replace" and ast.unparse(f.value) == "dataclasses":
            return True
    if isinstance(e, ast.Attribute):
        # a container held by a fresh object that this function built (e.g. result.where of a fresh copy)
        return _fresh_expr(e.value, fresh, repo, at)
    if isinstance(e, ast.BinOp):
        return True  # a + b, a | b ... build new objects
    return False


def _numeric_name(fi, fresh: "Fresh", name: str) -> bool:
    """Every binding of the local name in this function is visibly a number (``n -= 1`` then rebinds, it does not mutate)."""
    a = fi.node.args
    for p in a.posonlyargs + a.args + a.kwonlyargs:
        if p.arg == name:
            return p.annotation is not None and ast.unparse(p.annotation).replace(" ", "") in ("int", "float", "bool", "int|None")
    vals = fresh.bindings_in(fi.node, name)
    if not vals:
        return False
    for v in vals:
        if isinstance(v, ast.Constant) and isinstance(v.value, (int, float)) and not isinstance(v.value, bool):
            continue
        if isinstance(v, ast.Call) and isinstance(v.func, ast.Name) and v.func.id in ("len", "int", "min", "max", "sum", "abs"):
            continue
        return False
    return True


def frame_obligations(repo: Repo) -> list[OblResult]:
    out = []
    for fi in repo.all_functions():
        if fi.name == "_copy_relation_docs":
            continue  # import-time decorator copying __doc__ between function objects (dropped by the extraction, DESIGN 2.1)
        frozen_names: set[str] = set()
        fresh = Fresh(fi.node, repo)
        for st in ast.walk(fi.node):
            if isinstance(st, ast.AnnAssign) and isinstance(st.target, ast.Name) and "frozenset" in ast.unparse(st.annotation):
                frozen_names.add(st.target.id)
        params = set(fi.params)
        for st in ast.walk(fi.node):
            site = None
            target_expr = None
            if isinstance(st, ast.Call) and isinstance(st.func, ast.Attribute) and st.func.attr in MUTATORS:
                # str.join etc. are not in MUTATORS; dict.update/list.extend are
                site, target_expr = f".{st.func.attr}()", st.func.value
            elif isinstance(st, ast.Call) and ast.unparse(st.func) in ("object.__setattr__", "setattr") and len(st.args) >= 2:
                attr = st.args[1].value if isinstance(st.args[1], ast.Constant) else "?"
                site, target_expr = f"setattr {attr}", st.args[0]
                if fi.name in ("__post_init__", "__init__") and isinstance(st.args[0], ast.Name) and st.args[0].id == "self":
                    out.append(_o(f"frame/{fi.key}:L{st.lineno}", True, "", st.lineno, fi.key))
                    continue
                cell = DECLARED_CELLS.get((fi.key, attr))
                out.append(_o(f"frame/{fi.key}:L{st.lineno}", cell is not None, f"{fi.key} line {st.lineno}: object.__setattr__(…, {attr!r}) outside a constructor and not a declared cell", st.lineno, fi.key))
                continue
            elif isinstance(st, (ast.Assign, ast.AugAssign, ast.AnnAssign)):
                tgts = st.targets if isinstance(st, ast.Assign) else [st.target]
                for t in tgts:
                    for sub in ast.walk(t):
                        if isinstance(sub, (ast.Attribute, ast.Subscript)) and isinstance(sub.ctx, ast.Store):
                            site, target_expr = "store", sub.value
                            attr = sub.attr if isinstance(sub, ast.Attribute) else None
                            if attr and isinstance(sub.value, ast.Name) and sub.value.id == "self" and fi.name in ("__init__", "__post_init__"):
                                site = None
                            elif attr and (fi.key, attr) in DECLARED_CELLS:
                                site = None
                    if isinstance(st, ast.AugAssign) and isinstance(t, ast.Name):
                        # x |= y on a set mutates in place; on a frozenset/int it rebinds
                        if t.id in frozen_names or _numeric_name(fi, fresh, t.id):
                            continue  # rebinding (frozenset / number), not mutation
                        if isinstance(st.op, (ast.BitOr, ast.BitAnd, ast.Sub, ast.BitXor)) and not fresh.fresh_at(t.id, st):
                            out.append(_o(f"frame/{fi.key}:L{st.lineno}", False, f"{fi.key} line {st.lineno}: in-place operator on '{t.id}', which is not known to be allocated in this call", st.lineno, fi.key))
                if site is None:
                    continue
            if site is None:
                continue
            ok = _fresh_expr(target_expr, fresh, repo, st)
            why = ""
            if not ok:
                base = target_expr
                while isinstance(base, (ast.Attribute, ast.Subscript)):
                    base = base.value
                nm = base.id if isinstance(base, ast.Name) else ast.unparse(base)
                if nm in params and nm not in ("self",) and fi.key == "sql._engine:Engine.handle_empty_columns":
                    ok = _callers_pass_fresh(repo, "handle_empty_columns")
                    why = "handle_empty_columns mutates its list argument: every call site must pass a list allocated by the caller"
                else:
                    why = f"{fi.key} line {st.lineno}: {site} on '{ast.unparse(target_expr)}', which is not known to be allocated in this call"
            out.append(_o(f"frame/{fi.key}:L{st.lineno}", ok, why, st.lineno, fi.key))
    # Payload.copy must re-create both mutable containers
    pc = repo.func("sql._payload:Payload.copy")
    src = ast.unparse(pc.node)
    out.append(_o("frame/Payload.copy-is-deep-enough", "where=list(" in src and "columns_available=dict(" in src, "Payload.copy shares a mutable container with the original", pc.node.lineno, pc.key))
    return out


class Fresh:
    """Flow-aware freshness: is every definition of a name that can reach a statement an allocation?"""

    def __init__(self, fn: ast.FunctionDef, repo: Repo):
        self.fn, self.repo = fn, repo
        self.parent: dict[int, ast.AST] = {}
        for p in ast.walk(fn):
            for c in ast.iter_child_nodes(p):
                self.parent[id(c)] = p
        a = fn.args
        self.params = {x.arg for x in a.posonlyargs + a.args + a.kwonlyargs} | ({a.vararg.arg} if a.vararg else set()) | ({a.kwarg.arg} if a.kwarg else set())

    def stmt_of(self, node: ast.AST) -> ast.stmt:
        while not isinstance(node, ast.stmt):
            node = self.parent[id(node)]
        return node

    def bindings_in(self, node: ast.AST, name: str) -> list:
        out = []
        for st in ast.walk(node):
            if isinstance(st, (ast.Assign, ast.AnnAssign)) and getattr(st, "value", None) is not None:
                for t in (st.targets if isinstance(st, ast.Assign) else [st.target]):
                    if isinstance(t, ast.Name) and t.id == name:
                        out.append(st.value)
                    elif not isinstance(t, ast.Name):
                        for sub in ast.walk(t):
                            if isinstance(sub, ast.Name) and isinstance(sub.ctx, ast.Store) and sub.id == name:
                                out.append(None)
            elif isinstance(st, ast.NamedExpr) and st.target.id == name:
                out.append(st.value)
            elif isinstance(st, (ast.For, ast.comprehension)) and any(isinstance(x, ast.Name) and x.id == name for x in ast.walk(st.target)):
                out.append(None)
            elif isinstance(st, (ast.MatchAs, ast.MatchStar)) and st.name == name:
                out.append(None)
        return out

    def fresh_at(self, name: str, at: ast.AST, depth: int = 0) -> bool:
        if depth > 20:
            return False
        stmt = self.stmt_of(at)
        # a walrus in the very statement (e.g. "if (x := f()).attr") binds before use
        for b in self.bindings_in(stmt, name) if not isinstance(stmt, (ast.For, ast.If, ast.Match, ast.With, ast.While, ast.FunctionDef)) else []:
            pass
        node: ast.AST = stmt
        while True:
            par = self.parent.get(id(node))
            if par is None:
                return False
            block = None
            for fld in ("body", "orelse", "finalbody"):
                b = getattr(par, fld, None)
                if isinstance(b, list) and any(x is node for x in b):
                    block = b
            if block is not None:
                idx = next(i for i, x in enumerate(block) if x is node)
                ok_so_far = True
                for prev in reversed(block[:idx]):
                    bs = self.bindings_in(prev, name)
                    if not bs:
                        continue
                    all_fresh = all(b is not None and _fresh_expr(b, self, self.repo, prev) for b in bs)
                    simple = isinstance(prev, (ast.Assign, ast.AnnAssign, ast.Expr))
                    if isinstance(prev, (ast.If, ast.While)) and self.bindings_in(prev.test, name):
                        simple = True  # a walrus in the test is evaluated unconditionally
                    if simple:
                        return ok_so_far and all_fresh
                    ok_so_far = ok_so_far and all_fresh  # conditional re-binding: need the earlier definitions too
                if not ok_so_far:
                    return False
                # the test of an enclosing "if"/"while" may bind with a walrus
                if isinstance(par, (ast.If, ast.While)):
                    bs = self.bindings_in(par.test, name)
                    if bs:
                        return all(b is not None and _fresh_expr(b, self, self.repo, par) for b in bs)
            if isinstance(par, ast.match_case):
                if self.bindings_in(par.pattern, name):
                    return False
            if isinstance(par, ast.For) and any(isinstance(x, ast.Name) and x.id == name for x in ast.walk(par.target)):
                return False
            if par is self.fn:
                return False if name in self.params else False
            node = par if isinstance(par, (ast.stmt, ast.match_case)) else node if False else par


def _fresh_names(fn: ast.FunctionDef, repo: Repo) -> set[str]:
    """Names every binding of which (in this function) is an allocation: flow-insensitive but binding-complete."""
    bindings: dict[str, list] = {}
    a = fn.args
    for p in a.posonlyargs + a.args + a.kwonlyargs + ([a.vararg] if a.vararg else []) + ([a.kwarg] if a.kwarg else []):
        bindings.setdefault(p.arg, []).append(None)
    for st in ast.walk(fn):
        if isinstance(st, (ast.Assign, ast.AnnAssign)) and st.value is not None:
            for t in (st.targets if isinstance(st, ast.Assign) else [st.target]):
                if isinstance(t, ast.Name):
                    bindings.setdefault(t.id, []).append(st.value)
                else:
                    for sub in ast.walk(t):
                        if isinstance(sub, ast.Name) and isinstance(sub.ctx, ast.Store):
                            bindings.setdefault(sub.id, []).append(None)
        elif isinstance(st, ast.NamedExpr):
            bindings.setdefault(st.target.id, []).append(st.value)
        elif isinstance(st, (ast.For, ast.comprehension)):
            for sub in ast.walk(st.target):
                if isinstance(sub, ast.Name):
                    bindings.setdefault(sub.id, []).append(None)
        elif isinstance(st, ast.MatchAs) and st.name:
            bindings.setdefault(st.name, []).append(None)
        elif isinstance(st, ast.MatchStar) and st.name:
            bindings.setdefault(st.name, []).append(None)
        elif isinstance(st, ast.AugAssign) and isinstance(st.target, ast.Name):
            bindings.setdefault(st.target.id, []).append("aug")
    fresh: set[str] = set()
    changed = True
    while changed:
        changed = False
        for n, bs in bindings.items():
            if n in fresh:
                continue
            if bs and all(b == "aug" or (b is not None and _fresh_expr(b, fresh, repo)) for b in bs) and any(b != "aug" for b in bs):
                fresh.add(n)
                changed = True
    return fresh


def _callers_pass_fresh(repo: Repo, method: str) -> bool:
    for fi in repo.all_functions():
        fresh = Fresh(fi.node, repo)
        for st in ast.walk(fi.node):
            if isinstance(st, ast.Call) and isinstance(st.func, ast.Attribute) and st.func.attr == method:
                a = st.args[0] if st.args else None
                if not (isinstance(a, ast.Name) and fresh.fresh_at(a.id, st)):
                    return False
    return True


# ---------------------------------------------------------------------------------------------- determinism
def determinism_obligations(repo: Repo) -> list[OblResult]:
    out = []
    for name, mod in repo.modules.items():
        for n in ast.walk(mod.tree):
            mods = []
            if isinstance(n, ast.Import):
                mods = [a.name.split(".")[0] for a in n.names]
            elif isinstance(n, ast.ImportFrom) and n.level == 0 and n.module:
                mods = [n.module.split(".")[0]]
            for m in mods:
                if m in AMBIENT_MODULES:
                    out.append(_o(f"determinism/{name}-imports-{m}", False, f"{name} imports {m} (ambient state)", n.lineno, name))
    out.append(_o("determinism/no-ambient-imports", not out, "", None))
    return out


def scan(repo: Repo, reg, tier):
    res = hash_obligations(repo) + frame_obligations(repo) + determinism_obligations(repo)
    return res, ["user-supplied column tags, literal values and leaf 'parameters' are hashable",
                 "SQLAlchemy objects are not mutated by the builder calls (generative API)",
                 "intraprocedural freshness analysis: a container is 'allocated in this call' if bound from a display, comprehension, list()/set()/dict()/tuple(), a constructor call, .copy() or dataclasses.replace",
                 "byte-identical SQL text across calls is not checked beyond purity of the producing functions"]


# ---------------------------------------------------------------------------------------------- hashability of stored values
_FV = None


def _frozen_work(key):
    res, meta = _FV.verify_function(key)
    return key, [r.to_json() for r in res], meta.get("error")


def frozen_field_obligations(repo: Repo, reg, tier):
    """Hashability at the value level: every construction, anywhere in the library, of a frozen dataclass that has a
    compared field declared ``frozenset[...]`` stores a frozenset there (a ``set`` compares equal but makes the object and
    every relation containing it unhashable).  The obligations are generated by the symbolic executor while it runs the
    real bodies of the functions that contain such a construction (set / frozenset kinds are tracked through ``|``,
    ``-``, ``&`` -- the result has the type of the LEFT operand -- calls, fields and parameters)."""
    import multiprocessing as mp

    from pyvc.contracts import Registry
    from pyvc.verify import ERROR, PROVED, OblResult, Verifier, expand_keys
    from spec.vocab import Spec

    global _FV
    classes = {c.name for c in repo.all_classes() if c.is_dataclass and c.dc_frozen and c.dc_eq
               and any(f.compare and not f.initvar and ast.unparse(f.annotation).replace(" ", "").startswith("frozenset[") for f in c.all_fields())}
    for c in list(repo.all_classes()):
        if any(b.name in classes for b in c.mro):
            classes.add(c.name)
    reg2 = Registry()
    reg2.load("c20", "sqlsel", "processor", "iteration")
    sites = {}
    for fi in repo.all_functions():
        n = 0
        for nd in ast.walk(fi.node):
            if isinstance(nd, ast.Call):
                f = nd.func
                name = f.id if isinstance(f, ast.Name) else (f.attr if isinstance(f, ast.Attribute) else "")
                if name in classes or name == "replace" or (name == "cls" and fi.cls is not None and fi.cls.name in classes):
                    n += 1
        if fi.node.returns is not None and ast.unparse(fi.node.returns).replace(" ", "").replace('"', "").replace("'", "").startswith("frozenset["):
            n += 1  # declared to return a frozenset: callers rely on it
        if n:
            sites[fi.key] = n
    verifiable = []
    for pid in sorted({p for c in reg2.contracts.values() for p in c.properties}):
        for k2 in expand_keys(repo, reg2, pid):
            if k2 in sites and k2 not in verifiable:
                verifiable.append(k2)
    uncovered = sorted(k for k in sites if k not in verifiable)
    _FV = Verifier(repo, reg2, Spec, timeout_ms=5000)
    _FV.only_kinds = {"frozen-field"}
    out = []
    with mp.get_context("fork").Pool(min(16, max(1, len(verifiable)))) as pool:
        for key, res, err in pool.imap_unordered(_frozen_work, verifiable):
            if err:
                out.append(OblResult(f"C09/stored-frozenset/{key}", key, "stored-frozenset", "", "subset", ERROR, reason=err[:300]))
            for r in res:
                if r["kind"] != "frozen-field":
                    continue
                out.append(OblResult(f"C09/stored-frozenset/{key}/{r['clause']}", key, r["clause"], r["path"], "scan", r["status"] if r["status"] == PROVED else "refuted",
                                     solver="pyvc (kind tracking)", lineno=r.get("lineno"),
                                     reason="" if r["status"] == PROVED else f"{key} line {r.get('lineno')}: a set that is not statically a frozenset is stored in a field declared frozenset[...] ({r['clause']}, path {r['path'][-80:]})"))
    # functions without a contract: a syntactic rule decides their construction sites (the argument for each frozenset
    # field is missing -- the default is a frozenset -- or literally a ``frozenset(...)`` call)
    still = []
    for key in uncovered:
        fi = repo.func(key)
        decided = True
        for nd in ast.walk(fi.node):
            if not isinstance(nd, ast.Call):
                continue
            f = nd.func
            name = f.id if isinstance(f, ast.Name) else (f.attr if isinstance(f, ast.Attribute) else "")
            if name == "replace" or (name == "cls" and fi.cls is not None and fi.cls.name in classes):
                if name == "replace" and not any(kw.arg in ("columns", "min_columns", "max_columns") for kw in nd.keywords):
                    continue  # replaces other fields only: the frozenset fields are copied from an existing object
                decided = False
                continue
            if name not in classes:
                continue
            ci = repo.cls(name)
            flds = [x for x in ci.all_fields() if x.init]
            pos = [x for x in flds if not x.kw_only]
            for idx, x in enumerate(flds):
                if not (x.compare and ast.unparse(x.annotation).replace(" ", "").startswith("frozenset[")):
                    continue
                arg = None
                if x in pos and pos.index(x) < len(nd.args):
                    arg = nd.args[pos.index(x)]
                for kw in nd.keywords:
                    if kw.arg == x.name:
                        arg = kw.value
                ok = arg is None or (isinstance(arg, ast.Call) and isinstance(arg.func, ast.Name) and arg.func.id == "frozenset")
                out.append(OblResult(f"C09/stored-frozenset/{key}/construct {name}/field-{x.name}-holds-a-frozenset", key, f"construct {name}/field-{x.name}", "", "scan",
                                     PROVED if ok else "refuted", solver="ast-scan", lineno=nd.lineno,
                                     reason="" if ok else f"{key} line {nd.lineno}: the argument for {name}.{x.name} is not literally a frozenset(...) call"))
        if fi.node.returns is not None and "frozenset[" in ast.unparse(fi.node.returns) and not all(
                isinstance(r.value, ast.Attribute) or (isinstance(r.value, ast.Call) and isinstance(r.value.func, ast.Name) and r.value.func.id == "frozenset")
                for r in ast.walk(fi.node) if isinstance(r, ast.Return) and r.value is not None):
            decided = False
        if not decided:
            still.append(key)
    uncovered = still
    if len([o for o in out if o.kind == "scan"]) < 10:
        out.append(OblResult("C09/stored-frozenset/vacuity", "scan", "construction-sites-found", "", "vacuity", ERROR, reason=f"only {len(out)} construction obligations generated"))
    return out, ["functions that construct a frozenset-bearing dataclass but have no contract (their construction sites are not covered by the stored-frozenset obligations): " + ", ".join(uncovered)]
