"""C20: ill-formed requests are rejected at the factory call with the documented error (remaining pieces:
constructors and BaseRelation.__getitem__; the operation/engine checks live in apply.py / binary.py)."""
from __future__ import annotations

import z3

from pyvc import smt
from pyvc.smt import SV, TBool, TOptInt, TRefT
from spec import vocab as V
from contracts.apply import A, B, cid, cols

is_slice = z3.Function("is_slice", smt.Ref, smt.BoolS)
sl_start = z3.Function("slice_start", smt.Ref, smt.OptInt)
sl_stop = z3.Function("slice_stop", smt.Ref, smt.OptInt)
sl_step = z3.Function("slice_step", smt.Ref, smt.OptInt)


def _getattr_any(ex, obj, attr, st, node):
    f = {"start": sl_start, "stop": sl_stop, "step": sl_step}.get(attr)
    if f is not None and ex.frame.fi is not None and ex.frame.fi.name == "__getitem__":
        return ex.ok(SV(TOptInt, f(obj.z)), st)
    return None


def _builtin(ex, name, args, kwargs, st, node):
    from pyvc.state import Builtin

    if name == "isinstance" and len(args) == 2 and isinstance(args[1], Builtin) and args[1].name == "slice" and isinstance(args[0], SV):
        return ex.ok(SV(TBool, is_slice(args[0].z)), st)
    return None


def register(reg):
    reg.load("apply", "binary")
    reg.add_hook("getattr_any", _getattr_any)
    reg.add_hook("builtin", _builtin)
    P = ("C20",)
    none = smt.OptInt.is_oi_none
    val = smt.OptInt.oi_val

    # Slice(start, stop): negative or reversed windows are rejected with ValueError, nothing else is
    k = reg.contract("_operations._slice:Slice.__post_init__", properties=P)
    bad = lambda c: z3.Or(c.field("start").z < 0, z3.And(z3.Not(none(c.field("stop").z)), val(c.field("stop").z) < c.field("start").z))  # noqa: E731
    k.must("negative-or-reversed-slice-rejected", "ValueError", lambda c: B(bad(c)))
    k.raises("ValueError", lambda c: B(bad(c)))

    # relation[key]
    k = reg.contract("_relation:BaseRelation.__getitem__", properties=P)
    k.req("target-columns-truthful", lambda c: B(cols(c, c.self.z) == V.rcols(V.rows(c.self.z))))
    key = lambda c: c.key.z  # noqa: E731
    step_bad = lambda c: z3.Not(z3.Or(none(sl_step(key(c))), val(sl_step(key(c))) == 1))  # noqa: E731
    start = lambda c: z3.If(none(sl_start(key(c))), 0, val(sl_start(key(c))))  # noqa: E731
    win_bad = lambda c: z3.Or(start(c) < 0, z3.And(z3.Not(none(sl_stop(key(c)))), val(sl_stop(key(c))) < start(c)))  # noqa: E731
    k.must("non-slice-index-rejected", "TypeError", lambda c: B(z3.Not(is_slice(key(c)))))
    k.must("stepped-slice-rejected", "TypeError", lambda c: B(z3.And(is_slice(key(c)), step_bad(c))))
    k.must("negative-or-reversed-slice-rejected", "ValueError", lambda c: B(z3.And(is_slice(key(c)), z3.Not(step_bad(c)), win_bad(c))))
    k.raises("TypeError", lambda c: B(z3.Or(z3.Not(is_slice(key(c))), step_bad(c))))
    k.raises("ValueError", lambda c: B(win_bad(c)))
    k.raises("EngineError", None)
    k.raises("RelationalAlgebraError", None)
    k.raises("NotImplementedError", None)
    k.ens("rows-are-the-positional-window", lambda c: B(V.rows(c.result.z) == V.s_slice(start(c), sl_stop(key(c)), V.rows(c.self.z))))

    # Calculation(tag, expression): an expression without columns is rejected
    k = reg.contract("_operations._calculation:Calculation.__post_init__", properties=P)
    k.must("constant-calculation-rejected", "ColumnError", lambda c: B(V.fv(c.field("expression").z) == smt.EMPTY_TAGS))
    k.raises("ColumnError", lambda c: B(V.fv(c.field("expression").z) == smt.EMPTY_TAGS))

    # Join(min_columns, max_columns)
    k = reg.contract("_operations._join:Join.__post_init__", properties=P)
    jbad = lambda c: z3.And(z3.Not(smt.OptTagSet.is_ots_none(c.field("max_columns").z)),  # noqa: E731
                            z3.Not(z3.IsSubset(c.field("min_columns").z, smt.OptTagSet.ots_val(c.field("max_columns").z))))
    k.must("min-columns-outside-max-columns-rejected", "ColumnError", lambda c: B(jbad(c)))
    k.raises("ColumnError", lambda c: B(jbad(c)))

    k = reg.contract("_operations._join:Join.partial", properties=P)
    pbad = lambda c: z3.Not(z3.IsSubset(A(c, "Join", "min_columns")(c.self.z), cols(c, c.fix.z)))  # noqa: E731
    k.must("partial-join-on-missing-columns-rejected", "ColumnError", lambda c: B(pbad(c)))
    k.raises("ColumnError", lambda c: B(pbad(c)))
    k.ens("wraps-this-join-and-operand", lambda c: B(z3.And(A(c, "PartialJoin", "binary")(c.result.z) == c.self.z, A(c, "PartialJoin", "fixed")(c.result.z) == c.fix.z,
                                                            A(c, "PartialJoin", "fixed_is_lhs")(c.result.z) == c.is_lhs.z)))

    # function nodes need at least one argument
    for key_ in ("_columns._expression:ColumnFunction.__post_init__", "_columns._expression:PredicateFunction.__post_init__"):
        k = reg.contract(key_, properties=P)
        nargs = lambda c: V.SeqRef.info.len(c.field("args").z)  # noqa: E731
        k.must("function-without-arguments-rejected", "RelationalAlgebraError", lambda c: B(nargs(c) == 0))
        k.raises("RelationalAlgebraError", lambda c: B(nargs(c) == 0))

    # LeafRelation(min_rows, max_rows)
    k = reg.contracts["_leaf_relation:LeafRelation.__post_init__"]
    k.properties = tuple(sorted(set(k.properties) | {"C20"}))
    lbad = lambda c: z3.And(z3.Not(none(c.field("max_rows").z)), val(c.field("max_rows").z) < c.field("min_rows").z)  # noqa: E731
    k.must("inconsistent-row-bounds-rejected", "ValueError", lambda c: B(lbad(c)))
    k.may_raise["ValueError"] = lambda c: B(lbad(c))
