"""Leaves the library builds itself (session 4).

C06 takes "leaf relations declare truthful columns and row bounds" as its hypothesis -- rightly for leaves the *user* declares
(``make_leaf`` of the SQL engine: the bounds are the user's), but the library also builds leaves on its own:
``LeafRelation.make_doomed`` / ``make_join_identity`` (through ``Engine.make_doomed_relation`` / ``make_join_identity_relation``,
and by the Processor's and the factories' short-cuts) and the iteration engine's ``make_leaf``, which derives the bounds from the
payload.  For those the hypothesis is an obligation: the declared columns and bounds are exactly those of the payload the leaf is
given.  A leaf's rows are, by definition, what its payload holds (``rows(leaf) == content(payload)`` -- the payload invariant of
contracts/iteration.py read at the new leaf).
"""
from __future__ import annotations

import z3

from pyvc import smt
from spec import vocab as V
from contracts.apply import A, B, cid, cols, eng
from contracts.iteration import payload_heap

some = smt.OptInt.oi_some


def register(reg):
    reg.load("processor")
    P = ("C06",)
    mn = lambda c, z: A(c, "BaseRelation", "min_rows")(z)  # noqa: E731
    mx = lambda c, z: A(c, "BaseRelation", "max_rows")(z)  # noqa: E731
    pay = lambda c: z3.Select(payload_heap(c), c.result.z)  # noqa: E731
    leaf = lambda c: smt.typ(c.result.z) == cid(c, "LeafRelation")  # noqa: E731

    k = reg.contract("_leaf_relation:LeafRelation.make_doomed", properties=P)
    k.ens("a-leaf-in-the-engine-with-the-requested-columns-declaring-no-rows",
          lambda c: B(z3.And(leaf(c), eng(c, c.result.z) == c.engine.z, cols(c, c.result.z) == c.columns.z, mn(c, c.result.z) == 0, mx(c, c.result.z) == some(z3.IntVal(0)))))
    k.ens("the-payload-it-carries-holds-no-rows-over-those-columns",
          lambda c: B(z3.And(pay(c) != smt.NONE, V.content(pay(c)) == V.REMPTY(c.columns.z))))

    k = reg.contract("_leaf_relation:LeafRelation.make_join_identity", properties=P)
    k.ens("a-leaf-in-the-engine-without-columns-declaring-exactly-one-row",
          lambda c: B(z3.And(leaf(c), eng(c, c.result.z) == c.engine.z, cols(c, c.result.z) == smt.EMPTY_TAGS, mn(c, c.result.z) == 1, mx(c, c.result.z) == some(z3.IntVal(1)))))
    k.ens("the-payload-it-carries-holds-the-one-empty-row", lambda c: B(z3.And(pay(c) != smt.NONE, V.content(pay(c)) == V.RUNIT)))

    k = reg.contract("_engine:Engine.make_doomed_relation", properties=P)
    k.ens("a-leaf-in-this-engine-with-the-requested-columns-declaring-no-rows",
          lambda c: B(z3.And(leaf(c), eng(c, c.result.z) == c.self.z, cols(c, c.result.z) == c.columns.z, mn(c, c.result.z) == 0, mx(c, c.result.z) == some(z3.IntVal(0)))))
    k.ens("the-payload-it-carries-holds-no-rows-over-those-columns",
          lambda c: B(z3.And(pay(c) != smt.NONE, V.content(pay(c)) == V.REMPTY(c.columns.z))))

    k = reg.contract("_engine:Engine.make_join_identity_relation", properties=P)
    k.ens("a-leaf-in-this-engine-without-columns-declaring-exactly-one-row",
          lambda c: B(z3.And(leaf(c), eng(c, c.result.z) == c.self.z, cols(c, c.result.z) == smt.EMPTY_TAGS, mn(c, c.result.z) == 1, mx(c, c.result.z) == some(z3.IntVal(1)))))
    k.ens("the-payload-it-carries-holds-the-one-empty-row", lambda c: B(z3.And(pay(c) != smt.NONE, V.content(pay(c)) == V.RUNIT)))

    # the iteration engine derives a leaf's bounds from the payload it is given
    k = reg.contract("iteration._engine:Engine.make_leaf", properties=P)
    n = lambda c: V.rlen(V.content(c.payload.z))  # noqa: E731
    k.req("a-payload-is-given", lambda c: B(c.payload.z != smt.NONE))
    # truthful, not necessarily tight (the property asks for truthful bounds; a weaker bound is not a violation)
    k.ens("a-leaf-in-this-engine-with-the-requested-columns-whose-bounds-hold-for-the-payload",
          lambda c: B(z3.And(leaf(c), eng(c, c.result.z) == c.self.z, cols(c, c.result.z) == c.columns.z, mn(c, c.result.z) <= n(c),
                             z3.Or(smt.OptInt.is_oi_none(mx(c, c.result.z)), n(c) <= smt.OptInt.oi_val(mx(c, c.result.z))))))
    k.ens("carries-the-given-payload", lambda c: B(pay(c) == c.payload.z))
