"""C12 (iteration side) / C01: the callables built by iteration.Engine.convert_column_expression /
convert_column_container / convert_predicate compute exactly the expression's / container's / predicate's value.

These three functions return *closures*.  Their contract is about what the closure does when it is later applied to a
row:   denotes_x(f, e)  :=  for every row rho (having e's columns):  f(rho) == value of e on rho,   likewise
denotes_p (truthiness of f(rho) == value of the predicate) and denotes_c (membership in f(rho) == membership in the
container).  To prove it from the body, the returned lambda (the real AST, with the environment it captured) is executed
symbolically on the one row that matters: the Skolem witness of the negated goal (``not denotes(f, e)`` gives a row on
which they differ).  Sub-callables obtained from recursive calls enter through the contract (induction on the
expression tree); ``function(*values)`` for the function returned by ``get_function(name)`` is the named operator
(assumed contract of get_function, shared with the SQL side), restricted like there to the portable operator set.

Python values added to the model:  a stored callable applied to a row is ``capp(f, rho)`` (an int; bools as 0/1,
literal value objects through ``lit_int``);  ``operator.itemgetter(t)(row)`` is ``row[t]`` (KeyError unless the row
has t);  ``x in range(a, b, s)`` has Python's meaning;  ``{c(row) for c in callables}`` is the set of those values.
"""
from __future__ import annotations

import ast

import z3

from pyvc import smt
from pyvc.smt import SV, TBool, TInt, TRange, TRefT, TSeqT, TStr, TTag
from pyvc.state import Closure, ModuleVal, PyList, PyTuple, PyVal, Res, StarSeq
from pyvc.types import OutsideSubset, TCallable
from spec import vocab as V
from contracts.apply import A, B, cid
from contracts.rowiter import PyRow
from contracts.sqlexpr import ARITH, CMP, opname, portable

Row = V.Row
SeqI = TSeqT(TInt)
cin = z3.Function("cin", smt.Ref, smt.IntS, Row, smt.BoolS)  # v in f(rho), for a container-valued callable f
denotes_c = z3.Function("denotes_c", smt.Ref, smt.Ref, smt.BoolS)
wit_dx = z3.Function("wit_denotes_x", smt.Ref, smt.Ref, Row)
wit_dp = z3.Function("wit_denotes_p", smt.Ref, smt.Ref, Row)
wit_dcr = z3.Function("wit_denotes_c_row", smt.Ref, smt.Ref, Row)
wit_dcv = z3.Function("wit_denotes_c_val", smt.Ref, smt.Ref, smt.IntS)
FUNCS = ("convert_column_expression", "convert_column_container", "convert_predicate")


class TContainerCallableT(smt.TD):
    sort = smt.Ref
    name = "container-callable"

    def truthy(self, sv):
        return sv.z != smt.NONE


TContainerCallable = TContainerCallableT()


class PyItemGetter(PyVal):
    def __init__(self, tag):
        self.tag = tag


class PyContainerOf(PyVal):
    """The container a container-valued callable returns on a row."""

    def __init__(self, cl, rho):
        self.cl, self.rho = cl, rho


class PyIntSet(PyVal):
    """A set of ints given by a symbolic sequence of its elements."""

    def __init__(self, seq):
        self.seq = seq


class PyBoundOp(PyVal):
    """``getattr(x, name)`` for an int x: the named operator method bound to x."""

    def __init__(self, name, x):
        self.name, self.x = name, x


def denote_axioms(ex):
    f, e = z3.Const("f", smt.Ref), z3.Const("e", smt.Ref)
    rho = z3.Const("rho", Row)
    v = z3.Int("v")
    ax = []
    ax.append(z3.ForAll([f, e, rho], z3.Implies(V.denotes_x(f, e), V.capp(f, rho) == V.evx(e, rho)), patterns=[z3.MultiPattern(V.denotes_x(f, e), V.capp(f, rho))]))
    w = wit_dx(f, e)
    ax.append(z3.ForAll([f, e], z3.Implies(z3.Not(V.denotes_x(f, e)), V.capp(f, w) != V.evx(e, w)), patterns=[V.denotes_x(f, e)]))
    ax.append(z3.ForAll([f, e, rho], z3.Implies(V.denotes_p(f, e), (V.capp(f, rho) != 0) == V.ev(e, rho)), patterns=[z3.MultiPattern(V.denotes_p(f, e), V.capp(f, rho))]))
    w = wit_dp(f, e)
    ax.append(z3.ForAll([f, e], z3.Implies(z3.Not(V.denotes_p(f, e)), (V.capp(f, w) != 0) != V.ev(e, w)), patterns=[V.denotes_p(f, e)]))
    ax.append(z3.ForAll([f, e, v, rho], z3.Implies(denotes_c(f, e), cin(f, v, rho) == V.in_cont(e, v, rho)), patterns=[z3.MultiPattern(denotes_c(f, e), cin(f, v, rho))]))
    wr, wv = wit_dcr(f, e), wit_dcv(f, e)
    ax.append(z3.ForAll([f, e], z3.Implies(z3.Not(denotes_c(f, e)), cin(f, wv, wr) != V.in_cont(e, wv, wr)), patterns=[denotes_c(f, e)]))
    return ax


def _in_convert(ex):
    return any(fr.fi is not None and fr.fi.name in FUNCS and fr.fi.key.startswith("iteration._engine:") for fr in ex.frames)


def _op_value(name, x0, x1, boolean):
    """Value of the operator / method called ``name`` on x0 (and x1): spec/vocab.py's reading of ColumnFunction /
    PredicateFunction (uninterpreted outside the portable names)."""
    if boolean:
        z = V.pfun(name, x0, x1)
        for nm, f in (("__eq__", x0 == x1), ("__ne__", x0 != x1), ("__lt__", x0 < x1), ("__le__", x0 <= x1), ("__gt__", x0 > x1), ("__ge__", x0 >= x1)):
            z = z3.If(name == z3.StringVal(nm), f, z)
        return SV(TBool, z)
    z = V.xfun(name, x0, x1)
    for nm, f in (("__neg__", -x0), ("__add__", x0 + x1), ("__sub__", x0 - x1), ("__mul__", x0 * x1)):
        z = z3.If(name == z3.StringVal(nm), f, z)
    return SV(TInt, z)


def _as_int(v):
    if isinstance(v, SV) and v.td == TInt:
        return v.z
    if isinstance(v, SV) and v.td == TBool:
        return z3.If(v.z, 1, 0)
    if isinstance(v, SV) and v.z.sort() == smt.Ref:
        return V.lit_int(v.z)  # a literal's value object, read as the integer it stands for
    raise OutsideSubset(f"value of a column expression: {v!r}")


def _first_two(args):
    """(x0, x1) of an argument list given as python-level ints and / or one starred symbolic sequence."""
    xs = []
    for a in args:
        if isinstance(a, StarSeq):
            s = a.seq
            if s.z.sort() != SeqI.sort:
                return None
            k = 0
            while len(xs) < 2:
                xs.append(SeqI.info.at(s.z, k))
                k += 1
            break
        xs.append(_as_int(a))
    while len(xs) < 2:
        xs.append(xs[0] if xs else z3.IntVal(0))
    return xs[0], xs[1]


def _call_value(ex, callee, args, kwargs, st, node):
    if not _in_convert(ex):
        return None
    boolean = ex.frames[-1].fi is not None and ex.frames[-1].fi.name == "convert_predicate" or any(fr.fi is not None and fr.fi.name == "convert_predicate" for fr in ex.frames[-2:])
    if isinstance(callee, SV) and callee.td == TContainerCallable and len(args) == 1 and isinstance(args[0], PyRow):
        return ex.ok(PyContainerOf(callee.z, args[0].z), st)
    if isinstance(callee, SV) and isinstance(callee.td, TRefT) and callee.td != TCallable and not kwargs and args and not isinstance(args[0], PyRow):
        # the function returned by get_function(name), applied to the argument values
        xs = _first_two(args)
        if xs is None:
            return None
        return ex.ok(_op_value(opname(callee.z), xs[0], xs[1], boolean), st)
    return None


def _call_pyval(ex, callee, args, kwargs, st, node):
    """Calls of python-level callables introduced here (reached through the ``foreign_call`` hook is not possible for
    them, so ``call`` is extended through the hook below)."""
    return None


def _foreign_call(ex, callee, args, kwargs, st, node):
    name = callee.name if isinstance(callee, ModuleVal) else ""
    if name == "operator.itemgetter" and len(args) == 1 and isinstance(args[0], SV) and args[0].td == TTag:
        return ex.ok(PyItemGetter(args[0]), st)
    return None


def apply_callable(ex, f, row, st, node):
    """Apply a python-level callable value to a row."""
    if isinstance(f, PyItemGetter):
        has = z3.IsMember(f.tag.z, row.keys)
        out = []
        if ex.feasible(st, z3.Not(has)):
            s2 = st.fork().assume(z3.Not(has))
            s2.path.append("row-lacks-the-referenced-column")
            out.extend(ex.raise_("KeyError", s2, node, "row lacks the referenced column"))
        s3 = st.assume(has)
        out.extend(ex.ok(SV(TInt, V.row_get(row.z, f.tag.z)), s3))
        return out
    if isinstance(f, Closure) and isinstance(f.node, ast.Lambda):
        return ex.call_closure(f, [row], {}, st, node)
    if isinstance(f, SV) and f.td == TCallable:
        # a callable obtained from a (recursive) convert_* call, handed on as it is
        return ex.ok(SV(TInt, V.capp(f.z, row.z)), st)
    raise OutsideSubset(f"callable value {f!r}", node)


def _builtin(ex, name, args, kwargs, st, node):
    if not _in_convert(ex):
        return None
    if name == "getattr" and len(args) == 2 and isinstance(args[0], SV) and args[0].td in (TInt, TBool) and isinstance(args[1], SV) and args[1].td == TStr:
        return ex.ok(PyBoundOp(args[1].z, _as_int(args[0])), st)
    return None


def _call_any(ex, callee, args, kwargs, st, node):
    return None


custom_function = z3.Function("engine_has_custom_function", smt.Ref, z3.StringSort(), z3.BoolSort())


def _contains(ex, container, item, st, node):
    if isinstance(container, SV) and isinstance(container.td, TRefT) and z3.is_app(container.z) and container.z.decl().name().endswith(".functions") \
            and container.z.num_args() == 1 and isinstance(item, SV) and item.td == smt.TStr:
        # ``name in self.functions``: whether the engine was given its own implementation of the name -- left open (both answers explored)
        return custom_function(container.z.arg(0), item.z)
    if isinstance(container, PyContainerOf) and isinstance(item, SV):
        return cin(container.cl, _as_int(item), container.rho)
    if isinstance(container, SV) and container.td == TRange and isinstance(item, SV):
        v = _as_int(item)
        a, b, s = smt.Range.r_start(container.z), smt.Range.r_stop(container.z), smt.Range.r_step(container.z)
        return z3.If(s > 0, z3.And(a <= v, v < b, (v - a) % s == 0), z3.And(s < 0, b < v, v <= a, (a - v) % (-s) == 0))
    if isinstance(container, PyIntSet) and isinstance(item, SV):
        k = z3.Int(smt.fresh_name("k"))
        return z3.Exists([k], z3.And(0 <= k, k < SeqI.info.len(container.seq.z), SeqI.info.at(container.seq.z, k) == _as_int(item)))
    return None


def _seq_comprehension(ex, node, gen, it, s, kind):
    """``{c(row) for c in callables}``: the set of the values (as the sequence of its elements)."""
    if kind != "set" or not _in_convert(ex):
        return None
    lc = ast.ListComp(elt=node.elt, generators=node.generators)
    ast.copy_location(lc, node)
    rs = ex.seq_map(lc, gen, it, s, "list")
    out = []
    for r in rs:
        if r.kind == "ok" and isinstance(r.value, SV) and r.value.z.sort() == SeqI.sort:
            out.append(Res("ok", PyIntSet(r.value), r.state))
        else:
            raise OutsideSubset("set comprehension of something other than column values", node)
    return out


def _unpack(ex, target, value, st, node):
    """``first, *rest = (convert(arg) for arg in args)``"""
    if not (isinstance(value, Closure) and isinstance(value.node, ast.GeneratorExp) and isinstance(target, (ast.Tuple, ast.List))):
        return None
    elts = target.elts
    if not (len(elts) == 2 and isinstance(elts[0], ast.Name) and isinstance(elts[1], ast.Starred) and isinstance(elts[1].value, ast.Name)):
        return None
    g = value.node
    lc = ast.ListComp(elt=g.elt, generators=g.generators)
    ast.copy_location(lc, g)
    s2 = st.fork()
    s2.env = dict(value.env)
    rs = ex.comprehension(lc, s2, "list")
    if len(rs) != 1 or rs[0].kind != "ok" or not (isinstance(rs[0].value, SV) and isinstance(rs[0].value.td, TSeqT)):
        raise OutsideSubset("star-unpacking of a generator that is not a simple map", node)
    seq, s3 = rs[0].value, rs[0].state
    info = seq.td.info
    # the caller's state object is updated in place (assign_target convention)
    st.pc[:] = s3.pc
    st.ghost = s3.ghost
    empty = info.len(seq.z) < 1
    if ex.feasible(st, empty):
        return ex.raise_("ValueError", st.fork().assume(empty), node, "not enough values to unpack")
    st.assume(z3.Not(empty))
    st.env = dict(st.env)
    st.env[elts[0].id] = ex.seq_elem(seq, z3.IntVal(0), st)
    tail = smt.fresh_const("tail", seq.td.sort)
    i = z3.Int(smt.fresh_name("ti"))
    st.assume(info.len(tail) == info.len(seq.z) - 1)
    st.assume(z3.ForAll([i], z3.Implies(z3.And(0 <= i, i < info.len(tail)), info.at(tail, i) == info.at(seq.z, i + 1)), patterns=[info.at(tail, i)]))
    st.env[elts[1].value.id] = SV(seq.td, tail, True)
    return True


def _call_hook(ex, fi, recv, args, kwargs, st, node):
    return None


def _finish_outcomes(ex, fi, k, outcomes):
    """The result of convert_* is a closure: its outcome is the callable object together with what applying it to the
    witness row gives."""
    if not (fi.key.startswith("iteration._engine:") and fi.name in FUNCS):
        return None
    what = {"convert_column_expression": "expression", "convert_column_container": "expression", "convert_predicate": "predicate"}[fi.name]
    e = ex.frame.ctx.args[what]
    out = []
    for r in outcomes:
        if r.kind != "return":
            out.append(r)
            continue
        st = r.state
        f = r.value
        cl = smt.fresh_const("callable", smt.Ref)
        st.assume(cl != smt.NONE)
        if fi.name == "convert_column_container":
            rho, vv = wit_dcr(cl, e.z), wit_dcv(cl, e.z)
        else:
            rho = wit_dx(cl, e.z) if fi.name == "convert_column_expression" else wit_dp(cl, e.z)
        K = smt.fresh_const("row_keys", smt.TagSet)
        st.assume(z3.IsSubset(V.fv(e.z), K))  # rows handed to the callable have the columns the expression needs
        row = PyRow(K, rho)
        st.path.append("apply-the-returned-callable")
        for r2 in apply_callable(ex, f, row, st, r.node):
            if r2.kind != "ok":
                out.append(r2)
                continue
            s2 = r2.state
            if fi.name == "convert_column_container":
                c = _contains(ex, r2.value, SV(TInt, vv), s2, r.node)
                if c is None:
                    raise OutsideSubset(f"container value {r2.value!r}", r.node)
                s2.assume(cin(cl, vv, rho) == c)
                out.append(Res("return", SV(TContainerCallable, cl), s2, node=r.node))
            else:
                s2.assume(V.capp(cl, rho) == _as_int(r2.value))
                out.append(Res("return", SV(TCallable, cl), s2, node=r.node))
    return out


def _call_bound(ex, callee, args, kwargs, st, node):
    return None


def register(reg):
    reg.load("sqlexpr", "rowiter")
    for name, fn in (("call_value", _call_value), ("foreign_call", _foreign_call), ("builtin", _builtin), ("contains", _contains),
                     ("seq_comprehension", _seq_comprehension), ("unpack", _unpack), ("finish_outcomes", _finish_outcomes), ("call_pyval", _call_pyvalue)):
        reg.add_hook(name, fn)
    if denote_axioms not in reg.global_axioms:
        reg.global_axioms.append(denote_axioms)
    P = ("C12", "C01")
    pre = lambda what: (lambda c: B(portable(getattr(c, what).z)))  # noqa: E731
    k = reg.contract("iteration._engine:Engine.convert_column_expression", assumed=False, properties=P, result_td=TCallable, note="")
    k.requires.clear(), k.ensures.clear()
    k.req("portable-operator-set", pre("expression"))
    k.ens("denotes-the-expression", lambda c: B(z3.And(c.result.z != smt.NONE, V.denotes_x(c.result.z, c.expression.z))))
    k = reg.contract("iteration._engine:Engine.convert_predicate", assumed=False, properties=P, result_td=TCallable, note="")
    k.requires.clear(), k.ensures.clear()
    k.req("portable-operator-set", pre("predicate"))
    k.ens("denotes-the-predicate", lambda c: B(z3.And(c.result.z != smt.NONE, V.denotes_p(c.result.z, c.predicate.z))))
    k = reg.contract("iteration._engine:Engine.convert_column_container", properties=P, result_td=TContainerCallable)
    k.req("portable-operator-set", pre("expression"))
    k.ens("denotes-the-container", lambda c: B(z3.And(c.result.z != smt.NONE, denotes_c(c.result.z, c.expression.z))))


def _call_pyvalue(ex, callee, args, kwargs, st, node):
    """Calls whose callee is a python-level value of this module."""
    if isinstance(callee, PyItemGetter) and len(args) == 1 and isinstance(args[0], PyRow):
        return apply_callable(ex, callee, args[0], st, node)
    if isinstance(callee, PyBoundOp):
        boolean = any(fr.fi is not None and fr.fi.name == "convert_predicate" for fr in ex.frames[-2:])
        xs = _first_two(args)
        x1 = xs[0] if xs is not None else callee.x
        return ex.ok(_op_value(callee.name, callee.x, x1, boolean), st)
    return None
