"""C10: payloads are write-once."""
from __future__ import annotations

import ast

import z3

from pyvc import smt
from pyvc.smt import SV, TBool
from pyvc.verify import PROVED, REFUTED, OblResult


def B(z):
    return SV(TBool, z)


def payload_heap(c, old=False):
    st = c.old if old else c.state
    return c.ex.heap_array(st, "BaseRelation.payload", smt.Ref)


def register(reg):
    P = ("C10", "C07")
    k = reg.contract("_marker_relation:MarkerRelation.attach_payload", properties=P, modifies=("BaseRelation.payload",))
    old_p = lambda c: z3.Select(payload_heap(c, True), c.self.z)  # noqa: E731
    new_p = lambda c: z3.Select(payload_heap(c), c.self.z)  # noqa: E731
    o = z3.Const("o", smt.Ref)
    frame = lambda c: z3.ForAll([o], z3.Implies(o != c.self.z, z3.Select(payload_heap(c), o) == z3.Select(payload_heap(c, True), o)),  # noqa: E731
                                patterns=[z3.Select(payload_heap(c), o)])
    k.ens("empty-marker-gets-the-payload", lambda c: B(new_p(c) == c.payload.z))
    k.ens("only-this-markers-cell-written", lambda c: B(frame(c)))
    from contracts.apply import extends
    k.ens("keeps-every-existing-payload", lambda c: B(extends(payload_heap(c, True), payload_heap(c))))
    k.must("non-empty-payload-rejected", "TypeError", lambda c: B(old_p(c) != smt.NONE))
    k.raises("TypeError", lambda c: B(old_p(c) != smt.NONE))
    k.exc_ens("rejected-attach-changes-nothing", lambda c: B(payload_heap(c) == payload_heap(c, True)))

    k = reg.contract("_relation:BaseRelation.attach_payload", properties=P)
    k.must("always-rejected", "TypeError", lambda c: B(z3.BoolVal(True)))
    k.raises("TypeError", None)
    k.exc_ens("rejected-attach-changes-nothing", lambda c: B(payload_heap(c) == payload_heap(c, True)))


def scan_payload_writes(repo, reg, tier):
    """Frame scan (DESIGN 4/C10): the only statement of the library that writes a ``payload`` attribute of an
    existing object is the one in MarkerRelation.attach_payload."""
    results = []
    sites = []
    for fi in repo.all_functions():
        for n in ast.walk(fi.node):
            hit = None
            if isinstance(n, ast.Call) and ast.unparse(n.func) in ("object.__setattr__", "setattr") and len(n.args) >= 2:
                a1 = n.args[1]
                if not (isinstance(a1, ast.Constant) and a1.value != "payload"):
                    hit = ast.unparse(n)
            elif isinstance(n, (ast.Assign, ast.AugAssign, ast.AnnAssign)):
                for t in (n.targets if isinstance(n, ast.Assign) else [n.target]):
                    for sub in ast.walk(t):
                        if isinstance(sub, ast.Attribute) and sub.attr == "payload" and isinstance(sub.ctx, ast.Store):
                            hit = ast.unparse(n)
            elif isinstance(n, ast.Call) and isinstance(n.func, ast.Attribute) and n.func.attr == "__dict__":
                hit = ast.unparse(n)
            elif isinstance(n, ast.Attribute) and n.attr == "__dict__":
                hit = "__dict__ access: " + ast.unparse(n)
            elif isinstance(n, ast.Delete):
                hit = ast.unparse(n)
            if hit is not None:
                sites.append((fi.key, n.lineno, hit))
    allowed = {"_marker_relation:MarkerRelation.attach_payload"}
    for key, line, text in sites:
        ok = key in allowed and "payload" in text
        # writes to other attribute names inside __post_init__ are construction, not payload writes
        if not ok and '"payload"' not in text and "'payload'" not in text and ".payload" not in text and "__dict__" not in text and "del " not in text:
            continue
        results.append(OblResult(f"scan/payload-write@{key}", key, f"payload-write-site line {line}: {text[:80]}", "", "scan",
                                 PROVED if ok else REFUTED, solver="ast-scan", lineno=line,
                                 reason="" if ok else f"payload written outside attach_payload: {text[:120]}"))
    if not any(r.status == PROVED for r in results):
        results.append(OblResult("scan/payload-write", "scan", "attach_payload-write-present", "", "scan", REFUTED, solver="ast-scan",
                                 reason="the write in MarkerRelation.attach_payload was not found"))
    return results, ["reflection (vars(), __dict__ of foreign objects, ctypes) is not used to write payloads beyond what the AST scan sees"]
