"""C06: static metadata (columns, row bounds, triviality flags) is truthful.

Truthfulness is the attribute contract of ``columns`` / ``min_rows`` / ``max_rows`` on every
relation class: assumed for sub-relations (induction over the tree) and for leaves (the
property's hypothesis), proved for every property implementation and, where the attribute is
a stored field, at every construction site.
"""
from __future__ import annotations

import z3

from pyvc import smt
from pyvc.smt import SV, And, If, Implies, Not, Or, TBool, TInt, TOptInt, TTagSet
from spec import vocab as V


def rlen_rows(c, rel):
    return SV(TInt, V.rlen(V.rows(rel.z)))


def sem_rows(c, op, target):
    return V.sem(op.z, V.rows(target.z))


def bsem_rows(c, op, lhs, rhs):
    return V.bsem(op.z, V.rows(lhs.z), V.rows(rhs.z))


def min_ok(res, X):
    return SV(TBool, res.z <= V.rlen(X))


def max_ok(res, X):
    return SV(TBool, z3.Or(smt.OptInt.is_oi_none(res.z), V.rlen(X) <= smt.OptInt.oi_val(res.z)))


def register(reg):
    reg.load("op_slice")
    P = ("C06",)
    # ---------------------------------------------------------------- attribute contracts
    a = reg.contract("attr:BaseRelation.min_rows")
    a.ens("truthful-min", lambda c: min_ok(c.result, V.rows(c.self.z)))
    a = reg.contract("attr:BaseRelation.max_rows")
    a.ens("truthful-max", lambda c: max_ok(c.result, V.rows(c.self.z)))
    a = reg.contract("attr:BaseRelation.columns")
    a.ens("truthful-columns", lambda c: SV(TBool, c.result.z == V.rcols(V.rows(c.self.z))))

    for cls, mod in (("UnaryOperationRelation", "_operation_relations"), ("BinaryOperationRelation", "_operation_relations"),
                     ("MarkerRelation", "_marker_relation")):
        for attr, ac in (("min_rows", "attr:BaseRelation.min_rows"), ("max_rows", "attr:BaseRelation.max_rows")):
            k = reg.contract(f"{mod}:{cls}.{attr}", attr=True, properties=P)
            k.ensures = list(reg.contracts[ac].ensures)
    k = reg.contract("_marker_relation:MarkerRelation.columns", attr=True, properties=P)
    k.ensures = list(reg.contracts["attr:BaseRelation.columns"].ensures)
    # stored ``columns`` fields: truthful at every construction site (leaves: hypothesis)
    col_inv = lambda c, o: SV(TBool, c.attr(o, "columns").z == V.rcols(V.rows(o.z)))  # noqa: E731
    reg.object_invariant("UnaryOperationRelation", "columns-truthful", col_inv)
    reg.object_invariant("BinaryOperationRelation", "columns-truthful", col_inv)
    # leaves: the property's hypothesis; markers: consequence of the (proved) MarkerRelation.columns contract
    reg.object_invariant("LeafRelation", "declared-columns-truthful", col_inv, assumed_only=True)
    reg.object_invariant("MarkerRelation", "columns-truthful", col_inv, assumed_only=True)

    # ---------------------------------------------------------------- operations
    k = reg.contract("_unary_operation:UnaryOperation.applied_min_rows", virtual=True, pure=True, properties=P)
    k.ens("truthful-min", lambda c: min_ok(c.result, sem_rows(c, c.self, c.target)))
    k = reg.contract("_unary_operation:UnaryOperation.applied_max_rows", virtual=True, pure=True, properties=P)
    k.ens("truthful-max", lambda c: max_ok(c.result, sem_rows(c, c.self, c.target)))
    k = reg.contract("_unary_operation:UnaryOperation.applied_columns", virtual=True, pure=True, properties=P)
    k.ens("truthful-columns", lambda c: SV(TBool, c.result.z == V.rcols(sem_rows(c, c.self, c.target))))

    k = reg.contract("_binary_operation:BinaryOperation.applied_min_rows", virtual=True, pure=True, properties=P)
    k.ens("truthful-min", lambda c: min_ok(c.result, bsem_rows(c, c.self, c.lhs, c.rhs)))
    k = reg.contract("_binary_operation:BinaryOperation.applied_max_rows", virtual=True, pure=True, properties=P)
    k.ens("truthful-max", lambda c: max_ok(c.result, bsem_rows(c, c.self, c.lhs, c.rhs)))
    k = reg.contract("_binary_operation:BinaryOperation.applied_columns", virtual=True, pure=True, properties=P)
    k.ens("truthful-columns", lambda c: SV(TBool, c.result.z == V.rcols(bsem_rows(c, c.self, c.lhs, c.rhs))))

    # ---------------------------------------------------------------- triviality flags
    # definitional clauses: the global definitions of these pure attributes (contracts/apply.py: attr_axioms) are exactly
    # what the property bodies are proved to compute
    def marker_def(attr):
        def f(c):
            tgt = c.attr(c.self, "target")
            return SV(TBool, z3.Implies(c.ex.types.is_instance_z(c.self.z, c.ex.repo.cls("MarkerRelation")), c.result.z == c.attr(tgt, attr).z))
        return f

    for attr in ("min_rows", "max_rows", "columns"):
        reg.contracts[f"_marker_relation:MarkerRelation.{attr}"].ens(f"is-the-targets-{attr}", marker_def(attr))
    k = reg.contract("_relation:BaseRelation.is_join_identity", attr=True, properties=P)
    k.ens("definition", lambda c: SV(TBool, c.result.z == z3.And(c.attr(c.self, "columns").z == smt.EMPTY_TAGS,
                                                                 c.attr(c.self, "max_rows").z == smt.OptInt.oi_some(z3.IntVal(1)), c.attr(c.self, "min_rows").z == 1)))
    k.ens("flag-implies-content", lambda c: SV(TBool, z3.Implies(c.result.z, V.rows(c.self.z) == V.RUNIT)))
    k = reg.contract("_relation:BaseRelation.is_trivial", attr=True, properties=P)
    k.ens("definition", lambda c: SV(TBool, c.result.z == z3.Or(c.attr(c.self, "is_join_identity").z, c.attr(c.self, "max_rows").z == smt.OptInt.oi_some(z3.IntVal(0)))))
    k.ens("flag-implies-content", lambda c: SV(TBool, z3.Implies(c.result.z, z3.Or(V.rows(c.self.z) == V.RUNIT, V.rlen(V.rows(c.self.z)) == 0))))
