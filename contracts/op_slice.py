"""Contracts for lsst.daf.relation._operations._slice (C05 slices, C06, C20)."""
from __future__ import annotations

import z3

from pyvc import smt
from pyvc.smt import SV, And, If, Implies, Not, Or, TInt, TBool, TOptInt


def wf_slice(c, s):
    """Slice.__post_init__'s class invariant: start >= 0 and (stop is None or stop >= start)."""
    start, stop = c.attr(s, "start"), c.attr(s, "stop")
    return And(start >= 0, Or(stop.is_none(), stop.val() >= start))


def win_len(c, s, n):
    """Number of rows X[start:stop] keeps from a sequence of length n (n >= 0)."""
    start, stop = c.attr(s, "start"), c.attr(s, "stop")
    hi = If(stop.is_none(), n, SV(TInt, smt.zmin(stop.val().z, n.z)))
    return SV(TInt, smt.zmax((hi - start).z, z3.IntVal(0)))


def register(reg):
    reg.replay["_operations._slice:Slice.then"] = lambda *a: _replay_then(*a)
    # class invariant established by Slice.__post_init__ (proved at every construction site)
    reg.object_invariant("Slice", "wf", lambda c, o: wf_slice(c, o))
    k = reg.contract("_operations._slice:Slice.then", properties=("C05",))
    k.req("wf-self", lambda c: wf_slice(c, c.self))
    k.req("wf-next", lambda c: wf_slice(c, c.next))
    # no exception at all: merging two individually valid slices never rejects (C05)
    k.ens("result-wf", lambda c: wf_slice(c, c.result))
    k.ens(
        "window-length",
        lambda c: c.forall(
            [(TInt, "n")],
            lambda n: Implies(n >= 0, win_len(c, c.result, n).eq(win_len(c, c.next, win_len(c, c.self, n)))),
        ),
    )
    k.ens(
        "window-offset",
        lambda c: c.forall(
            [(TInt, "n"), (TInt, "j")],
            lambda n, j: Implies(
                And(n >= 0, j >= 0, j < win_len(c, c.result, n)),
                (c.attr(c.result, "start") + j).eq(c.attr(c.self, "start") + (c.attr(c.next, "start") + j)),
            ),
        ),
    )


def _replay_then(model, clause, res):
    import json

    return f"""import sys; sys.path.insert(0, '/verif/replay')
from lib import *
MODEL = {model!r}
a, b = build(MODEL['self']), build(MODEL['next'])
print('inputs:', a, b)
try:
    r = a.then(b)
except Exception as e:
    reproduced(f'{{a!r}}.then({{b!r}}) raised {{type(e).__name__}}: {{e}} (clause {clause})')
for n in range(0, 12):
    xs = list(range(n))
    if xs[a.start:a.stop][b.start:b.stop] != xs[r.start:r.stop]:
        reproduced(f'{{a!r}}.then({{b!r}}) = {{r!r}} selects different rows for n={{n}}')
not_reproduced()
"""


