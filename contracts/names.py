"""C19: generated relation names are unique across all calls and threads, and start with the prefix."""
from __future__ import annotations

import ast

import z3

from pyvc import smt
from pyvc.smt import SV, TBool, TInt, TRefT, TStr
from pyvc.state import Builtin, ModuleVal, Opaque

fmt04 = z3.Function("format_04d", smt.IntS, smt.StrS)  # format(n, "04d"): no property of it is used
uuid_hex = z3.Function("uuid_hex", smt.Ref, smt.StrS)  # .hex of a UUID object: 32 characters


def B(z):
    return SV(TBool, z)


def _foreign_call(ex, callee, args, kwargs, st, node):
    name = callee.name if isinstance(callee, ModuleVal) else getattr(callee, "what", "")
    return None


def _builtin(ex, name, args, kwargs, st, node):
    if name == "uuid.uuid4":
        # assumed contract of uuid.uuid4 (DESIGN 4/C19): returns a value never issued before
        u = SV(TRefT(None), smt.fresh_const("uuid", smt.Ref), fresh=True)
        issued = list(st.ghost.get("issued", []))
        st.assume(u.z != smt.NONE, z3.Length(uuid_hex(u.z)) == 32)
        for other in issued:
            st.assume(uuid_hex(u.z) != uuid_hex(other))
        st.ghost["issued"] = issued + [u.z]
        st.ghost["last_uuid"] = u.z
        return ex.ok(u, st)
    if name == "any.hex" and args and isinstance(args[0], SV):
        return ex.ok(SV(TStr, uuid_hex(args[0].z)), st)
    return None


def _getattr_any(ex, obj, attr, st, node):
    if attr == "hex" and isinstance(obj, SV):
        return ex.ok(SV(TStr, uuid_hex(obj.z)), st)
    if attr == "hex" and isinstance(obj, Opaque):
        # .hex of an object that did not come from uuid.uuid4() (e.g. uuid.UUID(int=random.getrandbits(128))): some string, about which
        # nothing is known -- in particular it is not a value "never issued before"
        return ex.ok(SV(TStr, z3.String(smt.fresh_name("some_hex"))), st)
    return None


def _fstring(ex, node, st):
    """Exact model of the f-string in GenericConcreteEngine.get_relation_name only."""
    fi = ex.frame.fi
    if fi is None or fi.name != "get_relation_name":
        return None
    parts = [Res0(z3.StringVal(""))]
    results = [([], st)]
    acc = z3.StringVal("")
    cur = st
    for v in node.values:
        if isinstance(v, ast.Constant):
            acc = z3.Concat(acc, z3.StringVal(v.value))
            continue
        rs = ex.ev(v.value, cur)
        if len(rs) != 1 or rs[0].kind != "ok":
            return None
        val, cur = rs[0].value, rs[0].state
        spec = ast.unparse(v.format_spec) if v.format_spec is not None else ""
        if isinstance(val, SV) and val.td == TStr and not spec:
            acc = z3.Concat(acc, val.z)
        elif isinstance(val, SV) and val.td == TInt and "04d" in spec:
            acc = z3.Concat(acc, fmt04(val.z))
        else:
            return None
    return ex.ok(SV(TStr, acc), cur)


class Res0:
    def __init__(self, z):
        self.z = z


def name_shape(c, res_z, prefix_z):
    """result = prefix ++ "_" ++ <counter text> ++ "_" ++ hex(u) for the uuid u issued by this very call."""
    if c.mode == "assume":
        # a caller sees: some uuid never issued before was drawn by the call
        _builtin(c.ex, "uuid.uuid4", [], {}, c.state, None)
    u = c.state.ghost.get("last_uuid")
    if u is None:
        return z3.BoolVal(False)
    h = uuid_hex(u)
    mid = z3.String(smt.fresh_name("mid")) if c.mode == "assume" else None
    return z3.And(z3.PrefixOf(prefix_z, res_z), z3.SuffixOf(h, res_z), z3.Length(h) == 32)


def _slice(ex, v, sl, st, node):
    """``s[a:b]`` of a string with constant non-negative bounds."""
    if not (isinstance(v, SV) and v.td == TStr) or sl.step is not None:
        return None

    def const(n):
        if n is None:
            return None
        if isinstance(n, ast.Constant) and isinstance(n.value, int) and n.value >= 0:
            return n.value
        rs = ex.ev(n, st)
        if len(rs) == 1 and rs[0].kind == "ok" and isinstance(rs[0].value, SV) and z3.is_int_value(rs[0].value.z) and rs[0].value.z.as_long() >= 0:
            return rs[0].value.z.as_long()
        raise _Unmodelled()

    try:
        lo, hi = const(sl.lower) or 0, const(sl.upper)
    except _Unmodelled:
        return None
    n = z3.Length(v.z)
    end = n if hi is None else z3.If(n < hi, n, z3.IntVal(hi))
    ln = z3.If(end - lo > 0, end - lo, z3.IntVal(0))
    return ex.ok(SV(TStr, z3.SubString(v.z, z3.IntVal(lo), ln)), st)


class _Unmodelled(Exception):
    pass


def register(reg):
    P = ("C19",)
    reg.add_hook("slice", _slice)
    reg.add_hook("builtin", _builtin)
    reg.add_hook("getattr_any", _getattr_any)
    reg.add_hook("fstring", _fstring)
    k = reg.contract("_engine:Engine.get_relation_name", virtual=True, properties=P, modifies=("Engine.relation_name_counter",))
    k.ens("starts-with-prefix", lambda c: B(z3.PrefixOf(c.prefix.z, c.result.z)))
    k.ens("ends-with-this-calls-uuid", lambda c: B(name_shape(c, c.result.z, c.prefix.z)))

    # a leaf without an explicit name gets exactly such a generated name, with the requested prefix
    k = reg.contract("_leaf_relation:LeafRelation.__post_init__", properties=P)
    k.raises("ValueError", None)
    k.ens("explicit-name-kept", lambda c: B(z3.Implies(z3.Length(c.field("name", old=True).z) > 0, c.field("name").z == c.field("name", old=True).z)))
    k.ens("generated-name-has-prefix-and-fresh-uuid",
          lambda c: B(z3.Implies(z3.Length(c.field("name", old=True).z) == 0,
                                 z3.And(z3.PrefixOf(c.name_prefix.z, c.field("name").z),
                                        z3.SuffixOf(uuid_hex(c.state.ghost["last_uuid"]), c.field("name").z) if "last_uuid" in c.state.ghost else z3.BoolVal(False)))))

    # a materialization without an explicit name gets exactly such a generated name (nothing is done to it on the way);
    # an explicit name is kept.  (The other clauses of this contract are in contracts/apply.py.)
    from pyvc.types import OptStr

    def mat_name(c):
        return c.ex.types.attr_symbol(c.ex.repo.cls("Materialization"), "name", TStr)(c.result.z)

    def is_new(c):
        return z3.And(c.result.z != c.target.z, smt.typ(c.result.z) == c.ex.types.cid(c.ex.repo.cls("Materialization")))

    k = reg.contract("_engine:Engine.materialize")
    k.ens("explicit-name-kept", lambda c: B(z3.Implies(z3.And(is_new(c), OptStr.is_os_some(c.name.z)), mat_name(c) == OptStr.os_val(c.name.z))))
    k.ens("generated-name-has-prefix-and-fresh-uuid",
          lambda c: B(z3.Implies(z3.And(is_new(c), OptStr.is_os_none(c.name.z)),
                                 z3.And(z3.PrefixOf(c.name_prefix.z, mat_name(c)),
                                        z3.SuffixOf(uuid_hex(c.state.ghost["last_uuid"]), mat_name(c)) if "last_uuid" in c.state.ghost else z3.BoolVal(False)))))

    # lemma (spec level, discharged by the string solver): names ending in different 32-character
    # suffixes are different, whatever precedes them (prefix, counter value, engine)
    def lemma_distinct(ex):
        a1, a2, h1, h2 = z3.Strings("a1 a2 h1 h2")
        hyps = [z3.Length(h1) == 32, z3.Length(h2) == 32, h1 != h2]
        return hyps, z3.Concat(a1, h1) != z3.Concat(a2, h2)

    reg.lemmas["C19/distinct-suffix-distinct-name"] = lemma_distinct
