"""C16: Diagnostics never dooms a non-empty relation; exact with a truthful executor."""
from __future__ import annotations

import z3

from pyvc import smt
from pyvc.smt import SV, TBool, TInt, TRefT
from spec import vocab as V

exec_says = z3.Function("exec_says", smt.Ref, smt.Ref, smt.BoolS)  # executor(relation) -> bool


def B(z):
    return SV(TBool, z)


def truthful(executor_z):
    s = z3.Const("s", smt.Ref)
    return z3.ForAll([s], exec_says(executor_z, s) == (V.rlen(V.rows(s)) > 0), patterns=[exec_says(executor_z, s)])


def _call_value(ex, callee, args, kwargs, st, node):
    # calling the ``executor`` callable: an uninterpreted boolean function of (executor, relation)
    if len(args) == 1 and isinstance(args[0], SV) and isinstance(args[0].td, TRefT):
        return ex.ok(SV(TBool, exec_says(callee.z, args[0].z)), st)
    return None


def register(reg):
    reg.load("meta", "predicates", "inv")
    reg.add_hook("call_value", _call_value)
    P = ("C16",)
    # is_empty_invariant: when it says True the operation keeps (non-)emptiness
    k = reg.contract("_unary_operation:UnaryOperation.is_empty_invariant", virtual=True, attr=True, properties=P)
    X = z3.Const("X", V.RS)
    k.ens("flag-sound", lambda c: B(z3.Implies(c.result.z, z3.ForAll([X], (V.rlen(V.sem(c.self.z, X)) == 0) == (V.rlen(X) == 0), patterns=[V.sem(c.self.z, X)]))))
    a = reg.contract("attr:UnaryOperation.is_empty_invariant")
    a.ensures = list(k.ensures)

    k = reg.contract("_diagnostics:Diagnostics.run", properties=P, fresh_result=True)
    k.req("executor-truthful-if-given", lambda c: B(z3.Or(c.executor.z == smt.NONE, truthful(c.executor.z))))
    empty = lambda c: V.rlen(V.rows(c.relation.z)) == 0  # noqa: E731
    k.ens("doomed-only-if-empty", lambda c: B(z3.Implies(c.attr(c.result, "is_doomed").z, empty(c))))
    k.ens("exact-with-executor", lambda c: B(z3.Implies(z3.And(c.executor.z != smt.NONE, empty(c)), c.attr(c.result, "is_doomed").z)))
    k.ens("doomed-has-message", lambda c: B(z3.Implies(c.attr(c.result, "is_doomed").z, c.attr(c.result, "messages").td.info.len(c.attr(c.result, "messages").z) >= 1)))
    k.raises("AssertionError", lambda c: B(z3.BoolVal(False)))
