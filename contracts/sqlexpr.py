"""C12 (SQL side): column expressions and predicates mean the same thing in the SQL engine.

The SQLAlchemy builder calls used by sql.Engine.convert_* get ASSUMED contracts over an abstract notion of
SQL term: ``sqx(term, row)`` / ``sqb(term, row)`` are the integer / boolean value of the term on a NULL-free
integer row under the stated SQL semantics (integer arithmetic mathematical, two-valued comparisons, AND/OR/NOT,
BETWEEN inclusive, IN (...), and ``%`` TRUNCATING toward zero as in SQLite/PostgreSQL).  Against that model every
match arm of convert_column_expression / convert_predicate is proved to denote the expression's value.
"""
from __future__ import annotations

import ast

import z3

from pyvc import smt
from pyvc.smt import SV, TBool, TInt, TRefT, TSeqT, TStr, TTag
from pyvc.state import Builtin, ModuleVal, Opaque, PyList, PyTuple, StarSeq
from spec import vocab as V
from contracts.apply import A, B, cid

Row = V.Row
sqx = z3.Function("sqx", smt.Ref, Row, smt.IntS)
sqb = z3.Function("sqb", smt.Ref, Row, smt.BoolS)
colget = z3.Function("colmap_get", smt.Ref, smt.Tag, smt.Ref)
colhas = z3.Function("colmap_has", smt.Ref, smt.Tag, smt.BoolS)
table_get = z3.Function("functions_get", smt.Ref, smt.StrS, smt.Ref)  # engine.functions.get(name)
opfun = z3.Function("operator_function", smt.StrS, smt.Ref)  # getattr(operator, name, engine.functions.get(name))
opname = z3.Function("operator_function_name", smt.Ref, smt.StrS)  # inverse of operator_function
portable = z3.Function("portable", smt.Ref, smt.BoolS)  # expression / predicate / container over the portable operator set
all_portable = z3.Function("all_portable", V.SeqRef.sort, smt.BoolS)
wit_port = z3.Function("wit_portable", V.SeqRef.sort, smt.IntS)
SeqI = V.SeqRef.info


class TSqlT(TRefT):
    """A SQLAlchemy column element / expression (opaque object with a denotation)."""

    def __init__(self):
        super().__init__(None, True)
        self.name = "sqlterm"


TSql = TSqlT()
ARITH = ("__neg__", "__add__", "__sub__", "__mul__")
CMP = ("__eq__", "__ne__", "__lt__", "__le__", "__gt__", "__ge__")


def tmod(a, b):
    """SQL remainder: sign follows the dividend (truncating division)."""
    ab = z3.If(b >= 0, b, -b)
    return z3.If(a >= 0, a % ab, -((-a) % ab))


def term(st, prefix="sql"):
    t = SV(TSql, smt.fresh_const(prefix, smt.Ref))
    st.assume(t.z != smt.NONE)
    return t


def is_sql(v):
    return isinstance(v, SV) and isinstance(v.td, TSqlT)


def _den(st, v, kind):
    """Denotation of a SQL term as an expression in rho: the expression recorded when this function built the term (so that
    composite terms are obtained by *substitution*, not through chains of equations), else the uninterpreted sqx / sqb."""
    rec = st.ghost.get("sqlden", {}).get((v.z.get_id(), kind))
    if rec is not None:
        return rec
    return (lambda rho, z=v.z: sqx(z, rho)) if kind == "x" else (lambda rho, z=v.z: sqb(z, rho))


def _record(st, t, kind, fn):
    d = dict(st.ghost.get("sqlden", {}))
    d[(t.z.get_id(), kind)] = fn
    st.ghost["sqlden"] = d
    rho = z3.Const("rho", Row)
    f = sqx if kind == "x" else sqb
    st.assume(z3.ForAll([rho], f(t.z, rho) == fn(rho), patterns=[f(t.z, rho)]))


def colmap_ok(m):
    t = z3.Const("t", smt.Tag)
    rho = z3.Const("rho", Row)
    g = colget(m, t)
    return z3.ForAll([t, rho], z3.And(sqx(g, rho) == V.row_get(rho, t), sqb(g, rho) == (V.row_get(rho, t) != 0)), patterns=[sqx(g, rho), sqb(g, rho)])


def colmap_covers(m, S):
    t = z3.Const("t", smt.Tag)
    return z3.ForAll([t], z3.Implies(z3.IsMember(t, S), colhas(m, t)), patterns=[colhas(m, t)])


# ------------------------------------------------------------------------------------------- executor hooks
def _in_sql_convert(ex):
    fi = ex.frame.fi
    return fi is not None and fi.module.endswith("sql._engine")


def _foreign_call(ex, callee, args, kwargs, st, node):
    name = callee.name if isinstance(callee, ModuleVal) else ""
    if not name.startswith("sqlalchemy.sql."):
        return None
    fn = name.split(".")[-1]
    rho = z3.Const("rho", Row)
    if fn == "literal" and len(args) == 1:
        v = args[0]
        t = term(st, "lit")
        if isinstance(v, SV) and v.td == TInt:
            _record(st, t, "x", lambda r, z=v.z: z)
        elif isinstance(v, SV) and v.td == TBool:
            _record(st, t, "b", lambda r, z=v.z: z)
        elif isinstance(v, SV) and v.z.sort() == smt.Ref:
            _record(st, t, "x", lambda r, z=v.z: V.lit_int(z))
        return ex.ok(t, st)
    if fn in ("and_", "or_"):
        t = term(st, fn)
        if len(args) == 1 and isinstance(args[0], StarSeq):
            s = args[0].seq.z
            i = z3.Int("i")
            rng = z3.And(0 <= i, i < SeqI.len(s))
            body = z3.ForAll([i], z3.Implies(rng, sqb(SeqI.at(s, i), rho)), patterns=[SeqI.at(s, i)]) if fn == "and_" else z3.Exists([i], z3.And(rng, sqb(SeqI.at(s, i), rho)))
            st.assume(z3.ForAll([rho], sqb(t.z, rho) == body, patterns=[sqb(t.z, rho)]))
            return ex.ok(t, st)
        items = []
        for a in args:
            if isinstance(a, StarSeq):
                return None
            items.append(a)
        if all(is_sql(a) for a in items):
            ds = [_den(st, a, "b") for a in items]
            if fn == "and_":
                _record(st, t, "b", lambda r, ds=ds: z3.And(*[d(r) for d in ds]) if ds else z3.BoolVal(True))
            else:
                _record(st, t, "b", lambda r, ds=ds: z3.Or(*[d(r) for d in ds]) if ds else z3.BoolVal(False))
            return ex.ok(t, st)
    if fn == "not_" and len(args) == 1 and is_sql(args[0]):
        t = term(st, "not")
        d0 = _den(st, args[0], "b")
        _record(st, t, "b", lambda r, d0=d0: z3.Not(d0(r)))
        return ex.ok(t, st)
    if fn == "between" and len(args) == 3 and all(is_sql(a) for a in args):
        t = term(st, "between")
        dx_, dlo, dhi = [_den(st, a, "x") for a in args]
        _record(st, t, "b", lambda r: z3.And(dlo(r) <= dx_(r), dx_(r) <= dhi(r)))
        return ex.ok(t, st)
    return None


def _index(ex, v, i, st, node):
    if isinstance(v, SV) and isinstance(v.td, TRefT) and isinstance(i, SV) and i.td == TTag and _in_sql_convert(ex):
        out = []
        has = colhas(v.z, i.z)
        if ex.feasible(st, z3.Not(has)):
            out.extend(ex.raise_("KeyError", st.fork().assume(z3.Not(has)), node, "column not available"))
        s2 = st.assume(has)
        out.extend(ex.ok(SV(TSql, colget(v.z, i.z)), s2))
        return out
    return None


def _binop(ex, op, a, b, st, node):
    if is_sql(a) and is_sql(b):
        da, db = _den(st, a, "x"), _den(st, b, "x")
        val = {ast.Mod: lambda r: tmod(da(r), db(r)), ast.Sub: lambda r: da(r) - db(r), ast.Add: lambda r: da(r) + db(r), ast.Mult: lambda r: da(r) * db(r)}.get(type(op))
        if val is None:
            return None
        t = term(st, type(op).__name__.lower())
        _record(st, t, "x", val)
        return ex.ok(t, st)
    return None


def _compare_term(ex, a, b, st, f):
    t = term(st, "cmp")
    da, db = _den(st, a, "x"), _den(st, b, "x")
    _record(st, t, "b", lambda r: f(da(r), db(r)))
    return t


def _compare(ex, op, a, b, st, node):
    """``sql_item == literal`` builds a SQL comparison term (SQLAlchemy overloads ==), it does not compare objects."""
    if is_sql(a) and is_sql(b) and isinstance(op, (ast.Eq, ast.NotEq)):
        t = _compare_term(ex, a, b, st, (lambda x, y: x == y) if isinstance(op, ast.Eq) else (lambda x, y: x != y))
        return ex.ok(t, st)
    return None


def _builtin(ex, name, args, kwargs, st, node):
    if name == "getattr" and len(args) == 3 and isinstance(args[0], ModuleVal) and args[0].name == "operator" and isinstance(args[1], SV) and args[1].td == TStr:
        # stdlib contract (assumed): getattr(operator, name, default) is the operator module's attribute of that name when it has
        # one -- opfun(name) != None -- and the default otherwise
        d = args[2]
        # the operator module's attributes are functions: truthy objects (``getattr(operator, name, None) or ...`` is an equivalent spelling)
        st.assume(z3.Implies(opfun(args[1].z) != smt.NONE, smt.truthy_obj(opfun(args[1].z))))
        if isinstance(d, SV) and d.z.eq(smt.NONE):
            return ex.ok(SV(TRefT(None, True), opfun(args[1].z)), st)
        if isinstance(d, SV) and isinstance(d.td, TRefT):
            return ex.ok(SV(TRefT(None, True), z3.If(opfun(args[1].z) != smt.NONE, opfun(args[1].z), d.z)), st)
        return ex.ok(SV(TRefT(None, True), opfun(args[1].z)), st)
    if name == "getattr" and len(args) == 2 and is_sql(args[0]) and isinstance(args[1], SV) and args[1].td == TStr:
        return ex.ok(Opaque("method of a SQL element selected by a non-operator name (outside the portable set)"), st)
    if name == "any.in_" and len(args) == 2 and is_sql(args[0]):
        rho = z3.Const("rho", Row)
        t = term(st, "in")
        seq = args[1]
        if isinstance(seq, PyList):
            zs = [sqx(x.z, rho) == sqx(args[0].z, rho) for x in seq.items]
            body = z3.Or(*zs) if zs else z3.BoolVal(False)
        elif isinstance(seq, SV) and isinstance(seq.td, TSeqT):
            k = z3.Int("k")
            body = z3.Exists([k], z3.And(0 <= k, k < SeqI.len(seq.z), sqx(SeqI.at(seq.z, k), rho) == sqx(args[0].z, rho)))
        else:
            return None
        st.assume(z3.ForAll([rho], sqb(t.z, rho) == body, patterns=[sqb(t.z, rho)]))
        return ex.ok(t, st)
    if name == "any.desc" and len(args) == 1 and is_sql(args[0]):
        return ex.ok(term(st, "desc"), st)
    if name == "any.get" and len(args) == 2 and isinstance(args[0], SV) and isinstance(args[0].td, TRefT) and z3.is_app(args[0].z) \
            and args[0].z.decl().name().endswith(".functions") and isinstance(args[1], SV) and args[1].td == TStr:
        # engine.functions.get(name): whatever the engine's own table holds for the name (an uninterpreted function of both), or None
        return ex.ok(SV(TRefT(None, True), table_get(args[0].z, args[1].z)), st)
    if name == "any.get" and len(args) >= 2 and _in_sql_convert(ex):
        return ex.ok(SV(TRefT(None, True), smt.NONE), st)  # self.functions.get(name): only reached through getattr's default
    return None


def _call_value(ex, callee, args, kwargs, st, node):
    """Calling the function returned by get_function(name) on SQL terms: the operator module's function applied to
    SQLAlchemy elements builds the corresponding SQL operator term (assumed for the portable names)."""
    if not (isinstance(callee, SV) and isinstance(callee.td, TRefT) and not is_sql(callee) and _in_sql_convert(ex)):
        return None
    name = opname(callee.z)
    rho = z3.Const("rho", Row)
    t = term(st, "opterm")
    if len(args) == 1 and isinstance(args[0], StarSeq):
        s = args[0].seq.z
        x0, x1 = sqx(SeqI.at(s, 0), rho), sqx(SeqI.at(s, 1), rho)
    else:
        xs = [sqx(a.z, rho) for a in args if is_sql(a)]
        if len(xs) != len(args) or not xs:
            return None
        x0, x1 = xs[0], xs[1] if len(xs) > 1 else xs[0]
    facts = []
    for nm, f in (("__neg__", -x0), ("__add__", x0 + x1), ("__sub__", x0 - x1), ("__mul__", x0 * x1)):
        facts.append(z3.Implies(name == z3.StringVal(nm), sqx(t.z, rho) == f))
    for nm, f in (("__eq__", x0 == x1), ("__ne__", x0 != x1), ("__lt__", x0 < x1), ("__le__", x0 <= x1), ("__gt__", x0 > x1), ("__ge__", x0 >= x1)):
        facts.append(z3.Implies(name == z3.StringVal(nm), sqb(t.z, rho) == f))
    st.assume(z3.ForAll([rho], z3.And(*facts), patterns=[sqx(t.z, rho), sqb(t.z, rho)]))
    return ex.ok(t, st)


def _equals(ex, a, b, st, node):
    return None


def _seq_comprehension(ex, node, gen, it, s, kind):
    return None


def portable_axioms(ex):
    class _C:
        pass
    c = _C()
    c.ex = ex
    x = z3.Const("x", smt.Ref)
    s = z3.Const("s", V.SeqRef.sort)
    i = z3.Int("i")
    ax = []
    ax.append(z3.ForAll([s, i], z3.Implies(z3.And(all_portable(s), 0 <= i, i < SeqI.len(s)), portable(SeqI.at(s, i))), patterns=[z3.MultiPattern(all_portable(s), SeqI.at(s, i))]))
    w = wit_port(s)
    ax.append(z3.ForAll([s], z3.Implies(z3.Not(all_portable(s)), z3.And(0 <= w, w < SeqI.len(s), z3.Not(portable(SeqI.at(s, w))))), patterns=[all_portable(s)]))

    def per(cls, body):
        ax.append(z3.ForAll([x], z3.Implies(smt.typ(x) == cid(c, cls), portable(x) == body), patterns=[portable(x)]))

    for cls in ("ColumnLiteral", "ColumnReference", "PredicateLiteral", "PredicateReference"):
        per(cls, z3.BoolVal(True))
    xa, xn = A(c, "ColumnFunction", "args")(x), A(c, "ColumnFunction", "name")(x)
    per("ColumnFunction", z3.And(all_portable(xa), z3.Or(z3.And(xn == z3.StringVal("__neg__"), SeqI.len(xa) == 1),
                                                         *[z3.And(xn == z3.StringVal(n), SeqI.len(xa) == 2) for n in ARITH[1:]])))
    pa, pn = A(c, "PredicateFunction", "args")(x), A(c, "PredicateFunction", "name")(x)
    per("PredicateFunction", z3.And(all_portable(pa), SeqI.len(pa) == 2, z3.Or(*[pn == z3.StringVal(n) for n in CMP])))
    per("LogicalNot", portable(A(c, "LogicalNot", "operand")(x)))
    per("LogicalAnd", all_portable(A(c, "LogicalAnd", "operands")(x)))
    per("LogicalOr", all_portable(A(c, "LogicalOr", "operands")(x)))
    per("ColumnInContainer", z3.And(portable(A(c, "ColumnInContainer", "item")(x)), portable(A(c, "ColumnInContainer", "container")(x))))
    per("ColumnRangeLiteral", smt.Range.r_step(A(c, "ColumnRangeLiteral", "value")(x)) != 0)
    per("ColumnExpressionSequence", all_portable(A(c, "ColumnExpressionSequence", "items")(x)))
    nm = z3.Const("nm", smt.StrS)
    ax.append(z3.ForAll([nm], opname(opfun(nm)) == nm, patterns=[opfun(nm)]))
    # the operator module has every portable name
    for n in ARITH + CMP:
        ax.append(opfun(z3.StringVal(n)) != smt.NONE)
    return ax


def register(reg):
    reg.load("c20")
    reg.add_hook("foreign_call", _foreign_call)
    reg.add_hook("index", _index)
    reg.add_hook("binop", _binop)
    reg.add_hook("compare", _compare)
    reg.add_hook("builtin", _builtin)
    reg.add_hook("call_value", _call_value)
    if portable_axioms not in reg.global_axioms:
        reg.global_axioms.append(portable_axioms)
    P = ("C12",)
    # session 4: verified from its body (was assumed); what stays assumed is the stdlib contract of getattr(operator, name, default)
    k = reg.contract("_engine:GenericConcreteEngine.get_function", assumed=False, properties=P, result_td=TRefT(None, True),
                     note="operator_function(name): getattr(operator, name, engine.functions.get(name)); a name the operator module has denotes the operator module's function, whatever the engine's own function table holds")
    k.ens("is-the-named-operator-function", lambda c: B(z3.Implies(opfun(c.name.z) != smt.NONE, c.result.z == opfun(c.name.z))))
    TRow = type("TRowT", (smt.TD,), {"sort": Row, "name": "row"})()

    def pre(k, what):
        k.req("columns-available-denote-the-columns", lambda c: B(colmap_ok(c.columns_available.z)))
        k.req("every-needed-column-is-available", lambda c: B(colmap_covers(c.columns_available.z, V.fv(getattr(c, what).z))))
        k.req("portable-operator-set", lambda c: B(portable(getattr(c, what).z)))

    k = reg.contract("sql._engine:Engine.convert_column_expression", properties=P + ("C08",), result_td=TSql)
    pre(k, "expression")
    k.ens("denotes-the-expressions-value", lambda c: c.forall([(TRow, "rho")], lambda rho: B(sqx(c.result.z, rho.z) == V.evx(c.expression.z, rho.z)),
                                                                patterns=lambda rho: [sqx(c.result.z, rho.z)]))

    def pred_cells(c):
        p = c.predicate.z
        t = smt.typ(p)
        cont = A(c, "ColumnInContainer", "container")(p)
        step = smt.Range.r_step(A(c, "ColumnRangeLiteral", "value")(cont))
        inr = z3.And(t == cid(c, "ColumnInContainer"), smt.typ(cont) == cid(c, "ColumnRangeLiteral"))
        out = [(n, t == cid(c, n)) for n in ("PredicateFunction", "LogicalAnd", "LogicalOr", "LogicalNot", "PredicateReference", "PredicateLiteral")]
        out += [("in-sequence", z3.And(t == cid(c, "ColumnInContainer"), smt.typ(cont) == cid(c, "ColumnExpressionSequence"))),
                ("in-range:ascending", z3.And(inr, step > 0)), ("in-range:step=-1", z3.And(inr, step == -1)), ("in-range:descending-with-modulo", z3.And(inr, step < -1))]
        return out

    k = reg.contract("sql._engine:Engine.convert_predicate", properties=P + ("C08",), result_td=TSql, split=pred_cells)
    pre(k, "predicate")
    def range_lemmas(c):
        """Instances of the integer laws (spec/laws.py) needed by the range-literal arm."""
        from spec.laws import instance

        p = c.predicate.z
        rho = c.forall([(TRow, "rho")], lambda rho: rho).z
        x = V.evx(A(c, "ColumnInContainer", "item")(p), rho)
        rng = A(c, "ColumnRangeLiteral", "value")(A(c, "ColumnInContainer", "container")(p))
        a, b, s = smt.Range.r_start(rng), smt.Range.r_stop(rng), smt.Range.r_step(rng)
        s2, d = -s, a - b - 1
        q = d / s2
        smallest = a + q * s
        # ascending ranges: congruence modulo the step; descending ranges: the Lean-proved rewriting lemma desc-range plus congruence
        # modulo -step at the smallest element.  (Earlier versions instantiated floor-division / emod-small-negative instead of
        # desc-range; their extra nonlinear products kept z3 from closing the descending cell.)
        return [B(instance("mod-congruence", x, a, s)), B(instance("mod-congruence", x, smallest, s2)), B(instance("desc-range", a, b, s, x))]

    def range_hints(c):
        """Descending range with |step| > 1: first (own obligation) 'the SQL term denotes membership in the ascending range from the
        smallest element', an evaluation of the builder calls plus congruence; the Lean-proved lemma desc-range then relates that to
        the specification's descending range.  (Vacuous in every other cell.)"""
        from spec.laws import instance

        p = c.predicate.z
        rho = c.forall([(TRow, "rho")], lambda rho: rho).z
        cont = A(c, "ColumnInContainer", "container")(p)
        x = V.evx(A(c, "ColumnInContainer", "item")(p), rho)
        rng = A(c, "ColumnRangeLiteral", "value")(cont)
        a, b, s = smt.Range.r_start(rng), smt.Range.r_stop(rng), smt.Range.r_step(rng)
        kk = -s
        m = a + ((a - b - 1) / kk) * s
        cell = z3.And(smt.typ(p) == cid(c, "ColumnInContainer"), smt.typ(cont) == cid(c, "ColumnRangeLiteral"), s < -1, b < a)
        asc_form = z3.And(m <= x, x <= a, (x - m) % kk == 0)
        return [B(z3.Implies(cell, sqb(c.result.z, rho) == asc_form)),
                B(z3.Implies(cell, V.ev(p, rho) == z3.And(b < x, x <= a, (a - x) % kk == 0)))]

    k.ens("denotes-the-predicates-value", lambda c: c.forall([(TRow, "rho")], lambda rho: B(sqb(c.result.z, rho.z) == V.ev(c.predicate.z, rho.z)),
                                                               patterns=lambda rho: [sqb(c.result.z, rho.z)]), lemmas=range_lemmas, hints=range_hints)
