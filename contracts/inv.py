"""Tree invariants (C14): class invariants of relation nodes, assumed for every existing node and
proved at every construction site in the library."""
from __future__ import annotations

import z3

from pyvc import smt
from pyvc.smt import SV, TBool
from spec import vocab as V


def B(z):
    return SV(TBool, z)


def register(reg):
    def unary_node_ops(c, o):
        op = c.attr(o, "operation").z
        bad = [c.ex.types.cid(c.ex.repo.cls(n)) for n in ("Identity", "PartialJoin")]
        return B(z3.And(*[smt.typ(op) != b for b in bad]))

    def binary_node_ops(c, o):
        op = c.attr(o, "operation").z
        return B(smt.typ(op) != c.ex.types.cid(c.ex.repo.cls("IgnoreOne")))

    reg.object_invariant("UnaryOperationRelation", "no-placeholder-operation", unary_node_ops)
    reg.object_invariant("BinaryOperationRelation", "no-placeholder-operation", binary_node_ops)

    # every operation node is well-formed on its target's columns (established by _begin_apply / commute)
    reg.object_invariant("UnaryOperationRelation", "operation-valid-on-target",
                         lambda c, o: B(V.uvalid(c.attr(o, "operation").z, c.attr(c.attr(o, "target"), "columns").z)))
