"""C01 / C18: the RowIterable classes of the iteration engine, proved from their bodies.

What ``iteration.Engine.execute`` relies on -- "iterating a CalculationRowIterable(target, tag, f) yields the rows of its
target with column ``tag`` computed by ``f``", and so on for every class -- used to be an assumed class contract that
was only bounded-checked.  Here each piece is an obligation generated from the current source of
iteration/_row_iterable.py:

* every ``__init__`` stores each argument in the attribute of the same name           (contract ``stores-its-arguments``)
* every ``__iter__`` yields exactly the class's row sequence                          (contract ``yields-the-class-rows``);
  generator expressions and generator functions are executed as the loops they are, with a ghost output sequence
  (``yield`` appends) and a sidecar loop invariant "output so far == operator applied to the first i rows of the
  source"; the step lemmas (``mapc-snoc``, ``filterc-snoc``, ``proj-snoc``, ``slice-snoc``, ``prefix-step`` ...) are
  laws of spec/laws.py, proved in Lean over the concrete model;
* ``to_mapping`` / ``to_sequence`` / ``materialized`` / ``sliced``: every implementation against its virtual contract;
* the attributes are assigned nowhere but in ``__init__`` (AST obligation), so "what iterating the object yields" is a
  function of the object: ``content(o)``.

From these the class lemmas  ``content(o) == F_C(attributes of o)``  follow and are what callers (``execute``) use.

Model of the Python values involved (DESIGN 2.2 additions):
  row (a ``dict`` tag -> value)      a key set and a total map  tag -> int  that is 0 outside the key set
  ``{**row, t: v}``                  key set + {t}; map updated at t (and masked to the new key set)
  ``{k: row[k] for k in S}``         KeyError unless S is a subset of the key set; key set S, map masked to S
  ``f(row)`` for a stored callable   ``capp(f, row)``: an integer (truthiness: != 0); callables are pure and total
  a list / dict-values view of rows  a row sequence (all rows over one column set)
  ``{key(row): row for row in X}``   with key = tuple(row[k] for k in K): the insertion-ordered dict fold, abstracted by
                                     its value sequence ``s_dedup_key(K, X)`` (that *is* the definition of the operator
                                     in lean/RelAlg/Spec.lean: first position, last value)
  ``itertools.chain.from_iterable``  lazy concatenation of what the elements yield
  ``for x in obj`` / ``list(obj)``   for a RowIterable ``obj``: the rows ``content(obj)``
"""
from __future__ import annotations

import ast

import z3

from pyvc import smt
from pyvc.smt import SV, TBool, TInt, TOptInt, TRefT, TSeqT, TTag, TTagSet
from pyvc.state import Builtin, Closure, PyDict, PyList, PyTuple, PyVal, Res, UnderConstruction
from pyvc.types import OutsideSubset, TCallable
from spec import vocab as V
from spec.laws import instance
from contracts.apply import B, cid

MOD = "iteration._row_iterable"
CLASSES = ("RowSequence", "RowMapping", "CalculationRowIterable", "ProjectionRowIterable", "SelectionRowIterable", "ChainRowIterable", "SliceRowIterable")

SeqTag = TSeqT(TTag)
SeqRef = V.SeqRef
tagseq_set = z3.Function("tagseq_set", SeqTag.sort, smt.TagSet)  # the set of elements of a tag sequence
chain_all = z3.Function("chain_all", SeqRef.sort, V.RS)  # what chain.from_iterable(seq of row iterables) yields

# attributes of the row iterable classes: pure functions of the object (assigned only in __init__: obligation below)
ATTR = {
    "target": (lambda ex: TRefT(ex.repo.cls("RowIterable")), z3.Function("ri.target", smt.Ref, smt.Ref)),
    "tag": (lambda ex: TTag, z3.Function("ri.tag", smt.Ref, smt.Tag)),
    "callable": (lambda ex: TCallable, z3.Function("ri.callable", smt.Ref, smt.Ref)),
    "columns": (lambda ex: TTagSet, z3.Function("ri.columns", smt.Ref, smt.TagSet)),
    "start": (lambda ex: TInt, z3.Function("ri.start", smt.Ref, smt.IntS)),
    "stop": (lambda ex: TOptInt, z3.Function("ri.stop", smt.Ref, smt.OptInt)),
    "rows": (lambda ex: V.TRS, z3.Function("ri.rows", smt.Ref, V.RS)),
    "unique_key": (lambda ex: TTagSet, z3.Function("ri.unique_key", smt.Ref, smt.TagSet)),
    "chain": (lambda ex: SeqRef, z3.Function("ri.chain", smt.Ref, SeqRef.sort)),
}


def at(name):
    return ATTR[name][1]


class TRowDictT(smt.TD):
    """A dict of rows (RowMapping.rows), abstracted by its value sequence: iterating it gives keys, not rows, so only
    ``.values()`` and ``len()`` are modelled."""

    sort = V.RS
    name = "rowdict"


TRowDict = TRowDictT()


class PyRow(PyVal):
    """A row dict: key set (z3 TagSet) and the total map it denotes (z3 Row)."""

    def __init__(self, keys, z):
        self.keys, self.z = keys, z
        self.fresh = True

    def __repr__(self):
        return f"PyRow<{self.z}>"


class PyRowDict(PyVal):
    """A dict of rows keyed on the columns K: abstracted by K and its value sequence."""

    def __init__(self, K, vals):
        self.K, self.vals = K, vals
        self.fresh = True


class PyEnumerate(PyVal):
    def __init__(self, src):
        self.src = src


class PyIterOf(PyVal):
    """iter(x) / a lazy chain: an iterator that will yield the rows ``z``."""

    def __init__(self, z):
        self.z = z


def is_ri(ex, ci):
    return ci is not None and ex.repo.cls("RowIterable") in ci.mro


def as_tagset(v):
    """A sequence / set of column tags as the set of its elements."""
    if isinstance(v, SV) and v.td == TTagSet:
        return v.z
    if isinstance(v, SV) and isinstance(v.td, TSeqT) and v.td.sort == SeqTag.sort:
        return tagseq_set(v.z)
    if isinstance(v, (PyTuple, PyList)) and all(isinstance(x, SV) and x.td == TTag for x in v.items):
        z = smt.EMPTY_TAGS
        for x in v.items:
            z = z3.SetAdd(z, x.z)
        return z
    raise OutsideSubset(f"not a collection of column tags: {v!r}")


def nonneg(a, b):
    return z3.And(a >= 0, z3.Or(smt.OptInt.is_oi_none(b), smt.OptInt.oi_val(b) >= 0))


# ------------------------------------------------------------------------------------------------ class rows
def class_rows(cname, o):
    """F_C: the rows an object of class ``cname`` yields, as a function of its attributes; (precondition, rows)."""
    T = z3.BoolVal(True)
    X = V.content(at("target")(o))
    if cname in ("RowSequence", "RowMapping"):
        return T, at("rows")(o)
    if cname == "CalculationRowIterable":
        return T, V.s_mapc(at("tag")(o), at("callable")(o), X)
    if cname == "ProjectionRowIterable":
        return z3.IsSubset(at("columns")(o), V.rcols(X)), V.s_proj(at("columns")(o), X)
    if cname == "SelectionRowIterable":
        return T, V.s_filterc(at("callable")(o), X)
    if cname == "ChainRowIterable":
        return T, chain_all(at("chain")(o))
    if cname == "SliceRowIterable":
        return nonneg(at("start")(o), at("stop")(o)), V.s_slice(at("start")(o), at("stop")(o), X)
    raise KeyError(cname)


def class_axioms(ex):
    """The class lemmas, justified by the obligations of this module (see the module docstring), plus the meaning of
    chain_all / tagseq_set."""
    o = z3.Const("o", smt.Ref)
    ax = []
    for cn in CLASSES:
        pre, rows = class_rows(cn, o)
        ax.append(z3.ForAll([o], z3.Implies(z3.And(smt.typ(o) == ex.types.cid(ex.repo.cls(cn)), pre), V.content(o) == rows), patterns=[V.content(o)]))
    # a RowMapping holds rows that are unique on its key (class invariant: proved where the library builds one,
    # documented requirement where the user does)
    rm = ex.types.cid(ex.repo.cls("RowMapping"))
    ax.append(z3.ForAll([o], z3.Implies(smt.typ(o) == rm, V.s_dedup_key(at("unique_key")(o), at("rows")(o)) == at("rows")(o)), patterns=[at("rows")(o)]))
    s = z3.Const("s", SeqRef.sort)
    ax.append(z3.ForAll([s], z3.Implies(SeqRef.info.len(s) == 2, chain_all(s) == V.s_chain(V.content(SeqRef.info.at(s, 0)), V.content(SeqRef.info.at(s, 1)))), patterns=[chain_all(s)]))
    ts, i, t = z3.Const("ts", SeqTag.sort), z3.Int("i"), z3.Const("t", smt.Tag)
    ax.append(z3.ForAll([ts, i], z3.Implies(z3.And(0 <= i, i < SeqTag.info.len(ts)), z3.IsMember(SeqTag.info.at(ts, i), tagseq_set(ts))), patterns=[z3.MultiPattern(SeqTag.info.at(ts, i), tagseq_set(ts))]))
    return ax


# ------------------------------------------------------------------------------------------------ executor hooks
def _getattr_ref(ex, obj, attr, st, node):
    ci = obj.td.cls
    if attr not in ATTR or not is_ri(ex, ci):
        return None
    mk, sym = ATTR[attr]
    td = mk(ex)
    if attr == "rows":
        known = ex.known_class(obj, st) or ci
        if known.name not in ("RowMapping", "RowSequence"):
            holders = [c for c in ex.candidates(obj, st) if c.name in ("RowMapping", "RowSequence")]
            others = [c for c in ex.candidates(obj, st) if c.name not in ("RowMapping", "RowSequence")]
            if len(holders) == 1 and not others:
                known = holders[0]
            else:
                raise OutsideSubset(f".rows of a {known.name}", node)
        if known.name == "RowMapping":
            td = TRowDict
    v = SV(td, sym(obj.z))
    if isinstance(td, TRefT) and td.cls is not None:
        st.assume(*ex.types.typing_fact(v.z, td))
    if td == TCallable:
        st.assume(v.z != smt.NONE)
    if isinstance(td, TSeqT):
        st.assume(td.info.len(v.z) >= 0)
    return ex.ok(v, st)


def _construct(ex, ci, args, kwargs, st, node):
    """Construction of a row iterable: a fresh object whose attributes are the constructor arguments (that is what each
    __init__ is proved to do); the class lemma then gives its content."""
    if ci.name not in CLASSES:
        return None
    init = ci.lookup("__init__")
    params = [a.arg for a in init.node.args.args[1:]]
    given = dict(zip(params, args))
    given.update(kwargs)
    it = SV(TRefT(ci), smt.fresh_const(f"new_{ci.name}", smt.Ref), fresh=True)
    st.assume(it.z != smt.NONE, smt.typ(it.z) == ex.types.cid(ci), smt.born(it.z) == ex.born_clock)
    ex.born_clock += 1
    ex.set_known_class(it, ci, st)
    for p in params:
        if p not in given or p not in ATTR:
            raise OutsideSubset(f"{ci.name}.__init__ parameter {p} is not a modelled attribute", node)
        v = given[p]
        sym = at(p)
        if p == "rows":
            if isinstance(v, PyRowDict):
                st.assume(sym(it.z) == v.vals)
                if "unique_key" in given:
                    # class invariant of RowMapping, proved at this construction site
                    ex.oblige(st, "construct RowMapping/inv/rows-unique-on-the-key", z3.And(v.K == as_tagset(given["unique_key"]), V.s_dedup_key(v.K, v.vals) == v.vals), node, kind="construct")
            elif isinstance(v, SV) and v.z.sort() == V.RS:
                st.assume(sym(it.z) == v.z)
            elif isinstance(v, PyList) and not v.items:
                # a Python [] is the empty row sequence over any column set; inside execute() it stands for the relation's
                rel = st.env.get("relation")
                st.assume(sym(it.z) == V.REMPTY(V.rcols(V.rows(rel.z))) if isinstance(rel, SV) else V.rlen(sym(it.z)) == 0)
            elif isinstance(v, PyList) and len(v.items) == 1 and isinstance(v.items[0], PyDict) and not v.items[0].keys:
                st.assume(sym(it.z) == V.RUNIT)
            elif isinstance(v, PyDict) and not v.keys:
                # a Python {} of rows is the empty row sequence over any column set; in a function whose parameter ``columns`` names
                # the column set asked for (get_doomed_payload) it stands for that one
                cs = st.env.get("columns")
                st.assume(sym(it.z) == V.REMPTY(cs.z) if isinstance(cs, SV) and cs.td == TTagSet else V.rlen(sym(it.z)) == 0)
            elif isinstance(v, PyDict) and len(v.keys) == 1 and isinstance(v.values[0], PyDict) and not v.values[0].keys:
                st.assume(sym(it.z) == V.RUNIT)
            else:
                raise OutsideSubset(f"rows of a {ci.name}: {v!r}", node)
        elif p == "unique_key":
            st.assume(sym(it.z) == as_tagset(v))
        elif p == "chain":
            sv = v if isinstance(v, SV) else ex.to_sv(v, SeqRef, st, node)
            st.assume(sym(it.z) == sv.z)
        else:
            if not isinstance(v, SV):
                v = ex.to_sv(v, ATTR[p][0](ex), st, node)
            if v.z.sort() != sym.range():
                v = smt.coerce_to(v, ATTR[p][0](ex))
            st.assume(sym(it.z) == v.z)
    return ex.ok(it, st)


def _row_of(X, i):
    return PyRow(V.rcols(X), V.rnth(X, i))


def _note_iteration(st, what, node=None):
    """Ghost event log (C18): an iteration of a row iterable OBJECT is started here.  ``what`` is the object's term (or
    ('each', seq term) for chain.from_iterable); the flag says whether this happens inside a loop body of the function."""
    ev = list(st.ghost.get("iter_events", []))
    ev.append((what, st.ghost.get("loop_depth", 0) > 0))
    st.ghost["iter_events"] = ev


def _source_rows(ex, it, st, note=True):
    """The row sequence a ``for`` / comprehension over ``it`` runs through, or None."""
    if isinstance(it, SV) and it.td == TRowDict:
        return None  # iterating a dict yields its keys
    if isinstance(it, SV) and it.z.sort() == V.RS:
        return it.z
    if isinstance(it, SV) and isinstance(it.td, TRefT) and is_ri(ex, it.td.cls):
        if note:
            _note_iteration(st, it.z)
        return V.content(it.z)
    if isinstance(it, PyIterOf):
        return it.z
    return None


def yielded(c):
    """Ghost: the rows the generator under verification has yielded so far."""
    return c.state.ghost["yielded"]


def _yield(ex, v, st, stmt):
    if not isinstance(v, PyRow):
        raise OutsideSubset(f"yield of {v!r}", stmt)
    out = st.ghost.get("yielded")
    if out is None:
        raise OutsideSubset("yield outside a generator under contract", stmt)
    # all rows of a row sequence are over its column set
    ex.oblige(st, "yielded-row-has-the-output-columns", v.keys == V.rcols(out), stmt, kind="implicit")
    st.ghost["yielded"] = V.rsnoc(out, v.z)
    return ex.ok(smt.lift(None), st)


def _loop_over_rows(ex, stmt, X, st, ordinal, enumerate_=False):
    """``for [n,] row in <rows X>: body`` by the sidecar invariant  inv(c, i, env, X)."""
    from pyvc.contracts import Ctx
    from pyvc.execs import _EnvView, _assigned_names, _mutated_names

    k = ex.frame.contract
    inv = k.invariants.get(ordinal) if k is not None else None
    if inv is None:
        from pyvc.types import NeedsContract

        raise NeedsContract(f"loop #{ordinal} over a row sequence needs an invariant", stmt)
    ctx = ex.frame.ctx
    n = V.rlen(X)
    label = f"loop{ordinal}"
    Xsv = SV(V.TRS, X)

    def inv_z(i, s):
        c = Ctx(ex, ctx.args if ctx else {}, "prove", s, ctx.old if ctx else s)
        return smt.lift(inv(c, SV(TInt, i), _EnvView(s.env), Xsv)).z

    ex.oblige(st, f"{label}/init", inv_z(z3.IntVal(0), st), stmt, kind="loop-init")
    h = st.fork()
    h.env = dict(h.env)
    for name in sorted(_assigned_names(stmt.body) | _mutated_names(stmt.body)):
        if name in h.env:
            h.env[name] = ex.havoc_value(h.env[name], name, h)
    if "yielded" in h.ghost:
        h.ghost["yielded"] = smt.fresh_const("yielded", V.RS)
    i = z3.Int(smt.fresh_name("it"))
    b = h.fork()
    b.assume(0 <= i, i < n, inv_z(i, b))
    b.path.append(f"L{stmt.lineno}:{label}:iter")
    b.ghost["loop_depth"] = b.ghost.get("loop_depth", 0) + 1
    row = _row_of(X, i)
    if enumerate_:
        a = ex.assign_target(stmt.target, PyTuple([SV(TInt, i), row]), b, stmt)
    else:
        a = ex.assign_target(stmt.target, row, b, stmt)
    assert a is None
    out = []
    n_ev = len(b.ghost.get("iter_events", []))
    for r in ex.exec_block(stmt.body, b):
        if len(r.state.ghost.get("iter_events", [])) != n_ev:
            # C18: one pass per source -- a row iterable iterated inside the loop body would be iterated once per row
            ex.oblige(r.state, f"{label}/starts-no-iteration-inside-the-loop-body", z3.BoolVal(False), stmt, kind="effect")
        if r.kind in ("fall", "continue"):
            ex.oblige(r.state, f"{label}/preserve", inv_z(i + 1, r.state), stmt, kind="loop-preserve")
        elif r.kind == "break":
            out.append(Res("fall", None, r.state))
        else:
            out.append(r)
    e = h.fork()
    e.assume(inv_z(n, e))
    e.path.append(f"L{stmt.lineno}:{label}:exit")
    out.append(Res("fall", None, e))
    return out


def _for_iter(ex, stmt, it, st, ordinal):
    if isinstance(it, PyEnumerate):
        X = _source_rows(ex, it.src, st)
        if X is None:
            return None
        return _loop_over_rows(ex, stmt, X, st, ordinal, enumerate_=True)
    X = _source_rows(ex, it, st)
    if X is None:
        return None
    return _loop_over_rows(ex, stmt, X, st, ordinal)


def _dict_display(ex, node, st):
    """``{**row, tag: value}``"""
    if not (len(node.keys) == 2 and node.keys[0] is None and node.keys[1] is not None):
        return None

    def f(vs, s):
        row, tag, val = vs
        if not (isinstance(row, PyRow) and isinstance(tag, SV) and tag.td == TTag):
            raise OutsideSubset("dict display with ** of something that is not a row", node)
        if not (isinstance(val, SV) and val.td == TInt):
            raise OutsideSubset(f"row value {val!r}", node)
        keys = z3.SetAdd(row.keys, tag.z)
        return ex.ok(PyRow(keys, V.row_mask(keys, V.row_put(row.z, tag.z, val.z))), s)

    return ex.bind(ex.ev_list([node.values[0], node.keys[1], node.values[1]], st), f)


def _is_name(n, name):
    return isinstance(n, ast.Name) and n.id == name


def _dictcomp(ex, node, st):
    if len(node.generators) != 1 or node.generators[0].ifs or not isinstance(node.generators[0].target, ast.Name):
        return None
    gen = node.generators[0]
    var = gen.target.id

    def over(it, s):
        # (a) {k: row[k] for k in <tag set>}: restriction of a row to a column set
        if isinstance(it, SV) and it.td == TTagSet:
            if not (_is_name(node.key, var) and isinstance(node.value, ast.Subscript) and _is_name(node.value.slice, var)):
                raise OutsideSubset("dict comprehension over a tag set that is not a row restriction", node)

            def g(row, s2):
                if not isinstance(row, PyRow):
                    raise OutsideSubset("restriction of something that is not a row", node)
                sub = z3.IsSubset(it.z, row.keys)
                out = []
                if ex.feasible(s2, z3.Not(sub)):
                    s3 = s2.fork().assume(z3.Not(sub))
                    s3.path.append(f"L{node.lineno}:row-lacks-a-requested-column")
                    out.extend(ex.raise_("KeyError", s3, node, "row lacks a requested column"))
                s4 = s2.assume(sub)
                out.extend(ex.ok(PyRow(it.z, V.row_mask(it.z, row.z)), s4))
                return out

            return ex.bind(ex.ev(node.value.value, s), g)
        # (b) {tuple(row[k] for k in K): row for row in <rows>}: the keyed dict of rows
        X = _source_rows(ex, it, s)
        if X is not None:
            key = node.key
            ok = (_is_name(node.value, var) and isinstance(key, ast.Call) and _is_name(key.func, "tuple") and len(key.args) == 1 and not key.keywords
                  and isinstance(key.args[0], ast.GeneratorExp) and len(key.args[0].generators) == 1 and not key.args[0].generators[0].ifs)
            if ok:
                g0 = key.args[0]
                kv = g0.generators[0].target
                ok = (isinstance(kv, ast.Name) and isinstance(g0.elt, ast.Subscript) and _is_name(g0.elt.value, var) and _is_name(g0.elt.slice, kv.id))
            if not ok:
                raise OutsideSubset("dict comprehension over rows that is not the keyed-dict idiom", node)

            def g(ks, s2):
                K = as_tagset(ks)
                sub = z3.IsSubset(K, V.rcols(X))
                out = []
                bad = z3.And(z3.Not(sub), V.rlen(X) > 0)
                if ex.feasible(s2, bad):
                    s3 = s2.fork().assume(bad)
                    s3.path.append(f"L{node.lineno}:row-lacks-a-key-column")
                    out.extend(ex.raise_("KeyError", s3, node, "row lacks a key column"))
                s4 = s2.assume(z3.Not(bad))
                out.extend(ex.ok(PyRowDict(K, V.s_dedup_key(K, X)), s4))
                return out

            return ex.bind(ex.ev(key.args[0].generators[0].iter, s), g)
        return None

    rs = ex.ev(gen.iter, st)
    out = []
    for r in rs:
        if r.kind != "ok":
            out.append(r)
            continue
        o = over(r.value, r.state)
        if o is None:
            return None
        out.extend(o)
    return out


def _builtin(ex, name, args, kwargs, st, node):
    if name == "iter" and len(args) == 1:
        X = _source_rows(ex, args[0], st)
        if X is not None:
            return ex.ok(PyIterOf(X), st)
    if name == "rowdict.values" and len(args) == 1 and isinstance(args[0], SV) and args[0].td == TRowDict:
        return ex.ok(SV(V.TRS, args[0].z), st)  # the dict of rows is abstracted by its value sequence
    if name == "len" and len(args) == 1 and isinstance(args[0], SV) and args[0].z.sort() == V.RS:
        return ex.ok(SV(TInt, V.rlen(args[0].z)), st)
    if name == "len" and len(args) == 1 and isinstance(args[0], SV) and isinstance(args[0].td, TRefT) and is_ri(ex, args[0].td.cls):
        # len(x) of a row iterable is x.__len__(): a call through the (virtual, verified) contract of MaterializedRowIterable.__len__
        m = args[0].td.cls.lookup("__len__")
        if m is not None:
            return ex.call_function(m, args[0], [], {}, st, node)
    if name == "enumerate" and len(args) == 1 and _source_rows(ex, args[0], st, note=False) is not None:
        return ex.ok(PyEnumerate(args[0]), st)
    if name == "list" and len(args) == 1:
        X = _source_rows(ex, args[0], st)
        if X is not None:
            return ex.ok(SV(V.TRS, X, fresh=True), st)
    if name == "itertools.chain.from_iterable" and len(args) == 1:
        v = args[0]
        if isinstance(v, (PyList, PyTuple)):
            v = ex.to_sv(v, SeqRef, st, node)
        if isinstance(v, SV) and v.z.sort() == SeqRef.sort:
            _note_iteration(st, ("each", v.z))
            return ex.ok(PyIterOf(chain_all(v.z)), st)
    return None


def _call_value(ex, callee, args, kwargs, st, node):
    if isinstance(callee, SV) and callee.td == TCallable and len(args) == 1 and isinstance(args[0], PyRow) and not kwargs:
        return ex.ok(SV(TInt, V.capp(callee.z, args[0].z)), st)
    return None


def _slice(ex, v, sl, st, node):
    if not (isinstance(v, SV) and v.z.sort() == V.RS and v.td != TRowDict) or sl.step is not None:
        return None
    nodes = [x if x is not None else ast.Constant(None) for x in (sl.lower, sl.upper)]

    def g(parts, s):
        lo, hi = parts
        if isinstance(lo, SV) and lo.z.eq(smt.NONE):
            lo = smt.lift(0)
        hi = smt.lift(None, TOptInt) if (isinstance(hi, SV) and hi.z.eq(smt.NONE)) else hi
        if not (isinstance(lo, SV) and lo.td == TInt and isinstance(hi, SV) and hi.td in (TInt, TOptInt)):
            raise OutsideSubset("slice bounds of a row list", node)
        hi = smt.coerce_to(hi, TOptInt)
        z = smt.fresh_const("sliced", V.RS)
        # list slicing with non-negative bounds is the positional window; negative bounds count from the end (not modelled)
        s.assume(z3.Implies(nonneg(lo.z, hi.z), z == V.s_slice(lo.z, hi.z, v.z)))
        return ex.ok(SV(V.TRS, z, fresh=True), s)

    return ex.bind(ex.ev_list(nodes, st), g)


def _compare(ex, op, a, b, st, node):
    """``unique_key == self.unique_key``: equal sequences have equal element sets (the converse need not hold)."""
    if not isinstance(op, (ast.Eq, ast.NotEq)) or not (isinstance(a, SV) and isinstance(b, SV)):
        return None
    sorts = {a.z.sort(), b.z.sort()}
    if sorts == {SeqTag.sort, smt.TagSet} or (sorts == {smt.TagSet} and any(x.z.decl().eq(at("unique_key")) for x in (a, b) if z3.is_app(x.z))):
        e = z3.Bool(smt.fresh_name("same_key_sequence"))
        st.assume(z3.Implies(e, as_tagset(a) == as_tagset(b)))
        return ex.ok(SV(TBool, e if isinstance(op, ast.Eq) else z3.Not(e)), st)
    return None


def _finish_outcomes(ex, fi, k, outcomes):
    """A function of the row iterable module whose result is an iterator: its outcome is what iterating to the end yields."""
    if not fi.key.startswith(MOD + ":") or fi.name != "__iter__":
        return None
    is_genfn = any(isinstance(n, (ast.Yield, ast.YieldFrom)) for n in ast.walk(fi.node))
    out = []
    for r in outcomes:
        if r.kind not in ("return", "fall"):
            out.append(r)
            continue
        st = r.state
        if is_genfn:
            out.append(Res("return", SV(V.TRS, st.ghost["yielded"]), st, node=r.node))
            continue
        v = r.value
        if isinstance(v, PyIterOf):
            out.append(Res("return", SV(V.TRS, v.z), st, node=r.node))
        elif isinstance(v, Closure) and isinstance(v.node, ast.GeneratorExp):
            g = v.node
            if len(g.generators) != 1:
                raise OutsideSubset("nested generator expression", g)
            gen = g.generators[0]
            body: list[ast.stmt] = [ast.Expr(value=ast.Yield(value=g.elt))]
            for cnd in reversed(gen.ifs):
                body = [ast.If(test=cnd, body=body, orelse=[])]
            loop = ast.For(target=gen.target, iter=gen.iter, body=body, orelse=[])
            for nd in ast.walk(loop):
                ast.copy_location(nd, g)
            s = st.fork()
            s.env = dict(v.env)
            gc = getattr(k, "gen_cols", None)
            if gc is None:
                raise OutsideSubset("generator expression result without declared output columns", g)
            from pyvc.contracts import Ctx

            s.ghost["yielded"] = V.REMPTY(gc(Ctx(ex, ex.frame.ctx.args, "prove", s, ex.frame.ctx.old)))
            for r2 in ex.exec_block([loop], s):
                if r2.kind == "fall":
                    out.append(Res("return", SV(V.TRS, r2.state.ghost["yielded"]), r2.state, node=r.node))
                else:
                    out.append(r2)
        else:
            raise OutsideSubset(f"__iter__ returns {v!r}", r.node)
    return out


# ------------------------------------------------------------------------------------------------ registration
def _self_rows(c, name):
    return class_rows(name, c.self.z)


def register(reg):
    for name, fn in (("getattr_ref", _getattr_ref), ("construct", _construct), ("for_iter", _for_iter), ("dict_display", _dict_display), ("dictcomp", _dictcomp),
                     ("builtin", _builtin), ("call_value", _call_value), ("slice", _slice), ("compare", _compare), ("yield", _yield),
                     ("finish_outcomes", _finish_outcomes)):
        reg.add_hook(name, fn)
    if class_axioms not in reg.global_axioms:
        reg.global_axioms.append(class_axioms)
    P = ("C01",)

    # ---- constructors store their arguments
    def stores(c):
        uc = c.args["self"]
        pend = uc.pending(c.state)
        ok = []
        for p, v in c.args.items():
            if p == "self":
                continue
            w = pend.get(p)
            ok.append(z3.BoolVal(isinstance(v, SV) and isinstance(w, SV) and w.z.eq(v.z)))
        return B(z3.And(*ok, z3.BoolVal(len(pend) == len(c.args) - 1)))

    for cn in CLASSES:
        k = reg.contract(f"{MOD}:{cn}.__init__", properties=P)
        k.ens("stores-each-argument-in-the-attribute-of-the-same-name", stores)

    # ---- __iter__ of every class yields the class's rows
    def X(c):
        return V.content(at("target")(c.self.z))

    def iter_contract(cn, inv=None, gen_cols=None, lemmas=None):
        k = reg.contract(f"{MOD}:{cn}.__iter__", properties=P, result_td=V.TRS)
        k.req("class-precondition", lambda c, cn=cn: B(_self_rows(c, cn)[0]))
        k.ens("yields-the-class-rows", lambda c, cn=cn: B(c.result.z == _self_rows(c, cn)[1]))
        if inv is not None:
            k.inv(0, inv)
        if gen_cols is not None:
            k.gen_cols = gen_cols
            if cn == "SliceRowIterable":  # a generator function: the ghost output exists from the start
                k.setup = lambda c: c.state.ghost.__setitem__("yielded", V.REMPTY(gen_cols(c)))
        return k

    def events_are(expected):
        """C18: the iterations of row iterable objects this call starts (ghost event log of the executed path) are exactly these,
        each outside any loop."""
        def f(c):
            want = expected(c)
            got = c.state.ghost.get("iter_events", [])
            ok = len(got) == len(want)
            for (gw, inloop), w in zip(got, want):
                same = (isinstance(gw, tuple) and isinstance(w, tuple) and gw[0] == w[0] and gw[1].eq(w[1])) or (not isinstance(gw, tuple) and not isinstance(w, tuple) and gw.eq(w))
                ok = ok and same and not inloop
            return B(z3.BoolVal(bool(ok)))
        return f

    def at_most_self(c):
        got = c.state.ghost.get("iter_events", [])
        ok = len(got) <= 1 and all((not isinstance(w, tuple)) and w.eq(c.self.z) and not inloop for w, inloop in got)
        return B(z3.BoolVal(bool(ok)))

    PC18 = ("C01", "C18")
    for cn in CLASSES:
        k = reg.contract(f"{MOD}:{cn}.__init__", properties=PC18)
        k.ens("starts-no-iteration", events_are(lambda c: []))
    iter_contract("RowSequence").ens("one-pass-over-each-source", events_are(lambda c: []))
    iter_contract("RowMapping").ens("one-pass-over-each-source", events_are(lambda c: []))
    iter_contract("ChainRowIterable").ens("one-pass-over-each-source", events_are(lambda c: [("each", at("chain")(c.self.z))]))
    for cn in ("CalculationRowIterable", "ProjectionRowIterable", "SelectionRowIterable", "SliceRowIterable"):
        k = reg.contract(f"{MOD}:{cn}.__iter__", properties=PC18)
        k.ens("one-pass-over-each-source", events_are(lambda c: [at("target")(c.self.z)]))
    for cn in ("RowSequence", "RowMapping", "ChainRowIterable"):
        reg.contract(f"{MOD}:{cn}.__iter__", properties=PC18)
    iter_contract("CalculationRowIterable", gen_cols=lambda c: z3.SetAdd(V.rcols(X(c)), at("tag")(c.self.z)),
                  inv=lambda c, i, env, S: B(z3.And(S.z == X(c), yielded(c) == V.s_mapc(at("tag")(c.self.z), at("callable")(c.self.z), V.rprefix(S.z, i.z)))))
    iter_contract("ProjectionRowIterable", gen_cols=lambda c: at("columns")(c.self.z),
                  inv=lambda c, i, env, S: B(z3.And(S.z == X(c), yielded(c) == V.s_proj(at("columns")(c.self.z), V.rprefix(S.z, i.z)))))
    iter_contract("SelectionRowIterable", gen_cols=lambda c: V.rcols(X(c)),
                  inv=lambda c, i, env, S: B(z3.And(S.z == X(c), yielded(c) == V.s_filterc(at("callable")(c.self.z), V.rprefix(S.z, i.z)))))
    st_, sp_ = (lambda c: at("start")(c.self.z)), (lambda c: at("stop")(c.self.z))
    iter_contract("SliceRowIterable", gen_cols=lambda c: V.rcols(X(c)),
                  inv=lambda c, i, env, S: B(z3.And(S.z == X(c), yielded(c) == V.s_slice(st_(c), sp_(c), V.rprefix(S.z, i.z)),
                                                    z3.Or(smt.OptInt.is_oi_none(sp_(c)), i.z <= smt.OptInt.oi_val(sp_(c))))))

    # ---- the conversion methods: every implementation against the virtual contract
    TIt = TRefT(reg_cls(reg, "RowIterable"))
    mat = lambda c, z: z3.Or(smt.typ(z) == cid(c, "RowSequence"), smt.typ(z) == cid(c, "RowMapping"))  # noqa: E731
    k = reg.contract(f"{MOD}:MaterializedRowIterable.__len__", virtual=True, assumed=False, properties=P, result_td=TInt, note="")
    k.ens("the-number-of-rows-it-yields", lambda c: B(c.result.z == V.rlen(V.content(c.self.z))))
    k = reg.contract(f"{MOD}:RowIterable.to_mapping", virtual=True, assumed=False, properties=P, result_td=TIt, note="")
    k.requires.clear(), k.ensures.clear()
    k.req("key-columns-are-columns-of-the-rows", lambda c: B(z3.IsSubset(as_tagset(c.unique_key), V.rcols(V.content(c.self.z)))))
    k.ens("keyed-deduplication", lambda c: B(V.content(c.result.z) == V.s_dedup_key(as_tagset(c.unique_key), V.content(c.self.z))),
          lemmas=lambda c: [instance("dedup-key-idem", as_tagset(c.unique_key), V.content(c.self.z))])
    k.ens("result-holds-its-rows", lambda c: B(smt.typ(c.result.z) == cid(c, "RowMapping")))
    k = reg.contract(f"{MOD}:RowIterable.sliced", virtual=True, assumed=False, properties=P, result_td=TIt, note="")
    k.requires.clear(), k.ensures.clear()
    k.req("bounds-not-negative", lambda c: B(nonneg(c.start.z, smt.coerce_to(c.stop, TOptInt).z)))
    k.ens("positional-window", lambda c: B(V.content(c.result.z) == V.s_slice(c.start.z, smt.coerce_to(c.stop, TOptInt).z, V.content(c.self.z))))
    k = reg.contract(f"{MOD}:RowIterable.materialized", virtual=True, assumed=False, properties=P, result_td=TIt, note="")
    k.requires.clear(), k.ensures.clear()
    k.ens("same-rows", lambda c: B(V.content(c.result.z) == V.content(c.self.z)))
    k.ens("result-holds-its-rows", lambda c: B(mat(c, c.result.z)))
    for m in ("to_mapping", "sliced"):
        k = reg.contract(f"{MOD}:RowIterable.{m}", properties=PC18)
    reg.contracts[f"{MOD}:RowIterable.to_mapping"].ens("iterates-nothing-but-itself-at-most-once", at_most_self)
    reg.contracts[f"{MOD}:RowIterable.sliced"].ens("starts-no-iteration", events_are(lambda c: []))
    k = reg.contract(f"{MOD}:RowIterable.to_sequence", virtual=True, properties=PC18, result_td=TIt)
    k.ens("iterates-nothing-but-itself-at-most-once", at_most_self)
    k.ens("same-rows", lambda c: B(V.content(c.result.z) == V.content(c.self.z)))
    k.ens("result-is-a-row-sequence", lambda c: B(smt.typ(c.result.z) == cid(c, "RowSequence")))


def reg_cls(reg, name):
    from contracts.apply import reg_cls as rc

    return rc(reg, name)


def attribute_scan(repo, reg, tier):
    """AST obligation: the attributes of row iterables are bound in ``__init__`` and nowhere else in the library, and no
    statement mutates a container reached through such an attribute.  (What makes ``content`` a function of the object.)"""
    from pyvc.verify import PROVED, REFUTED, OblResult

    base = repo.cls("RowIterable")
    results = []
    n = 0
    for fi in repo.all_functions():
        in_ri = fi.cls is not None and base in fi.cls.mro
        for nd in ast.walk(fi.node):
            tgt = []
            if isinstance(nd, ast.Assign):
                tgt = nd.targets
            elif isinstance(nd, (ast.AugAssign, ast.AnnAssign)):
                tgt = [nd.target]
            elif isinstance(nd, ast.Delete):
                tgt = nd.targets
            elif isinstance(nd, ast.Call) and isinstance(nd.func, ast.Attribute) and isinstance(nd.func.value, ast.Attribute) \
                    and nd.func.attr in ("append", "extend", "update", "add", "pop", "clear", "sort", "insert", "remove", "setdefault", "reverse", "popitem", "__setitem__"):
                tgt = [nd.func.value]
            elif isinstance(nd, ast.Call) and ast.unparse(nd.func) in ("setattr", "object.__setattr__") and len(nd.args) >= 2:
                a1 = nd.args[1]
                if not (isinstance(a1, ast.Constant) and a1.value not in ATTR):
                    tgt = [ast.Attribute(value=nd.args[0], attr=str(getattr(a1, "value", "?")), ctx=ast.Store())] if in_ri or not isinstance(a1, ast.Constant) else []
            for t in tgt:
                for sub in ast.walk(t):
                    if isinstance(sub, ast.Subscript) and isinstance(sub.value, ast.Attribute):
                        sub = sub.value
                    if not (isinstance(sub, ast.Attribute) and sub.attr in ATTR):
                        continue
                    recv_self = isinstance(sub.value, ast.Name) and sub.value.id == "self"
                    if recv_self and not in_ri:
                        continue  # an attribute of some other class that happens to share the name
                    if not recv_self and fi.module.startswith("iteration") is False:
                        continue
                    n += 1
                    ok = in_ri and recv_self and fi.name == "__init__" and isinstance(nd, (ast.Assign, ast.AnnAssign)) and isinstance(sub.ctx, ast.Store)
                    results.append(OblResult(f"rowiter/attribute-bound-only-by-the-constructor/{fi.key}:L{nd.lineno}:{sub.attr}", fi.key, "attribute-bound-only-by-the-constructor", "", "scan",
                                             PROVED if ok else REFUTED, solver="ast-scan", lineno=nd.lineno,
                                             reason="" if ok else f"{fi.key} line {nd.lineno}: '{ast.unparse(nd)[:80]}' re-binds or mutates attribute '{sub.attr}' of a row iterable outside its constructor"))
    if n < 12:
        results.append(OblResult("rowiter/attribute-scan/vacuity", "scan", "constructor-assignments-found", "", "vacuity", "error", solver="ast-scan", reason=f"only {n} attribute bindings found"))
    return results, ["attribute writes are recognised syntactically (assignment, augmented assignment, del, setattr, mutating container methods on self.<attr>); writes through aliases are the subject of the C09 frame obligations"]
