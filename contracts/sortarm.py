"""C01: the Sort arm of iteration.Engine.execute, executed for real (it used to be a summary).

    rows_list = list(target_rows)
    grouped_by_ascending = [(ascending, [self.convert_column_expression(t.expression) for t in terms])
                            for ascending, terms in itertools.groupby(terms, key=attrgetter("ascending"))]
    for ascending, callables in grouped_by_ascending[::-1]:
        rows_list.sort(key=lambda row: tuple(c(row) for c in callables), reverse=not ascending)
    return RowSequence(rows_list)

The specification ``s_sort(terms, X)`` is the stable multi-key sort as passes from the last term to the first
(lean/RelAlg/Spec.lean).  The code sorts once per *group* of consecutive terms with the same direction, by the tuple of
the group's values.  Proof structure: loop invariant over the groups taken from the last to the first --
"rows_list == s_sort(terms from the start of the current group on, X)" -- with three laws of spec/laws.py:
``sort-suffix-split`` (passes of a suffix = passes of its first group after the passes of the rest), ``sort-suffix-ends``
and ``sortc-group`` (one stable sort by the tuple of a same-direction group's values, with ``reverse`` for descending,
equals the passes of the group's terms one by one -- the LSD radix-sort lemma).

Python / stdlib semantics used (assumed, DESIGN 2.2): ``itertools.groupby(seq, key)`` yields the maximal runs of
consecutive elements with equal key, in order, covering the sequence; ``operator.attrgetter(name)(x)`` is ``x.name``;
``list.sort(key=, reverse=)`` is stable, also with ``reverse=True``; tuples compare lexicographically.
"""
from __future__ import annotations

import ast

import z3

from pyvc import smt
from pyvc.smt import SV, TBool, TInt, TRefT, TSeqT
from pyvc.state import Builtin, Closure, ModuleVal, PyTuple, PyVal, Res
from pyvc.types import NeedsContract, OutsideSubset, TCallable
from spec import vocab as V
from contracts.apply import A, B, cid
from contracts.rowiter import PyRow

SeqRef = V.SeqRef
SeqC = TSeqT(TCallable)  # a list of row callables (same z3 sort as a sequence of references)
RI, CI = SeqRef.info, SeqC.info

gcount = z3.Function("groupby_count", SeqRef.sort, smt.IntS)  # number of runs of equal ``ascending``
gstart = z3.Function("groupby_start", SeqRef.sort, smt.IntS, smt.IntS)  # index where run j starts (run count: the length)
gdir = z3.Function("groupby_key", SeqRef.sort, smt.IntS, smt.BoolS)  # the common ``ascending`` of run j
gterms = z3.Function("groupby_run", SeqRef.sort, smt.IntS, SeqRef.sort)  # the terms of run j


class PyAttrGetter(PyVal):
    def __init__(self, name):
        self.name = name


class PyGroupBy(PyVal):
    def __init__(self, ts):
        self.ts = ts


class PyGroups(PyVal):
    """[(ascending_j, callables_j) for each run j]: both components as functions of j; ``rev``: iterated backwards."""

    def __init__(self, ts, asc, calls, rev=False):
        self.ts, self.asc, self.calls, self.rev = ts, asc, calls, rev
        self.fresh = True


def asc_of(ex):
    class _C:
        pass
    c = _C()
    c.ex = ex
    return A(c, "SortTerm", "ascending"), A(c, "SortTerm", "expression")


def groupby_axioms(ex):
    """itertools.groupby(terms, key=attrgetter('ascending')): the runs partition the sequence, each run has one key."""
    asc, _ = asc_of(ex)
    s = z3.Const("s", SeqRef.sort)
    j, i = z3.Int("j"), z3.Int("i")
    n, m = RI.len(s), gcount(s)
    run = gterms(s, j)
    return [
        z3.ForAll([s], z3.And(m >= 0, gstart(s, 0) == 0, gstart(s, m) == n, z3.Implies(n == 0, m == 0)), patterns=[gcount(s)]),
        z3.ForAll([s, j], z3.Implies(z3.And(0 <= j, j < m), z3.And(0 <= gstart(s, j), gstart(s, j) < gstart(s, j + 1), gstart(s, j + 1) <= n)), patterns=[gstart(s, j)]),
        z3.ForAll([s, j, i], z3.Implies(z3.And(0 <= j, j < m, gstart(s, j) <= i, i < gstart(s, j + 1)), asc(RI.at(s, i)) == gdir(s, j)),
                  patterns=[z3.MultiPattern(gdir(s, j), RI.at(s, i))]),
        z3.ForAll([s, j], z3.Implies(z3.And(0 <= j, j < m), RI.len(run) == gstart(s, j + 1) - gstart(s, j)), patterns=[gterms(s, j)]),
        z3.ForAll([s, j, i], z3.Implies(z3.And(0 <= j, j < m, 0 <= i, i < RI.len(run)), RI.at(run, i) == RI.at(s, gstart(s, j) + i)), patterns=[RI.at(run, i)]),
    ]


def lift_over(exprs, j, snapshot):
    from pyvc.symex import _lift_fresh

    return _lift_fresh(exprs, j, snapshot)


def _lift_over_old(exprs, j, snapshot):
    """Everything created while evaluating the element for the arbitrary run j depends on j: every constant AND every
    Skolem function introduced after ``snapshot`` (names ``prefix!k`` with k > snapshot; inner comprehensions have
    already turned their constants into functions of their own index) gets j as an additional argument."""
    decls = {}
    seen = set()
    stack = list(exprs)
    while stack:
        t = stack.pop()
        if t.get_id() in seen:
            continue
        seen.add(t.get_id())
        if z3.is_quantifier(t):
            stack.append(t.body())
            for pi in range(t.num_patterns()):
                stack.extend(t.pattern(pi).children())
            continue
        if z3.is_app(t) and t.decl().kind() == z3.Z3_OP_UNINTERPRETED and not t.eq(j):
            n = t.decl().name()
            if "!" in n:
                try:
                    kk = int(n.rsplit("!", 1)[1])
                except ValueError:
                    kk = -1
                if kk > snapshot:
                    decls[n] = t.decl()
        stack.extend(t.children())
    if not decls:
        return list(exprs)
    subs = []
    for n, d in decls.items():
        dom = [d.domain(i) for i in range(d.arity())]
        nf = z3.Function(f"g_{n}", smt.IntS, *dom, d.range())
        if d.arity() == 0:
            subs.append((d(), nf(j)))
        else:
            vs = [z3.Var(i, dom[i]) for i in range(d.arity())]
            subs.append((d, nf(j, *vs)))
    out = []
    consts = [(a, b) for a, b in subs if not isinstance(a, z3.FuncDeclRef)]
    funs = [(a, b) for a, b in subs if isinstance(a, z3.FuncDeclRef)]
    for e in exprs:
        if funs:
            e = z3.substitute_funs(e, *funs)
        if consts:
            e = z3.substitute(e, *consts)
        out.append(e)
    return out


# ------------------------------------------------------------------------------------------------ hooks
def _in_execute(ex):
    return any(fr.fi is not None and fr.fi.key == "iteration._engine:Engine.execute" for fr in ex.frames)


def _foreign_call(ex, callee, args, kwargs, st, node):
    name = callee.name if isinstance(callee, ModuleVal) else ""
    if name == "operator.attrgetter" and len(args) == 1 and isinstance(args[0], SV) and z3.is_string_value(args[0].z):
        return ex.ok(PyAttrGetter(args[0].z.as_string()), st)
    return None


def _builtin(ex, name, args, kwargs, st, node):
    if name == "itertools.groupby" and len(args) == 1 and isinstance(kwargs.get("key"), PyAttrGetter) and kwargs["key"].name == "ascending":
        ts = args[0]
        if isinstance(ts, SV) and ts.z.sort() == SeqRef.sort:
            return ex.ok(PyGroupBy(ts), st)
    return None


def _comprehension_over(ex, node, gen, it, st, kind):
    """[f(key, run) for key, run in groupby(...)]"""
    if not isinstance(it, PyGroupBy) or kind != "list" or gen.ifs:
        return None
    tgt = gen.target
    if not (isinstance(tgt, ast.Tuple) and len(tgt.elts) == 2 and all(isinstance(e, ast.Name) for e in tgt.elts)):
        raise OutsideSubset("groupby comprehension target", node)
    if not (isinstance(node.elt, ast.Tuple) and len(node.elt.elts) == 2):
        raise OutsideSubset("groupby comprehension element is not a pair", node)
    ts = it.ts.z
    j = z3.Int(smt.fresh_name("gj"))
    s1 = st.fork()
    s1.env = dict(s1.env)
    s1.assume(0 <= j, j < gcount(ts))
    base_n = len(s1.pc)
    s1.env[tgt.elts[0].id] = SV(TBool, gdir(ts, j))
    run = SV(it.ts.td, gterms(ts, j))
    s1.assume(RI.len(run.z) >= 0)
    s1.env[tgt.elts[1].id] = run
    snapshot = smt._counter[0]
    rs = ex.ev(node.elt, s1)
    if len(rs) != 1 or rs[0].kind != "ok" or not isinstance(rs[0].value, PyTuple):
        raise OutsideSubset("groupby comprehension element forks or may raise", node)
    a, c = rs[0].value.items
    if not (isinstance(a, SV) and a.td == TBool and isinstance(c, SV) and isinstance(c.td, TSeqT) and c.z.sort() == CI.sort):
        raise OutsideSubset(f"groupby comprehension element ({a!r}, {c!r})", node)
    extra = list(rs[0].state.pc[base_n:])
    lifted = lift_over([a.z, c.z] + extra, j, snapshot)
    az, cz, extra = lifted[0], lifted[1], lifted[2:]
    jj = z3.Int("jq")
    asc_f = lambda x, az=az, j=j: z3.substitute(az, (j, x))  # noqa: E731
    calls_f = lambda x, cz=cz, j=j: z3.substitute(cz, (j, x))  # noqa: E731
    if extra:
        body = z3.substitute(z3.And(*extra), (j, jj))
        st.assume(z3.ForAll([jj], z3.Implies(z3.And(0 <= jj, jj < gcount(ts)), body), patterns=[calls_f(jj)]))
    return ex.ok(PyGroups(it.ts, asc_f, calls_f), st)


def _slice(ex, v, sl, st, node):
    if isinstance(v, PyGroups) and sl.lower is None and sl.upper is None and isinstance(sl.step, ast.UnaryOp) and isinstance(sl.step.op, ast.USub) \
            and isinstance(sl.step.operand, ast.Constant) and sl.step.operand.value == 1:
        return ex.ok(PyGroups(v.ts, v.asc, v.calls, rev=not v.rev), st)
    return None


def _for_iter(ex, stmt, it, st, ordinal):
    """for ascending, callables in <groups>: by the sidecar invariant inv(c, k, env, terms)."""
    if not isinstance(it, PyGroups):
        return None
    from pyvc.contracts import Ctx
    from pyvc.execs import _EnvView, _assigned_names, _mutated_names

    k = ex.frame.contract
    inv = k.invariants.get(ordinal) if k is not None else None
    if inv is None:
        raise NeedsContract(f"loop #{ordinal} over the sort groups needs an invariant", stmt)
    if not (isinstance(stmt.target, ast.Tuple) and len(stmt.target.elts) == 2 and all(isinstance(e, ast.Name) for e in stmt.target.elts)):
        raise OutsideSubset("loop target over the sort groups", stmt)
    ctx = ex.frame.ctx
    ts = it.ts
    m = gcount(ts.z)
    label = f"loop{ordinal}"

    def inv_z(i, s):
        c = Ctx(ex, ctx.args if ctx else {}, "prove", s, ctx.old if ctx else s)
        c.ghost["groups"] = it
        return smt.lift(inv(c, SV(TInt, i), _EnvView(s.env), ts)).z

    ex.oblige(st, f"{label}/init", inv_z(z3.IntVal(0), st), stmt, kind="loop-init")
    h = st.fork()
    h.env = dict(h.env)
    for name in sorted(_assigned_names(stmt.body) | _mutated_names(stmt.body)):
        if name in h.env:
            h.env[name] = ex.havoc_value(h.env[name], name, h)
    i = z3.Int(smt.fresh_name("gk"))
    b = h.fork()
    b.assume(0 <= i, i < m, inv_z(i, b))
    b.path.append(f"L{stmt.lineno}:{label}:iter")
    j = (m - 1 - i) if it.rev else i
    b.env = dict(b.env)
    b.env[stmt.target.elts[0].id] = SV(TBool, it.asc(j))
    cs = SV(SeqC, it.calls(j))
    b.assume(CI.len(cs.z) >= 0)
    b.env[stmt.target.elts[1].id] = cs
    b.ghost["group_index"] = j
    out = []
    lem = getattr(k, "loop_lemmas", {}).get(ordinal)
    for r in ex.exec_block(stmt.body, b):
        if r.kind in ("fall", "continue"):
            s = r.state
            if lem is not None:
                # intermediate facts about this iteration: each is its own obligation, then available to the step
                c = Ctx(ex, ctx.args if ctx else {}, "prove", s, ctx.old if ctx else s)
                c.ghost["groups"] = it
                hints, lemmas = lem(c, SV(TInt, i), SV(TInt, j), _EnvView(s.env), ts)
                s = s.fork()
                for hl, hz in hints:
                    ex.oblige(s, f"{label}/{hl}", hz, stmt, kind="hint")
                    s.assume(hz)
                s.assume(*lemmas)
            ex.oblige(s, f"{label}/preserve", inv_z(i + 1, s), stmt, kind="loop-preserve")
        elif r.kind == "break":
            out.append(Res("fall", None, r.state))
        else:
            out.append(r)
    e = h.fork()
    e.assume(inv_z(m, e))
    e.path.append(f"L{stmt.lineno}:{label}:exit")
    out.append(Res("fall", None, e))
    return out


def _havoc_rs(ex):
    return None


def _mutating_call(ex, recv, meth, args, recv_node, st, node):
    """``rows.sort(key=lambda row: tuple(c(row) for c in callables), reverse=<bool>)`` on a list of rows."""
    if meth != "sort" or not (isinstance(recv, SV) and recv.z.sort() == V.RS):
        return None
    if args:
        raise OutsideSubset("positional arguments of list.sort", node)
    kw = {k.arg: k.value for k in node.keywords}
    if set(kw) - {"key", "reverse"} or "key" not in kw:
        raise OutsideSubset("list.sort of rows without a key function", node)
    # in-place sort: only on a list this call built itself (C09 frame)
    ex.oblige(st, "sorts-in-place-only-a-list-built-here", z3.BoolVal(bool(getattr(recv, "fresh", False))), node, kind="frame")

    def with_key(keyf, s):
        def with_rev(rev, s2):
            revz = ex.truth(rev, s2, node) if rev is not None else z3.BoolVal(False)
            if not (isinstance(keyf, Closure) and isinstance(keyf.node, ast.Lambda)):
                raise OutsideSubset("sort key that is not a lambda", node)
            # what the key function computes on an arbitrary row: must be the tuple of the values of some list of callables
            rho = smt.fresh_const("key_row", V.Row)
            kr = ex.call_closure(keyf, [PyRow(smt.fresh_const("key_row_cols", smt.TagSet), rho)], {}, s2.fork(), node)
            if len(kr) != 1 or kr[0].kind != "ok":
                raise OutsideSubset("sort key function forks or may raise", node)
            kv = kr[0].value
            if isinstance(kv, PyTuple):
                raise OutsideSubset("sort key of fixed arity (not needed by the library)", node)
            if not (isinstance(kv, SV) and isinstance(kv.td, TSeqT) and kv.z.sort() == TSeqT(TInt).sort):
                raise OutsideSubset(f"sort key value {kv!r}", node)
            cs = smt.fresh_const("key_callables", CI.sort)
            ii = z3.Int(smt.fresh_name("ki"))
            # the obligation: there is a list of callables (named by the lambda's free variable) whose values form the key
            cand = [v for v in keyf.env.values() if isinstance(v, SV) and v.z.sort() == CI.sort]
            free = {n.id for n in ast.walk(keyf.node.body) if isinstance(n, ast.Name)}
            cand = [keyf.env[n] for n in free if n in keyf.env and isinstance(keyf.env[n], SV) and keyf.env[n].z.sort() == CI.sort]
            if len(cand) != 1:
                raise OutsideSubset("sort key does not range over exactly one list of callables", node)
            cs = cand[0].z
            II = TSeqT(TInt).info
            facts = kr[0].state.pc[len(s2.pc):]
            goal = z3.And(II.len(kv.z) == CI.len(cs), z3.ForAll([ii], z3.Implies(z3.And(0 <= ii, ii < CI.len(cs)), II.at(kv.z, ii) == V.capp(CI.at(cs, ii), rho)), patterns=[II.at(kv.z, ii)]))
            s3 = s2.fork()
            s3.assume(*facts)
            ex.oblige(s3, "sort-key-is-the-tuple-of-the-callables-values", goal, node, kind="implicit")
            res = SV(V.TRS, s_sortc(cs, z3.simplify(z3.Not(revz)), recv.z), fresh=True)
            r = ex.assign_target(recv_node, res, s2, node)
            if r is not None:
                return r
            return ex.ok(smt.lift(None), s2)

        if "reverse" in kw:
            return ex.bind(ex.ev(kw["reverse"], s), with_rev)
        return with_rev(None, s)

    return ex.bind(ex.ev(kw["key"], st), with_key)


# ------------------------------------------------------------------------------------------------ spec symbols
s_sortc, tsuffix, tslice, den_terms, same_dir = V.s_sortc, V.tsuffix, V.tslice, V.den_terms, V.same_dir
wit_dt = z3.Function("wit_den_terms", CI.sort, SeqRef.sort, smt.IntS, smt.IntS, smt.IntS)
wit_sd = z3.Function("wit_same_dir", SeqRef.sort, smt.IntS, smt.IntS, smt.BoolS, smt.IntS)


def term_axioms(ex):
    """Definitions of den_terms / same_dir (with Skolem witnesses for proving them)."""
    asc, expr = asc_of(ex)
    cs, ts = z3.Const("cs", CI.sort), z3.Const("ts", SeqRef.sort)
    a, b, i = z3.Int("a"), z3.Int("b"), z3.Int("i")
    d = z3.Bool("d")
    w = wit_dt(cs, ts, a, b)
    w2 = wit_sd(ts, a, b, d)
    return [
        z3.ForAll([cs, ts, a, b], z3.Implies(den_terms(cs, ts, a, b), CI.len(cs) == b - a), patterns=[den_terms(cs, ts, a, b)]),
        z3.ForAll([cs, ts, a, b, i], z3.Implies(z3.And(den_terms(cs, ts, a, b), 0 <= i, i < b - a), V.denotes_x(CI.at(cs, i), expr(RI.at(ts, a + i)))),
                  patterns=[z3.MultiPattern(den_terms(cs, ts, a, b), CI.at(cs, i))]),
        # (only for windows inside the sequence: that is where lean/RelAlg/Spec.lean's definition by Forall₂ over the slice agrees)
        z3.ForAll([cs, ts, a, b], z3.Implies(z3.And(z3.Not(den_terms(cs, ts, a, b)), 0 <= a, a <= b, b <= RI.len(ts)),
                                             z3.Or(CI.len(cs) != b - a, z3.And(0 <= w, w < b - a, z3.Not(V.denotes_x(CI.at(cs, w), expr(RI.at(ts, a + w))))))),
                  patterns=[den_terms(cs, ts, a, b)]),
        z3.ForAll([ts, a, b, d, i], z3.Implies(z3.And(same_dir(ts, a, b, d), a <= i, i < b), asc(RI.at(ts, i)) == d), patterns=[z3.MultiPattern(same_dir(ts, a, b, d), RI.at(ts, i))]),
        z3.ForAll([ts, a, b, d], z3.Implies(z3.And(z3.Not(same_dir(ts, a, b, d)), 0 <= a, b <= RI.len(ts)), z3.And(a <= w2, w2 < b, asc(RI.at(ts, w2)) != d)), patterns=[same_dir(ts, a, b, d)]),
    ]


def register(reg):
    reg.load("itconv")
    for name, fn in (("foreign_call", _foreign_call), ("builtin", _builtin), ("comprehension_over", _comprehension_over), ("slice", _slice),
                     ("for_iter", _for_iter), ("mutating_call", _mutating_call)):
        reg.add_hook(name, fn)
    for p in (groupby_axioms, term_axioms):
        if p not in reg.global_axioms:
            reg.global_axioms.append(p)


def sort_invariant(c, k, env, ts):
    """rows_list holds the target's rows sorted by the terms of the last k groups (from the start of group m-k on)."""
    from spec.laws import instance

    g = c.ghost["groups"]
    m = gcount(ts.z)
    X0 = V.content(env.target_rows.z)
    rows = env.rows_list
    return B(z3.And(0 <= k.z, k.z <= m, rows.z == V.s_sort(tsuffix(ts.z, gstart(ts.z, m - k.z)), X0)))
