"""C18: the iteration engine is lazy where documented.

Ghost state: ``RowIterable.iterations`` (Ref -> Int), the number of iterations started on each row iterable.
Everything that can start an iteration inside ``Engine.execute`` -- ``RowIterable.to_mapping``, ``materialized`` and
the ``list(target_rows)`` of the Sort arm -- modifies it in an unspecified way; constructing a generator-backed
iterable and ``sliced`` do not touch it (class contracts, assumed and bounded-checked).  The clause proved of
``execute``: on a tree made only of lazy operations the counters (and the payload cells) are left exactly as found.

The per-iteration clauses of the property (one pass over each leaf per full iteration; eager operations consume their
input once, at execute time; repeatable results) talk about generator bodies, which are outside the executor's
subset: they are covered by the bounded native stand-in replay/bounded_lazy.py and labelled bounded.
"""
from __future__ import annotations

import z3

from pyvc import smt
from pyvc.smt import SV, TBool
from contracts.apply import A, B, cid, is_marker, trivial_z
from contracts.iteration import payload_heap

KEY = "RowIterable.iterations"
HeapSort = z3.ArraySort(smt.Ref, smt.Ref)
lazy = z3.Function("lazy_tree", HeapSort, smt.Ref, smt.BoolS)  # executing this relation starts no iteration (under this payload heap)


def it_heap(c, old=False):
    return c.ex.heap_array(c.old if old else c.state, KEY, smt.IntS)


LAZY_OPS = ("Calculation", "Projection", "Selection", "Slice")


def lazy_axioms(ex):
    class _C:
        pass
    c = _C()
    c.ex = ex
    H, r = z3.Const("H", HeapSort), z3.Const("r", smt.Ref)
    t = smt.typ(r)
    short = z3.Or(trivial_z(c, r), z3.Select(H, r) != smt.NONE)  # execute() returns before looking at the tree
    uop = smt.typ(A(c, "UnaryOperationRelation", "operation")(r))
    bop = smt.typ(A(c, "BinaryOperationRelation", "operation")(r))
    ut, mt = A(c, "UnaryOperationRelation", "target")(r), A(c, "MarkerRelation", "target")(r)
    bl, br = A(c, "BinaryOperationRelation", "lhs")(r), A(c, "BinaryOperationRelation", "rhs")(r)

    def ax(cond, body):
        return z3.ForAll([H, r], z3.Implies(cond, lazy(H, r) == z3.Or(short, body)), patterns=[lazy(H, r)])

    return [
        ax(t == cid(c, "LeafRelation"), z3.BoolVal(True)),
        ax(t == cid(c, "UnaryOperationRelation"), z3.And(z3.Or(*[uop == cid(c, n) for n in LAZY_OPS]), lazy(H, ut))),
        ax(t == cid(c, "BinaryOperationRelation"), z3.And(bop == cid(c, "Chain"), lazy(H, bl), lazy(H, br))),
        ax(t == cid(c, "Materialization"), z3.BoolVal(False)),
        ax(z3.And(is_marker(c, r), t != cid(c, "Materialization")), lazy(H, mt)),
    ]


def register(reg):
    reg.load("iteration")
    reg.global_axioms.append(lazy_axioms)
    for m in ("to_mapping", "materialized"):
        k = reg.contracts[f"iteration._row_iterable:RowIterable.{m}"]
        k.modifies = tuple(k.modifies) + (KEY,)
    k = reg.contracts["iteration._engine:Engine.execute"]
    k.modifies = tuple(k.modifies) + (KEY,)
    k.properties = tuple(k.properties) + ("C18",)
    k.setup = lambda c: it_heap(c)
    _eager_clause(reg)
    k.ens("a-lazy-tree-is-executed-without-starting-any-iteration",
          lambda c: B(z3.Implies(lazy(payload_heap(c, True), c.relation.z), z3.And(it_heap(c) == it_heap(c, True), payload_heap(c) == payload_heap(c, True)))))


def _eager_clause(reg):
    """'Sort, deduplication and materialization consume their input at execute time and never again afterwards': what execute
    returns for them holds its rows (a RowSequence / RowMapping, whose content is a list / dict value), it is not a lazy view."""
    k = reg.contracts["iteration._engine:Engine.execute"]
    A_ = lambda c, cls, attr: c.ex.spec.A(cls, attr)  # noqa: E731

    def eager(c):
        r = c.relation.z
        t = smt.typ(r)
        uop = smt.typ(A_(c, "UnaryOperationRelation", "operation")(r))
        is_eager = z3.Or(z3.And(t == cid(c, "UnaryOperationRelation"), z3.Or(uop == cid(c, "Sort"), uop == cid(c, "Deduplication"))), t == cid(c, "Materialization"))
        shortcut = z3.Or(trivial_z(c, r), z3.Select(payload_heap(c, True), r) != smt.NONE)
        held = z3.Or(smt.typ(c.result.z) == cid(c, "RowSequence"), smt.typ(c.result.z) == cid(c, "RowMapping"))
        return B(z3.Implies(z3.And(is_eager, z3.Not(shortcut)), held))

    k.ens("an-eager-operation-returns-rows-it-holds", eager)


ITER_CALLS = {"list", "tuple", "set", "frozenset", "dict", "sorted", "sum", "min", "max", "any", "all", "enumerate", "zip", "map", "filter", "iter", "next", "reversed", "len"}


def _iteration_starts(fn_node, sources):
    """Syntactic iteration starts in a function body whose iterand mentions one of ``sources`` (expressions, as text
    prefixes such as 'self', 'self.target'): for loops, comprehension generators, ``yield from``, calls of the
    consuming builtins / itertools functions, star-unpacking and membership tests.  Returns [(lineno, text, nested)];
    ``nested`` = inside another loop or comprehension of the same function (so it may run more than once)."""
    import ast

    def mentions(e):
        txt = ast.unparse(e)
        for sub in ast.walk(e):
            if isinstance(sub, (ast.Name, ast.Attribute)) and ast.unparse(sub) in sources:
                return True
        return txt in sources

    out = []
    counted = set()  # iterand expressions already counted as the iterable of a loop / comprehension

    def visit(node, depth):
        for ch in ast.iter_child_nodes(node):
            if isinstance(ch, (ast.FunctionDef, ast.AsyncFunctionDef, ast.Lambda)) and ch is not fn_node:
                continue
            d2 = depth
            if isinstance(ch, (ast.For, ast.AsyncFor)):
                if mentions(ch.iter):
                    out.append((ch.lineno, "for ... in " + ast.unparse(ch.iter), depth > 0))
                    counted.add(id(ch.iter))
                d2 = depth + 1
            elif isinstance(ch, (ast.ListComp, ast.SetComp, ast.DictComp, ast.GeneratorExp)):
                for gi, g in enumerate(ch.generators):
                    if mentions(g.iter):
                        out.append((ch.lineno, "comprehension over " + ast.unparse(g.iter), depth > 0 or gi > 0))
                        counted.add(id(g.iter))
                d2 = depth + 1
            elif isinstance(ch, ast.YieldFrom) and mentions(ch.value):
                out.append((ch.lineno, "yield from " + ast.unparse(ch.value), depth > 0))
            elif isinstance(ch, ast.Call) and id(ch) not in counted:
                f = ast.unparse(ch.func)
                if (f in ITER_CALLS and f != "len") or f.startswith("itertools."):
                    for a in ch.args:
                        if mentions(a) and not isinstance(a, (ast.GeneratorExp, ast.ListComp, ast.SetComp, ast.DictComp)):
                            out.append((ch.lineno, f"{f}({ast.unparse(a)})", depth > 0))
            elif isinstance(ch, ast.Starred) and mentions(ch.value):
                out.append((ch.lineno, "*" + ast.unparse(ch.value), depth > 0))
            elif isinstance(ch, ast.Compare) and any(isinstance(o, (ast.In, ast.NotIn)) for o in ch.ops) and any(mentions(c) for c in ch.comparators):
                out.append((ch.lineno, ast.unparse(ch), depth > 0))
            visit(ch, d2)

    visit(fn_node, 0)
    return out


def effect_scan(repo, reg, tier):
    """Iteration-effect obligations generated from the current AST of iteration/_row_iterable.py (decided by the
    analysis above, no sampling):
      A  every ``__init__`` and every ``sliced`` of the RowIterable hierarchy starts no iteration of a row iterable
         (``self``, a parameter or an attribute holding one): this is what makes ``execute`` lazy for slices, and it is
         the class contract the deductive part assumes;
      B  every ``__iter__`` of a class that wraps other row iterables starts exactly one iteration of what it wraps per
         call, outside any loop: one pass over each source per full iteration."""
    import ast

    from pyvc.verify import PROVED, REFUTED, OblResult

    results = []
    mod = "iteration._row_iterable"
    base = repo.cls("RowIterable")
    classes = [c for c in repo.all_classes() if base in c.mro]
    n_init = n_iter = 0
    for ci in classes:
        # attributes that hold row iterables: parameters of __init__ annotated with RowIterable (or a sequence of them)
        holders = set()
        init = ci.methods.get("__init__") if hasattr(ci, "methods") else None
        fis = [f for f in repo.all_functions() if f.cls is ci]
        by_name = {f.name: f for f in fis}
        params_ri = set()
        if "__init__" in by_name:
            a = by_name["__init__"].node.args
            for p in a.args + a.kwonlyargs:
                if p.annotation is not None and "RowIterable" in ast.unparse(p.annotation):
                    params_ri.add(p.arg)
            for st in ast.walk(by_name["__init__"].node):
                if isinstance(st, ast.Assign) and isinstance(st.value, ast.Name) and st.value.id in params_ri:
                    for t in st.targets:
                        if isinstance(t, ast.Attribute) and ast.unparse(t.value) == "self":
                            holders.add("self." + t.attr)
        for name in ("__init__", "sliced"):
            fi = by_name.get(name)
            if fi is None:
                continue
            n_init += 1
            prm = {p.arg for p in fi.node.args.args + fi.node.args.kwonlyargs if p.annotation is not None and "RowIterable" in ast.unparse(p.annotation)}
            starts = _iteration_starts(fi.node, {"self"} | holders | prm)
            ok = not starts
            results.append(OblResult(f"effect/{fi.key}/starts-no-iteration", fi.key, "starts-no-iteration", "", "scan", PROVED if ok else REFUTED, solver="ast-scan",
                                     lineno=fi.node.lineno, reason="" if ok else f"{fi.key} iterates a row iterable: " + "; ".join(f"line {ln}: {tx}" for ln, tx, _ in starts)))
        fi = by_name.get("__iter__")
        if fi is not None and holders:
            n_iter += 1
            starts = _iteration_starts(fi.node, holders)
            ok = len(starts) == 1 and not starts[0][2]
            results.append(OblResult(f"effect/{fi.key}/one-pass-over-each-source", fi.key, "one-pass-over-each-source", "", "scan", PROVED if ok else REFUTED, solver="ast-scan",
                                     lineno=fi.node.lineno,
                                     reason="" if ok else f"{fi.key} does not start exactly one un-nested iteration of its sources: " + ("; ".join(f"line {ln}: {tx}{' (nested)' if ne else ''}" for ln, tx, ne in starts) or "none found")))
    if n_init < 8 or n_iter < 5:
        results.append(OblResult("effect/vacuity", "scan", "row-iterable-classes-found", "", "vacuity", "error", solver="ast-scan",
                                 reason=f"only {n_init} constructors/sliced and {n_iter} wrapping __iter__ methods found"))
    return results, ["iteration effects are recognised syntactically (for / comprehension / yield from / consuming builtins / itertools / * / in) on self, parameters and attributes "
                     "annotated as RowIterable; iteration through aliases, getattr or helper functions defined elsewhere is not seen"]


def bounded_extra(repo, reg, tier):
    """The per-iteration clauses: bounded native check with counting leaf payloads."""
    import os
    import subprocess

    from pyvc.verify import PROVED, REFUTED, OblResult

    script = os.path.join(os.path.dirname(os.path.dirname(os.path.abspath(__file__))), "replay", "bounded_lazy.py")
    n = "4000" if tier == "quick" else "40000"
    p = subprocess.run(["/venv/bin/python", script, n], capture_output=True, text=True, timeout=3000,
                       env={**os.environ, "PYTHONPATH": os.path.join(os.environ.get("PYVC_REPO", "/repo"), "python"), "PYTHONDONTWRITEBYTECODE": "1"})
    out = (p.stdout + p.stderr).strip()
    ok = "NOT-REPRODUCED" in out and p.returncode == 0
    bad = "REPRODUCED:" in out and "NOT-REPRODUCED" not in out
    r = OblResult("bounded/iteration-passes", f"bounded:replay/bounded_lazy.py {n}", "single-pass-and-repeatable", "", "bounded",
                  PROVED if ok else (REFUTED if bad else "error"), solver="native-bounded", reason=out[-600:])
    r.info["bounded"] = True
    return [r], [f"per-iteration clauses of C18 are only bounded-checked natively (replay/bounded_lazy.py, {n} random trees): " + out[-120:]]
