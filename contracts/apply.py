"""Contracts of the operation-application protocol (C03, C05, C14, C15, C20):
_begin_apply / _finish_apply / apply, Engine.append_* / transfer / materialize / backtrack_unary,
Transfer.simplify, Materialization.simplify, and the engine / is_locked / payload attributes."""
from __future__ import annotations

import z3

from pyvc import smt
from pyvc.smt import SV, TBool, TRefT, TTagSet
from spec import vocab as V


def B(z):
    return SV(TBool, z)


def cid(c, name):
    return c.ex.types.cid(c.ex.repo.cls(name))


def A(c, cls, attr):
    return c.ex.spec.A(cls, attr)


def eng(c, rel_z):
    return A(c, "BaseRelation", "engine")(rel_z)


def cols(c, rel_z):
    return A(c, "BaseRelation", "columns")(rel_z)


def is_marker(c, z):
    return c.ex.types.is_instance_z(z, c.ex.repo.cls("MarkerRelation"))


def engine_def(c, z, res):
    """Definition of the ``engine`` attribute on every non-leaf node kind."""
    t = smt.typ(z)
    u_t = A(c, "UnaryOperationRelation", "target")(z)
    return z3.And(
        z3.Implies(t == cid(c, "UnaryOperationRelation"), res == eng(c, u_t)),
        z3.Implies(t == cid(c, "BinaryOperationRelation"), res == eng(c, A(c, "BinaryOperationRelation", "lhs")(z))),
        z3.Implies(t == cid(c, "Transfer"), res == A(c, "Transfer", "destination")(z)),
        z3.Implies(z3.And(is_marker(c, z), t != cid(c, "Transfer")), res == eng(c, A(c, "MarkerRelation", "target")(z))),
        res != smt.NONE,
    )


def locked_def(c, z, res):
    return res == z3.Or(smt.typ(z) == cid(c, "LeafRelation"), smt.typ(z) == cid(c, "Materialization"))


HeapSort = z3.ArraySort(smt.Ref, smt.Ref)
# the relation's own engine can evaluate it without a Processor: every transfer / materialization below it (that is not
# statically trivial) already carries its payload
ready = z3.Function("ready", HeapSort, smt.Ref, smt.BoolS)


def trivial_z(c, r):
    mx = A(c, "BaseRelation", "max_rows")(r)
    return z3.Or(A(c, "BaseRelation", "is_join_identity")(r), mx == smt.OptInt.oi_some(z3.IntVal(0)))


def ready_axioms(ex):
    class _C:
        pass
    c = _C()
    c.ex = ex
    H = z3.Const("H", HeapSort)
    r = z3.Const("r", smt.Ref)
    has = z3.Select(H, r) != smt.NONE
    ut, mt = A(c, "UnaryOperationRelation", "target"), A(c, "MarkerRelation", "target")
    bl, br = A(c, "BinaryOperationRelation", "lhs"), A(c, "BinaryOperationRelation", "rhs")
    t = smt.typ(r)

    def ax(cond, body):
        return z3.ForAll([H, r], z3.Implies(cond, ready(H, r) == body), patterns=[ready(H, r)])

    return [
        ax(t == cid(c, "LeafRelation"), z3.BoolVal(True)),
        ax(t == cid(c, "UnaryOperationRelation"), ready(H, ut(r))),
        ax(t == cid(c, "BinaryOperationRelation"), z3.And(ready(H, bl(r)), ready(H, br(r)))),
        ax(t == cid(c, "Transfer"), z3.Or(trivial_z(c, r), has)),
        ax(t == cid(c, "Materialization"), z3.Or(trivial_z(c, r), has)),
        ax(z3.And(is_marker(c, r), t != cid(c, "Transfer"), t != cid(c, "Materialization")), z3.Or(has, ready(H, mt(r)))),
        # totality of the definition: 'ready' is only ever asked of relations; for any other reference it is True by convention
        ax(z3.Not(z3.Or(t == cid(c, "LeafRelation"), t == cid(c, "UnaryOperationRelation"), t == cid(c, "BinaryOperationRelation"), is_marker(c, r))), z3.BoolVal(True)),
    ]


extends = z3.Function("payload_heap_extends", HeapSort, HeapSort, smt.BoolS)  # H' keeps every payload H has
wit_ext = z3.Function("wit_extends", HeapSort, HeapSort, smt.Ref)


def extends_axioms(ex):
    H, H2, r = z3.Const("H", HeapSort), z3.Const("H2", HeapSort), z3.Const("r", smt.Ref)
    return extends_def_axioms(ex) + [
        # spec lemma: readiness is monotone in the payload heap.  Its induction step is a lemma obligation discharged by z3 on
        # every run (lemma_ready_monotone below); the induction principle itself (relation trees are finite: every child is
        # strictly lower, _height_axioms) is the usual meta-step of a recursive lemma with a decreases clause
        z3.ForAll([H, H2, r], z3.Implies(z3.And(extends(H, H2), ready(H, r)), ready(H2, r)), patterns=[z3.MultiPattern(extends(H, H2), ready(H, r))]),
    ]


def lemma_ready_monotone(ex):
    """Induction step of 'extends(H, H2) and ready(H, r) imply ready(H2, r)', by cases on the class of r, from the *definitions*
    of ready and extends only; the induction hypothesis is available for exactly the children the class of r has (each of them
    strictly lower in the tree)."""
    class _C:
        pass
    c = _C()
    c.ex = ex
    H, H2, r = z3.Const("lm_H", HeapSort), z3.Const("lm_H2", HeapSort), z3.Const("lm_r", smt.Ref)
    t = smt.typ(r)
    ut, mt = A(c, "UnaryOperationRelation", "target"), A(c, "MarkerRelation", "target")
    bl, br = A(c, "BinaryOperationRelation", "lhs"), A(c, "BinaryOperationRelation", "rhs")
    ih = lambda x: z3.Implies(ready(H, x), ready(H2, x))  # noqa: E731
    hyps = list(ready_axioms(ex)) + list(extends_def_axioms(ex)) + [
        extends(H, H2),
        z3.Implies(t == cid(c, "UnaryOperationRelation"), ih(ut(r))),
        z3.Implies(is_marker(c, r), ih(mt(r))),
        z3.Implies(t == cid(c, "BinaryOperationRelation"), z3.And(ih(bl(r)), ih(br(r)))),
    ]
    return hyps, z3.Implies(ready(H, r), ready(H2, r))


def lemma_ready_monotone_descends(ex):
    """The decreases clause of the recursive lemma: each child the induction hypothesis is used for is strictly lower."""
    from contracts.iteration import _height_axioms, height
    class _C:
        pass
    c = _C()
    c.ex = ex
    r = z3.Const("lm_r", smt.Ref)
    t = smt.typ(r)
    ut, mt = A(c, "UnaryOperationRelation", "target"), A(c, "MarkerRelation", "target")
    bl, br = A(c, "BinaryOperationRelation", "lhs"), A(c, "BinaryOperationRelation", "rhs")
    goal = z3.And(z3.Implies(t == cid(c, "UnaryOperationRelation"), height(ut(r)) < height(r)),
                  z3.Implies(is_marker(c, r), height(mt(r)) < height(r)),
                  z3.Implies(t == cid(c, "BinaryOperationRelation"), z3.And(height(bl(r)) < height(r), height(br(r)) < height(r))))
    return list(_height_axioms(ex)), goal


def extends_def_axioms(ex):
    H, H2, H3 = z3.Const("H", HeapSort), z3.Const("H2", HeapSort), z3.Const("H3", HeapSort)
    o, r = z3.Const("o", smt.Ref), z3.Const("r", smt.Ref)
    w = wit_ext(H, H2)
    return [
        z3.ForAll([H, H2, o], z3.Implies(z3.And(extends(H, H2), z3.Select(H, o) != smt.NONE), z3.Select(H2, o) == z3.Select(H, o)),
                  patterns=[z3.MultiPattern(extends(H, H2), z3.Select(H2, o))]),
        z3.ForAll([H, H2], z3.Implies(z3.Not(extends(H, H2)), z3.And(z3.Select(H, w) != smt.NONE, z3.Select(H2, w) != z3.Select(H, w))), patterns=[extends(H, H2)]),
        z3.ForAll([H], extends(H, H), patterns=[extends(H, H)]),
        z3.ForAll([H, H2, H3], z3.Implies(z3.And(extends(H, H2), extends(H2, H3)), extends(H, H3)), patterns=[z3.MultiPattern(extends(H, H2), extends(H2, H3))]),
    ]


def keeps_ready(c, result_z, *inputs):
    """No unprocessed transfer / materialization is introduced: if the inputs are self-contained so is the result."""
    H = z3.Const("g_H", HeapSort) if c.mode == "prove" else z3.Const(smt.fresh_name("qH"), HeapSort)
    body = z3.Implies(z3.And(*[ready(H, i) for i in inputs]), ready(H, result_z))
    return B(body) if c.mode == "prove" else B(z3.ForAll([H], body, patterns=[ready(H, result_z)]))


def truthful_cols(c, z):
    return cols(c, z) == V.rcols(V.rows(z))


def is_pj_b(c):
    return B(smt.typ(c.self.z) == cid(c, "PartialJoin"))


def register(reg):
    reg.load("ops", "payload", "names")
    P_ENG = ("C14",)
    # ------------------------------------------------------------------ engine / is_locked / payload attributes
    a = reg.contract("attr:BaseRelation.engine")
    a.ens("engine-definition", lambda c: B(engine_def(c, c.self.z, c.result.z)))
    for key in ("_operation_relations:UnaryOperationRelation.engine", "_operation_relations:BinaryOperationRelation.engine",
                "_marker_relation:MarkerRelation.engine", "_transfer:Transfer.engine"):
        k = reg.contract(key, attr=True, properties=P_ENG)
        k.ensures = list(a.ensures)
    a = reg.contract("attr:BaseRelation.is_locked")
    a.ens("locked-iff-leaf-or-materialization", lambda c: B(locked_def(c, c.self.z, c.result.z)))
    for key in ("_leaf_relation:LeafRelation.is_locked", "_marker_relation:MarkerRelation.is_locked", "_materialization:Materialization.is_locked",
                "_operation_relations:UnaryOperationRelation.is_locked", "_operation_relations:BinaryOperationRelation.is_locked"):
        k = reg.contract(key, attr=True, properties=("C15",))
        k.ensures = list(a.ensures)
    a = reg.contract("attr:BaseRelation.payload")
    a.ens("operation-nodes-have-no-payload",
          lambda c: B(z3.Implies(z3.Or(smt.typ(c.self.z) == cid(c, "UnaryOperationRelation"), smt.typ(c.self.z) == cid(c, "BinaryOperationRelation")), c.result.z == smt.NONE)))
    for key in ("_operation_relations:UnaryOperationRelation.payload", "_operation_relations:BinaryOperationRelation.payload"):
        k = reg.contract(key, attr=True, properties=("C10",))
        k.ensures = list(a.ensures)

    def attr_axioms(ex):
        class _C:  # minimal context for the helper functions above
            pass
        c = _C()
        c.ex = ex
        r = z3.Const("r", smt.Ref)
        e = A(c, "BaseRelation", "engine")
        lk = A(c, "BaseRelation", "is_locked")
        co = A(c, "BaseRelation", "columns")
        mt = A(c, "MarkerRelation", "target")
        mn, mx = A(c, "BaseRelation", "min_rows"), A(c, "BaseRelation", "max_rows")
        iji, itr = A(c, "BaseRelation", "is_join_identity"), A(c, "BaseRelation", "is_trivial")
        is_rel = lambda x: z3.And(x != smt.NONE, ex.types.is_instance_z(x, ex.repo.cls("BaseRelation")))  # noqa: E731
        is_mk = lambda x: z3.And(x != smt.NONE, ex.types.is_instance_z(x, ex.repo.cls("MarkerRelation")))  # noqa: E731
        return [z3.ForAll([r], z3.Implies(is_mk(r), co(r) == co(mt(r))), patterns=[co(r)]),
                z3.ForAll([r], z3.Implies(is_mk(r), mn(r) == mn(mt(r))), patterns=[mn(r)]),
                z3.ForAll([r], z3.Implies(is_mk(r), mx(r) == mx(mt(r))), patterns=[mx(r)]),
                z3.ForAll([r], z3.Implies(is_rel(r), iji(r) == z3.And(co(r) == smt.EMPTY_TAGS, mx(r) == smt.OptInt.oi_some(z3.IntVal(1)), mn(r) == 1)), patterns=[iji(r)]),
                z3.ForAll([r], z3.Implies(is_rel(r), itr(r) == z3.Or(iji(r), mx(r) == smt.OptInt.oi_some(z3.IntVal(0)))), patterns=[itr(r)]),
                z3.ForAll([r], z3.Implies(z3.And(r != smt.NONE, ex.types.is_instance_z(r, ex.repo.cls("BaseRelation"))), engine_def(c, r, e(r))), patterns=[e(r)]),
                z3.ForAll([r], z3.Implies(z3.And(r != smt.NONE, ex.types.is_instance_z(r, ex.repo.cls("BaseRelation"))), locked_def(c, r, lk(r))), patterns=[lk(r)])]

    # definitions of the pure attributes (each property body is proved against exactly these facts above)
    reg.global_axioms.append(attr_axioms)
    reg.global_axioms.append(ready_axioms)
    reg.global_axioms.append(extends_axioms)

    # ------------------------------------------------------------------ tree invariants that mention engines (C14)
    reg.object_invariant("UnaryOperationRelation", "operation-supported-by-engine",
                         lambda c, o: B(V.supp(c.attr(o, "operation").z, eng(c, c.attr(o, "target").z))))
    reg.object_invariant("Transfer", "transfer-changes-engine",
                         lambda c, o: B(c.attr(o, "destination").z != eng(c, c.attr(o, "target").z)))

    # a partial join is only built by Join.partial (which checks it) and by PartialJoin._begin_apply (which resolves the
    # join columns against the fixed relation): its explicit join columns are columns of the fixed relation
    reg.object_invariant("PartialJoin", "explicit-join-columns-are-columns-of-the-fixed-relation",
                         lambda c, o: B(z3.IsSubset(A(c, "Join", "min_columns")(c.attr(o, "binary").z), cols(c, c.attr(o, "fixed").z))))
    k = reg.contract("_operations._join:Join.partial", properties=("C14", "C20"))
    k.ens("a-partial-join-of-this-join-with-the-fixed-relation",
          lambda c: B(z3.And(smt.typ(c.result.z) == cid(c, "PartialJoin"), A(c, "PartialJoin", "binary")(c.result.z) == c.self.z,
                             A(c, "PartialJoin", "fixed")(c.result.z) == c.fix.z, A(c, "PartialJoin", "fixed_is_lhs")(c.result.z) == c.is_lhs.z)))
    k.must("missing-join-columns-rejected", "ColumnError", lambda c: B(z3.Not(z3.IsSubset(A(c, "Join", "min_columns")(c.self.z), cols(c, c.fix.z)))))
    k.raises("ColumnError", lambda c: B(z3.Not(z3.IsSubset(A(c, "Join", "min_columns")(c.self.z), cols(c, c.fix.z)))))

    # ------------------------------------------------------------------ _finish_apply (C05 / C14)
    def fin_post_rows(c):
        return B(V.rows(c.result.z) == V.sem(c.self.z, V.rows(c.target.z)))

    k = reg.contract("_unary_operation:UnaryOperation._finish_apply", virtual=True, properties=("C05", "C14"))
    k.req("operation-valid-on-target", lambda c: B(V.uvalid(c.self.z, cols(c, c.target.z))))
    k.req("target-columns-truthful", lambda c: B(truthful_cols(c, c.target.z)))
    k.ens("result-rows-are-the-operation-applied", fin_post_rows)
    is_pj = lambda c: smt.typ(c.self.z) == cid(c, "PartialJoin")  # noqa: E731
    k.ens("result-stays-in-the-targets-engine", lambda c: B(z3.Implies(z3.Not(is_pj(c)), eng(c, c.result.z) == eng(c, c.target.z))))
    k.ens("result-columns-truthful", lambda c: B(truthful_cols(c, c.result.z)))
    k.ens("identity-returns-the-target-itself", lambda c: B(z3.Implies(smt.typ(c.self.z) == cid(c, "Identity"), c.result.z == c.target.z)))
    k.ens("introduces-no-unprocessed-transfer", lambda c: B(z3.Implies(z3.Not(is_pj(c)), keeps_ready(c, c.result.z, c.target.z).z)))
    k.ens("a-join-lands-in-an-operand-engine",
          lambda c: B(z3.Implies(is_pj(c), z3.Or(eng(c, c.result.z) == eng(c, c.target.z), eng(c, c.result.z) == eng(c, A(c, "PartialJoin", "fixed")(c.self.z))))))
    k.raises("EngineError", lambda c: B(z3.Or(z3.Not(V.supp(c.self.z, eng(c, c.target.z))), is_pj(c))))
    # a join is completed by BinaryOperation.apply, which validates it against both operands
    k.raises("ColumnError", is_pj_b)
    k.raises("RelationalAlgebraError", is_pj_b)


# ====================================================================== _begin_apply / apply / engines
def triv_sym(c):
    return c.ex.pure_symbol("_columns._predicate:Predicate.as_trivial", [smt.Ref], smt.Tri)


def ill_formed(c, op, C):
    """C20: the request is ill-formed for a target with columns C (documented ColumnError cases)."""
    t = smt.typ(op)
    miss = z3.Not(z3.IsSubset(V.opreq(op), C))
    terms = A(c, "Sort", "terms")(op)
    jb = A(c, "PartialJoin", "binary")(op)
    resolved = A(c, "Join", "max_columns")(jb) == smt.OptTagSet.ots_some(A(c, "Join", "min_columns")(jb))
    return z3.Or(
        z3.And(t == cid(c, "Calculation"), z3.Or(miss, z3.IsMember(A(c, "Calculation", "tag")(op), C))),
        z3.And(t == cid(c, "Projection"), miss),
        z3.And(t == cid(c, "Selection"), triv_sym(c)(A(c, "Selection", "predicate")(op)) != smt.TRI_T, miss),
        z3.And(t == cid(c, "Sort"), V.SeqRef.info.len(terms) > 0, miss),
        z3.And(t == cid(c, "PartialJoin"), resolved, miss),
    )


def register_apply(reg):
    TOp = TRefT(reg_cls(reg, "UnaryOperation"))
    TEngine = TRefT(reg_cls(reg, "Engine"))
    TRel = TRefT(reg_cls(reg, "BaseRelation"))
    PB = ("C03", "C05", "C14", "C20")

    # -------------------------------------------------------------- _begin_apply
    k = reg.contract("_unary_operation:UnaryOperation._begin_apply", virtual=True, pure=True, properties=PB,
                     result_td=smt.TTupleT([TOp, TEngine]))
    k.req("target-columns-truthful", lambda c: B(truthful_cols(c, c.target.z)))

    def op2(c):
        return c.result.items[0].z

    def g2(c):
        return c.result.items[1].z

    k.ens("elided-only-if-a-no-op", lambda c: B(z3.Implies(smt.typ(op2(c)) == cid(c, "Identity"), V.sem(c.self.z, V.rows(c.target.z)) == V.rows(c.target.z))))
    k.ens("kept-operation-valid-on-target", lambda c: B(V.uvalid(op2(c), cols(c, c.target.z))))
    k.ens("kept-operation-means-the-same",
          lambda c: B(z3.Implies(smt.typ(op2(c)) != cid(c, "Identity"), V.sem(op2(c), V.rows(c.target.z)) == V.sem(c.self.z, V.rows(c.target.z)))))
    k.ens("kept-operation-supported-like-the-request",
          lambda c: c.forall([(TRefT(None), "eng")], lambda g: B(z3.Implies(V.supp(c.self.z, g.z), V.supp(op2(c), g.z))), patterns=lambda g: [V.supp(op2(c), g.z)]))
    k.ens("no-op-stays-in-the-targets-engine",
          lambda c: B(z3.Implies(z3.And(smt.typ(op2(c)) == cid(c, "Identity"), smt.typ(c.self.z) != cid(c, "Identity")), g2(c) == eng(c, c.target.z))))
    k.ens("preferred-engine-honoured",
          lambda c: B(z3.Implies(z3.And(smt.typ(op2(c)) != cid(c, "Identity"), c.preferred_engine.z != smt.NONE), g2(c) == c.preferred_engine.z)))
    k.ens("without-a-preferred-engine-the-targets-engine-is-used",
          lambda c: B(z3.Implies(z3.And(c.preferred_engine.z == smt.NONE, smt.typ(c.self.z) != cid(c, "PartialJoin")), g2(c) == eng(c, c.target.z))))
    k.ens("default-engine",
          lambda c: B(z3.Implies(z3.And(smt.typ(op2(c)) != cid(c, "Identity"), c.preferred_engine.z == smt.NONE),
                                 g2(c) == z3.If(smt.typ(c.self.z) == cid(c, "PartialJoin"), eng(c, A(c, "PartialJoin", "fixed")(c.self.z)), eng(c, c.target.z)))))
    k.ens("same-kind-of-operation-or-identity", lambda c: B(z3.Or(smt.typ(op2(c)) == cid(c, "Identity"), smt.typ(op2(c)) == smt.typ(c.self.z))))
    def pj_kept(c):
        o, me = op2(c), c.self.z
        jb, jb0 = A(c, "PartialJoin", "binary")(o), A(c, "PartialJoin", "binary")(me)
        fx = A(c, "PartialJoin", "fixed")
        Kmin = A(c, "Join", "min_columns")(jb)
        return z3.Implies(z3.And(smt.typ(me) == cid(c, "PartialJoin"), smt.typ(o) == cid(c, "PartialJoin")),
                          z3.And(A(c, "Join", "max_columns")(jb) == smt.OptTagSet.ots_some(Kmin), fx(o) == fx(me),
                                 A(c, "PartialJoin", "fixed_is_lhs")(o) == A(c, "PartialJoin", "fixed_is_lhs")(me),
                                 A(c, "Join", "predicate")(jb) == A(c, "Join", "predicate")(jb0),
                                 Kmin == V.jresolve(jb0, cols(c, fx(me)), cols(c, c.target.z)),
                                 z3.IsSubset(Kmin, cols(c, fx(me)))))

    k.ens("join-resolved-against-this-target", lambda c: B(pj_kept(c)))
    k.must("ill-formed-request-rejected", "ColumnError", lambda c: B(ill_formed(c, c.self.z, cols(c, c.target.z))))
    k.raises("ColumnError", lambda c: B(z3.Or(z3.Not(V.uvalid(c.self.z, cols(c, c.target.z))), smt.typ(c.self.z) == cid(c, "PartialJoin"))))


    ks = reg.derive("_operations._sort:Sort._begin_apply", "_unary_operation:UnaryOperation._begin_apply")
    ks.inv(0, lambda c, i, env, seq: B(z3.IsSubset(V.fvtp(seq.z, i.z), cols(c, c.target.z))))


def reg_cls(reg, name):
    from pyvc.frontend import Repo

    if not hasattr(reg, "_repo"):
        reg._repo = Repo()
    return reg._repo.cls(name)


_prev_register = register


def register(reg):  # noqa: F811
    _prev_register(reg)
    register_apply(reg)


def pj_unshadowed(c, op, rel_z):
    """Precondition restricting joins (C02/C03/C04 leave the provenance of columns exposed by both operands open)."""
    jb = A(c, "PartialJoin", "binary")(op)
    fx = A(c, "PartialJoin", "fixed")(op)
    Fc = cols(c, fx)
    K = V.jresolve(jb, Fc, cols(c, rel_z))
    K2 = V.jresolve(jb, cols(c, rel_z), Fc)
    return z3.Implies(smt.typ(op) == cid(c, "PartialJoin"),
                      z3.And(z3.IsSubset(z3.SetIntersect(cols(c, rel_z), Fc), K), z3.IsSubset(z3.SetIntersect(cols(c, rel_z), Fc), K2), Fc == V.rcols(V.rows(fx)),
                             z3.IsSubset(V.fv(A(c, "Join", "predicate")(jb)), z3.SetUnion(cols(c, rel_z), Fc))))


def register_engines(reg):
    TOp = TRefT(reg_cls(reg, "UnaryOperation"))
    TEngine = TRefT(reg_cls(reg, "Engine"))
    TRel = TRefT(reg_cls(reg, "BaseRelation"))
    TMsgs = smt.TSeqT(smt.TStr)
    SQL_UNVERIFIED = "implementations in lsst.daf.relation.sql are covered by the SQL contracts (C02/C17), not by this check"

    # -------------------------------------------------------------- MarkerRelation.reapply (C15: locked nodes are never rebuilt)
    k = reg.contract("_marker_relation:MarkerRelation.reapply", properties=("C15", "C14", "C03", "C07"), self_classes=("MarkerRelation", "Transfer"), modifies=("BaseRelation.payload",))
    _ph = lambda c, old=False: c.ex.heap_array(c.old if old else c.state, "BaseRelation.payload", smt.Ref)  # noqa: E731
    _o = z3.Const("o", smt.Ref)
    k.ens("new-marker-carries-the-given-payload-nothing-else-changes",
          lambda c: B(z3.And(z3.Implies(c.result.z != c.self.z, z3.Select(_ph(c), c.result.z) == c.payload.z),
                             z3.ForAll([_o], z3.Implies(_o != c.result.z, z3.Select(_ph(c), _o) == z3.Select(_ph(c, True), _o)), patterns=[z3.Select(_ph(c), _o)]),
                             z3.Implies(c.result.z == c.self.z, _ph(c) == _ph(c, True)),
                             z3.Implies(c.result.z != c.self.z, c.allocated_by_call(c.result.z)))))
    k.req("locked-nodes-are-never-rebuilt", lambda c: B(smt.typ(c.self.z) != cid(c, "Materialization")))
    k.req("not-a-select-marker", lambda c: B(smt.typ(c.self.z) != cid(c, "Select")))
    k.req("a-carried-payload-holds-the-new-targets-rows", lambda c: B(z3.Or(c.payload.z == smt.NONE, V.content(c.payload.z) == V.rows(c.target.z))))
    k.req("transfer-still-changes-engine", lambda c: B(z3.Implies(smt.typ(c.self.z) == cid(c, "Transfer"), A(c, "Transfer", "destination")(c.self.z) != eng(c, c.target.z))))
    k.ens("unchanged-arguments-return-the-marker-itself",
          lambda c: B(z3.Implies(z3.And(c.target.z == A(c, "MarkerRelation", "target")(c.self.z), c.payload.z == c.attr(c.self, "payload", old=True).z), c.result.z == c.self.z)))
    k.ens("the-marker-itself-only-for-unchanged-arguments",
          lambda c: B(z3.Implies(c.result.z == c.self.z, z3.And(c.target.z == A(c, "MarkerRelation", "target")(c.self.z), c.payload.z == c.attr(c.self, "payload", old=True).z))))
    k.ens("keeps-every-existing-payload", lambda c: B(z3.Implies(z3.Select(_ph(c, True), c.result.z) == smt.NONE, extends(_ph(c, True), _ph(c)))))
    k.ens("ready-when-a-payload-is-given-or-a-plain-marker-over-a-ready-target",
          lambda c: B(z3.Implies(z3.Or(c.payload.z != smt.NONE, z3.And(smt.typ(c.self.z) != cid(c, "Transfer"), ready(_ph(c), c.target.z))), ready(_ph(c), c.result.z))))
    k.ens("same-kind-of-marker-over-the-new-target",
          lambda c: B(z3.And(smt.typ(c.result.z) == smt.typ(c.self.z), A(c, "MarkerRelation", "target")(c.result.z) == c.target.z,
                             z3.Implies(smt.typ(c.self.z) == cid(c, "Transfer"), A(c, "Transfer", "destination")(c.result.z) == A(c, "Transfer", "destination")(c.self.z)))))

    # -------------------------------------------------------------- Transfer.simplify / Materialization.simplify (C15)
    k = reg.contract("_transfer:Transfer.simplify", properties=("C15",), pure=True)
    k.ens("locked-target-is-never-looked-through", lambda c: B(z3.Implies(A(c, "BaseRelation", "is_locked")(c.target.z), c.result.z == smt.NONE)))
    k.ens("shortcut-has-the-same-rows-in-the-destination-engine",
          lambda c: B(z3.Implies(c.result.z != smt.NONE, z3.And(V.rows(c.result.z) == V.rows(c.target.z), eng(c, c.result.z) == c.destination.z,
                                                                cols(c, c.result.z) == cols(c, c.target.z)))))
    k = reg.contract("_materialization:Materialization.simplify", properties=("C15",), pure=True)
    mat_or_leaf = lambda c, z: z3.Or(smt.typ(z) == cid(c, "Materialization"), smt.typ(z) == cid(c, "LeafRelation"))  # noqa: E731
    k.ens("only-for-leaves-and-materializations-behind-same-engine-markers",
          lambda c: B(z3.Implies(c.result.z, z3.Or(mat_or_leaf(c, c.target.z), is_marker(c, c.target.z)))))

    simp = lambda c: c.ex.pure_symbol("_materialization:Materialization.simplify", [smt.Ref], smt.BoolS)  # noqa: E731
    k.ens("exactly-leaves-and-materializations-possibly-behind-same-engine-markers",
          lambda c: B(c.result.z == z3.Or(mat_or_leaf(c, c.target.z),
                                          z3.And(is_marker(c, c.target.z), eng(c, c.target.z) == eng(c, A(c, "MarkerRelation", "target")(c.target.z)),
                                                 simp(c)(A(c, "MarkerRelation", "target")(c.target.z))))))
    k.ens("markers-are-looked-through-only-within-one-engine",
          lambda c: B(z3.Implies(z3.And(c.result.z, is_marker(c, c.target.z), smt.typ(c.target.z) != cid(c, "Materialization")),
                                 eng(c, c.target.z) == eng(c, A(c, "MarkerRelation", "target")(c.target.z)))))

    # -------------------------------------------------------------- Engine methods (virtual)
    k = reg.contract("_engine:Engine.conform", virtual=True, unverified_impls=("sql.",), properties=("C17", "C14"), note=SQL_UNVERIFIED)
    k.ens("same-rows-engine-columns", lambda c: B(z3.And(V.rows(c.result.z) == V.rows(c.relation.z), eng(c, c.result.z) == eng(c, c.relation.z),
                                                         cols(c, c.result.z) == cols(c, c.relation.z))))

    k = reg.contract("_engine:Engine.append_unary", virtual=True, unverified_impls=("sql.",), properties=("C03", "C05", "C14"), note=SQL_UNVERIFIED)
    k.req("operation-valid-on-target", lambda c: B(V.uvalid(c.operation.z, cols(c, c.target.z))))
    k.req("target-columns-truthful", lambda c: B(truthful_cols(c, c.target.z)))
    k.ens("rows-are-the-operation-applied", lambda c: B(V.rows(c.result.z) == V.sem(c.operation.z, V.rows(c.target.z))))
    k.ens("stays-in-the-targets-engine", lambda c: B(z3.Implies(smt.typ(c.operation.z) != cid(c, "PartialJoin"), eng(c, c.result.z) == eng(c, c.target.z))))
    k.ens("result-columns-truthful", lambda c: B(truthful_cols(c, c.result.z)))
    k.ens("identity-returns-the-target-itself", lambda c: B(z3.Implies(smt.typ(c.operation.z) == cid(c, "Identity"), c.result.z == c.target.z)))
    k.ens("introduces-no-unprocessed-transfer", lambda c: B(z3.Implies(smt.typ(c.operation.z) != cid(c, "PartialJoin"), keeps_ready(c, c.result.z, c.target.z).z)))
    k.ens("a-join-lands-in-an-operand-engine",
          lambda c: B(z3.Implies(smt.typ(c.operation.z) == cid(c, "PartialJoin"),
                                 z3.Or(eng(c, c.result.z) == eng(c, c.target.z), eng(c, c.result.z) == eng(c, A(c, "PartialJoin", "fixed")(c.operation.z))))))
    k.raises("EngineError", lambda c: B(z3.Or(z3.Not(V.supp(c.operation.z, eng(c, c.target.z))), smt.typ(c.operation.z) == cid(c, "PartialJoin"))))
    k.raises("ColumnError", lambda c: B(smt.typ(c.operation.z) == cid(c, "PartialJoin")))
    k.raises("RelationalAlgebraError", lambda c: B(smt.typ(c.operation.z) == cid(c, "PartialJoin")))

    k = reg.contract("_engine:Engine.transfer", virtual=True, unverified_impls=("sql.",), properties=("C15", "C14", "C03"), note=SQL_UNVERIFIED)
    k.req("target-columns-truthful", lambda c: B(truthful_cols(c, c.target.z)))
    k.ens("same-rows-in-the-requested-engine", lambda c: B(z3.And(V.rows(c.result.z) == V.rows(c.target.z), eng(c, c.result.z) == c.self.z,
                                                                  cols(c, c.result.z) == cols(c, c.target.z), truthful_cols(c, c.result.z))))
    k.raises("EngineError", lambda c: B(c.payload.z != smt.NONE))
    k.ens("transfer-to-the-current-engine-is-a-no-op",
          lambda c: B(z3.Implies(z3.And(eng(c, c.target.z) == c.self.z, c.payload.z == smt.NONE,
                                        c.ex.pure_symbol("_transfer:Transfer.simplify", [smt.Ref, smt.Ref], smt.Ref)(c.target.z, c.self.z) == smt.NONE),
                                 c.result.z == c.target.z)))
    k.ens("a-real-transfer-node-crosses-engines",
          lambda c: B(z3.Implies(smt.typ(c.result.z) == cid(c, "Transfer"), A(c, "Transfer", "destination")(c.result.z) != eng(c, A(c, "MarkerRelation", "target")(c.result.z)))))

    k = reg.contract("_engine:Engine.materialize", virtual=True, unverified_impls=("sql.",), properties=("C15", "C19"), note=SQL_UNVERIFIED)
    k.ens("same-rows-same-engine", lambda c: B(z3.And(V.rows(c.result.z) == V.rows(c.target.z), eng(c, c.result.z) == eng(c, c.target.z))))
    k.ens("otherwise-a-new-empty-materialization-of-the-target",
          lambda c: B(z3.Or(c.result.z == c.target.z,
                            z3.And(smt.typ(c.result.z) == cid(c, "Materialization"), c.allocated_by_call(c.result.z),
                                   c.ex.types.attr_symbol(c.ex.repo.cls("MarkerRelation"), "target", TRefT(c.ex.repo.cls("BaseRelation")))(c.result.z) == c.target.z))))
    k.ens("the-target-itself-only-when-there-is-nothing-to-materialize",
          lambda c: B(z3.Implies(c.result.z == c.target.z,
                                 z3.And(c.ex.pure_symbol("_materialization:Materialization.simplify", [smt.Ref], smt.BoolS)(c.target.z),
                                        z3.Or(smt.typ(c.target.z) == cid(c, "Materialization"), smt.typ(c.target.z) == cid(c, "LeafRelation"),
                                              z3.And(is_marker(c, c.target.z), eng(c, c.target.z) == eng(c, A(c, "MarkerRelation", "target")(c.target.z))))))))
    k.ens("leaves-and-materializations-are-not-materialized-again",
          lambda c: B(z3.Implies(c.ex.pure_symbol("_materialization:Materialization.simplify", [smt.Ref], smt.BoolS)(c.target.z), c.result.z == c.target.z)))
    k.raises("RelationalAlgebraError", None)

    def bt_cells(c):
        op, tree = c.operation.z, c.tree.z
        cur = A(c, "UnaryOperationRelation", "operation")(tree)
        unary = smt.typ(tree) == cid(c, "UnaryOperationRelation")
        pj, pr = smt.typ(op) == cid(c, "PartialJoin"), smt.typ(op) == cid(c, "Projection")
        past_proj = z3.And(unary, smt.typ(cur) == cid(c, "Projection"))
        past_dedup = z3.And(unary, smt.typ(cur) == cid(c, "Deduplication"))
        past_sort = z3.And(unary, smt.typ(cur) == cid(c, "Sort"))
        return [("join-past-projection", z3.And(pj, past_proj)), ("join-past-sort", z3.And(pj, past_sort)), ("join-other", z3.And(pj, z3.Not(past_proj), z3.Not(past_sort))),
                ("projection-past-deduplication", z3.And(pr, past_dedup)), ("projection-other", z3.And(pr, z3.Not(past_dedup))),
                ("other", z3.And(z3.Not(pj), z3.Not(pr)))]

    k = reg.contract("_engine:Engine.backtrack_unary", virtual=True, properties=("C03", "C15"), result_td=smt.TTupleT([TRel, smt.TBool, TMsgs]),
                     split=bt_cells, split_all=True)
    k.req("operation-valid-at-the-root", lambda c: B(V.uvalid(c.operation.z, cols(c, c.tree.z))))
    k.req("tree-columns-truthful", lambda c: B(truthful_cols(c, c.tree.z)))
    k.req("join-unshadowed", lambda c: B(pj_unshadowed(c, c.operation.z, c.tree.z)))
    k.req("join-prefers-its-fixed-operands-engine",
          lambda c: B(z3.Implies(smt.typ(c.operation.z) == cid(c, "PartialJoin"), eng(c, A(c, "PartialJoin", "fixed")(c.operation.z)) == c.preferred.z)))
    k.req("join-resolved", lambda c: B(z3.Implies(smt.typ(c.operation.z) == cid(c, "PartialJoin"),
                                                  z3.And(A(c, "Join", "max_columns")(A(c, "PartialJoin", "binary")(c.operation.z)) == smt.OptTagSet.ots_some(A(c, "Join", "min_columns")(A(c, "PartialJoin", "binary")(c.operation.z))),
                                                         z3.IsSubset(A(c, "Join", "min_columns")(A(c, "PartialJoin", "binary")(c.operation.z)), cols(c, A(c, "PartialJoin", "fixed")(c.operation.z)))))))
    new = lambda c: c.result.items[0].z  # noqa: E731
    done = lambda c: c.result.items[1].z  # noqa: E731
    k.ens("stays-in-the-trees-engine",
          lambda c: B(z3.And(z3.Implies(smt.typ(c.operation.z) != cid(c, "PartialJoin"), eng(c, new(c)) == eng(c, c.tree.z)), truthful_cols(c, new(c)))))
    k.ens("a-join-stays-in-the-trees-engine-too",
          lambda c: B(z3.Implies(smt.typ(c.operation.z) == cid(c, "PartialJoin"), eng(c, new(c)) == eng(c, c.tree.z))))
    k.ens("full-success-means-operation-applied", lambda c: B(z3.Implies(done(c), V.rows(new(c)) == V.sem(c.operation.z, V.rows(c.tree.z)))))
    def narrowed(c):
        P = A(c, "Projection", "columns")(c.operation.z)
        # (the narrowed relation never has MORE columns than the node it replaces: what lets the nodes above it be rebuilt)
        return z3.And(smt.typ(c.operation.z) == cid(c, "Projection"), z3.IsSubset(P, cols(c, new(c))), z3.IsSubset(cols(c, new(c)), cols(c, c.tree.z)),
                      V.s_proj(P, V.rows(new(c))) == V.s_proj(P, V.rows(c.tree.z)))

    k.ens("partial-success-only-narrows-a-projection", lambda c: B(z3.Implies(z3.Not(done(c)), z3.Or(new(c) == c.tree.z, narrowed(c)))))
    k.ens("locked-tree-untouched", lambda c: B(z3.Implies(A(c, "BaseRelation", "is_locked")(c.tree.z), z3.And(new(c) == c.tree.z, z3.Not(done(c))))))
    k.raises("EngineError", None)
    k.raises("RelationalAlgebraError", None)
    k.raises("NotImplementedError", None)

    # -------------------------------------------------------------- UnaryOperation.apply (C03 / C14 / C20)
    k = reg.contract("_unary_operation:UnaryOperation.apply", properties=("C03", "C14", "C20"))
    k.req("target-columns-truthful", lambda c: B(truthful_cols(c, c.target.z)))
    k.req("join-unshadowed", lambda c: B(pj_unshadowed(c, c.self.z, c.target.z)))
    k.req("join-prefers-its-fixed-operands-engine",
          lambda c: B(z3.Implies(smt.typ(c.self.z) == cid(c, "PartialJoin"),
                                 z3.Or(c.preferred_engine.z == smt.NONE, c.preferred_engine.z == eng(c, A(c, "PartialJoin", "fixed")(c.self.z))))))
    k.ens("content-is-the-operation-applied-at-the-root", lambda c: B(V.rows(c.result.z) == V.sem(c.self.z, V.rows(c.target.z))))
    k.ens("result-columns-truthful", lambda c: B(truthful_cols(c, c.result.z)))
    k.ens("without-transfer-the-result-stays-in-the-targets-engine",
          lambda c: B(z3.Implies(z3.And(z3.Not(c.transfer.z), smt.typ(c.self.z) != cid(c, "PartialJoin")), eng(c, c.result.z) == eng(c, c.target.z))))
    def begin_op(c):
        f = c.ex.pure_symbol("_unary_operation:UnaryOperation._begin_apply#0", [smt.Ref, smt.Ref, smt.Ref], smt.Ref)
        return f(c.self.z, c.target.z, c.preferred_engine.z)

    k.ens("documented-no-op-returns-the-relation-itself",
          lambda c: B(z3.Implies(z3.And(smt.typ(begin_op(c)) == cid(c, "Identity"), smt.typ(c.self.z) != cid(c, "Identity")), c.result.z == c.target.z)))
    k.ens("at-the-root-no-unprocessed-transfer-is-introduced",
          lambda c: B(z3.Implies(z3.And(c.preferred_engine.z == smt.NONE, smt.typ(c.self.z) != cid(c, "PartialJoin")), keeps_ready(c, c.result.z, c.target.z).z)))
    k.ens("a-join-lands-in-an-operand-engine",
          lambda c: B(z3.Implies(z3.And(z3.Not(c.transfer.z), smt.typ(c.self.z) == cid(c, "PartialJoin")),
                                 z3.Or(eng(c, c.result.z) == eng(c, c.target.z), eng(c, c.result.z) == eng(c, A(c, "PartialJoin", "fixed")(c.self.z))))))
    k.must("ill-formed-request-rejected-whatever-the-options", "ColumnError", lambda c: B(ill_formed(c, c.self.z, cols(c, c.target.z))))
    k.raises("ColumnError", lambda c: B(z3.Or(z3.Not(V.uvalid(c.self.z, cols(c, c.target.z))), smt.typ(c.self.z) == cid(c, "PartialJoin"))))
    k.raises("EngineError", None)
    k.raises("RelationalAlgebraError", None)
    k.raises("NotImplementedError", lambda c: B(z3.BoolVal(True)))

    # Join.applied_common_columns is the specification's notion of the natural-join columns
    k = reg.contract("_operations._join:Join.applied_common_columns", properties=("C14", "C20"), pure=True)
    k.ens("natural-join-columns", lambda c: B(c.result.z == V.jresolve(c.self.z, cols(c, c.lhs.z), cols(c, c.rhs.z))))
    k.raises("ColumnError", None)


_prev_register2 = register


def register(reg):  # noqa: F811
    _prev_register2(reg)
    register_engines(reg)
