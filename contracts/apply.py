"""Contracts of the operation-application protocol (C03, C05, C14, C15, C20):
_begin_apply / _finish_apply / apply, Engine.append_* / transfer / materialize / backtrack_unary,
Transfer.simplify, Materialization.simplify, and the engine / is_locked / payload attributes."""
from __future__ import annotations

import z3

from pyvc import smt
from pyvc.smt import SV, TBool, TRefT, TTagSet
from spec import vocab as V


def B(z):
    return SV(TBool, z)


def cid(c, name):
    return c.ex.types.cid(c.ex.repo.cls(name))


def A(c, cls, attr):
    return c.ex.spec.A(cls, attr)


def eng(c, rel_z):
    return A(c, "BaseRelation", "engine")(rel_z)


def cols(c, rel_z):
    return A(c, "BaseRelation", "columns")(rel_z)


def is_marker(c, z):
    return c.ex.types.is_instance_z(z, c.ex.repo.cls("MarkerRelation"))


def engine_def(c, z, res):
    """Definition of the ``engine`` attribute on every non-leaf node kind."""
    t = smt.typ(z)
    u_t = A(c, "UnaryOperationRelation", "target")(z)
    return z3.And(
        z3.Implies(t == cid(c, "UnaryOperationRelation"), res == eng(c, u_t)),
        z3.Implies(t == cid(c, "BinaryOperationRelation"), res == eng(c, A(c, "BinaryOperationRelation", "lhs")(z))),
        z3.Implies(t == cid(c, "Transfer"), res == A(c, "Transfer", "destination")(z)),
        z3.Implies(z3.And(is_marker(c, z), t != cid(c, "Transfer")), res == eng(c, A(c, "MarkerRelation", "target")(z))),
        res != smt.NONE,
    )


def locked_def(c, z, res):
    return res == z3.Or(smt.typ(z) == cid(c, "LeafRelation"), smt.typ(z) == cid(c, "Materialization"))


def truthful_cols(c, z):
    return cols(c, z) == V.rcols(V.rows(z))


def register(reg):
    reg.load("ops", "payload", "names")
    P_ENG = ("C14",)
    # ------------------------------------------------------------------ engine / is_locked / payload attributes
    a = reg.contract("attr:BaseRelation.engine")
    a.ens("engine-definition", lambda c: B(engine_def(c, c.self.z, c.result.z)))
    for key in ("_operation_relations:UnaryOperationRelation.engine", "_operation_relations:BinaryOperationRelation.engine",
                "_marker_relation:MarkerRelation.engine", "_transfer:Transfer.engine"):
        k = reg.contract(key, attr=True, properties=P_ENG)
        k.ensures = list(a.ensures)
    a = reg.contract("attr:BaseRelation.is_locked")
    a.ens("locked-iff-leaf-or-materialization", lambda c: B(locked_def(c, c.self.z, c.result.z)))
    for key in ("_leaf_relation:LeafRelation.is_locked", "_marker_relation:MarkerRelation.is_locked", "_materialization:Materialization.is_locked",
                "_operation_relations:UnaryOperationRelation.is_locked", "_operation_relations:BinaryOperationRelation.is_locked"):
        k = reg.contract(key, attr=True, properties=("C15",))
        k.ensures = list(a.ensures)
    a = reg.contract("attr:BaseRelation.payload")
    a.ens("operation-nodes-have-no-payload",
          lambda c: B(z3.Implies(z3.Or(smt.typ(c.self.z) == cid(c, "UnaryOperationRelation"), smt.typ(c.self.z) == cid(c, "BinaryOperationRelation")), c.result.z == smt.NONE)))
    for key in ("_operation_relations:UnaryOperationRelation.payload", "_operation_relations:BinaryOperationRelation.payload"):
        k = reg.contract(key, attr=True, properties=("C10",))
        k.ensures = list(a.ensures)

    def attr_axioms(ex):
        class _C:  # minimal context for the helper functions above
            pass
        c = _C()
        c.ex = ex
        r = z3.Const("r", smt.Ref)
        e = A(c, "BaseRelation", "engine")
        lk = A(c, "BaseRelation", "is_locked")
        return [z3.ForAll([r], z3.Implies(z3.And(r != smt.NONE, ex.types.is_instance_z(r, ex.repo.cls("BaseRelation"))), engine_def(c, r, e(r))), patterns=[e(r)]),
                z3.ForAll([r], z3.Implies(z3.And(r != smt.NONE, ex.types.is_instance_z(r, ex.repo.cls("BaseRelation"))), locked_def(c, r, lk(r))), patterns=[lk(r)])]

    # definitions of the pure attributes (each property body is proved against exactly these facts above)
    reg.global_axioms.append(attr_axioms)

    # ------------------------------------------------------------------ tree invariants that mention engines (C14)
    reg.object_invariant("UnaryOperationRelation", "operation-supported-by-engine",
                         lambda c, o: B(V.supp(c.attr(o, "operation").z, eng(c, c.attr(o, "target").z))))
    reg.object_invariant("Transfer", "transfer-changes-engine",
                         lambda c, o: B(c.attr(o, "destination").z != eng(c, c.attr(o, "target").z)))

    # ------------------------------------------------------------------ _finish_apply (C05 / C14)
    def fin_post_rows(c):
        return B(V.rows(c.result.z) == V.sem(c.self.z, V.rows(c.target.z)))

    k = reg.contract("_unary_operation:UnaryOperation._finish_apply", virtual=True, properties=("C05", "C14"))
    k.req("operation-valid-on-target", lambda c: B(V.uvalid(c.self.z, cols(c, c.target.z))))
    k.req("target-columns-truthful", lambda c: B(truthful_cols(c, c.target.z)))
    k.ens("result-rows-are-the-operation-applied", fin_post_rows)
    k.ens("result-stays-in-the-targets-engine", lambda c: B(eng(c, c.result.z) == eng(c, c.target.z)))
    k.ens("result-columns-truthful", lambda c: B(truthful_cols(c, c.result.z)))
    k.raises("EngineError", lambda c: B(z3.Not(V.supp(c.self.z, eng(c, c.target.z)))))
