"""Sidecar contracts for lsst.daf.relation (nothing here edits /repo)."""
