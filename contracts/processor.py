"""C07 (and the Processor part of C10): Processor._process_recursive evaluates multi-engine trees faithfully and
only annotates payloads.

The abstract hooks ``Processor.transfer`` / ``Processor.materialize`` are the user's code: they get ASSUMED
contracts (return a payload holding exactly the rows of their source, for a source the source engine can
evaluate on its own).  Their *preconditions* are obligations of this check: the hooks are only ever invoked on
self-contained sources and never for statically trivial relations.
"""
from __future__ import annotations

import z3

from pyvc import smt
from pyvc.smt import SV, TBool, TRefT
from spec import vocab as V
from contracts.apply import A, B, cid, cols, eng, is_marker, truthful_cols, reg_cls
from contracts.iteration import payload_heap, payload_inv, height

from contracts.apply import ready, extends, trivial_z as trivial  # noqa: E402


# a payload obtained under a request to persist it (hook transfer(..., materialize_as=<name>), hook materialize(), engine constants,
# leaf payloads): only such a payload may be cached on a Materialization -- anything else (a lazy result of a plain transfer) would
# re-evaluate the upstream tree on every use ("computed at most once", C10)
persistent = z3.Function("persistent_payload", smt.Ref, smt.BoolS)


def _persistent_axioms(ex):
    """Definition (iteration engine): a MaterializedRowIterable (RowSequence, RowMapping) holds its rows in memory -- it is a
    persistent payload.  What the hooks of other engines return is persistent exactly when they were asked to materialize
    (their assumed contracts below)."""
    o = z3.Const("o", smt.Ref)
    tids = [ex.types.cid(ex.repo.cls(n)) for n in ("RowSequence", "RowMapping")]
    return [z3.ForAll([o], z3.Implies(z3.Or(*[smt.typ(o) == t for t in tids]), persistent(o)), patterns=[persistent(o)])]


def register(reg):
    reg.load("iteration")
    reg.load("rowiter")
    if _persistent_axioms not in reg.global_axioms:
        reg.global_axioms.append(_persistent_axioms)
    P = ("C07", "C10")
    # spec lemma used by the heap reasoning (axiom in contracts/apply.py:extends_axioms): its induction step and its decreases
    # clause are lemma obligations of both checks
    from contracts.apply import lemma_ready_monotone, lemma_ready_monotone_descends
    for pid_ in P:
        reg.lemmas[f"{pid_}/lemma-readiness-is-monotone-in-the-payload-heap/induction-step"] = lemma_ready_monotone
        reg.lemmas[f"{pid_}/lemma-readiness-is-monotone-in-the-payload-heap/children-are-strictly-lower"] = lemma_ready_monotone_descends
    TRel = TRefT(reg_cls(reg, "BaseRelation"))
    TPay = TRefT(None, True)

    # ---- assumed contracts of the user's hooks; their preconditions are proved at the call sites
    k = reg.contract("_processor:Processor.transfer", virtual=True, assumed=True, properties=P, result_td=TPay,
                     note="user hook: returns a payload holding the source's rows in the destination engine")
    k.req("hook-source-is-self-contained", lambda c: B(ready(payload_heap(c), c.source.z)))
    k.req("hook-not-invoked-for-trivial-relations", lambda c: B(z3.Not(trivial(c, c.state.env["original"].z)) if "original" in c.state.env else z3.BoolVal(True)))
    k.ens("payload-holds-the-sources-rows", lambda c: B(z3.And(c.result.z != smt.NONE, V.content(c.result.z) == V.rows(c.source.z))))
    from pyvc.types import OptStr as _OS
    k.ens("persistent-exactly-when-asked-to-materialize", lambda c: B(persistent(c.result.z) == _OS.is_os_some(c.materialize_as.z)))
    k = reg.contract("_processor:Processor.materialize", virtual=True, assumed=True, properties=P, result_td=TPay,
                     note="user hook: returns a payload holding the target's rows")
    k.req("hook-target-is-self-contained", lambda c: B(ready(payload_heap(c), c.target.z)))
    k.req("hook-not-invoked-for-trivial-relations", lambda c: B(z3.Not(trivial(c, c.state.env["original"].z)) if "original" in c.state.env else z3.BoolVal(True)))
    k.ens("payload-holds-the-targets-rows", lambda c: B(z3.And(c.result.z != smt.NONE, V.content(c.result.z) == V.rows(c.target.z), persistent(c.result.z))))

    # ---- engine payload factories for trivial relations
    # session 4: no longer assumed -- the iteration engine's implementations are verified from their bodies (RowMapping construction,
    # contracts/rowiter.py); the SQL implementations build SQLAlchemy objects (emission, outside reach) and the base-class defaults
    # return None (engines without payload factories are outside the property): both stay assumed and are listed as such
    k = reg.contract("_engine:Engine.get_join_identity_payload", virtual=True, assumed=False, properties=P, result_td=TPay,
                     note="engine hook: a payload holding the single empty row (sql/_engine.py:188, iteration/_engine.py:113; the base-class default "
                          "returns None and is outside the property's engines)")
    k.unverified_impls = ("sql._engine:", "_engine:")
    k.ens("identity-payload", lambda c: B(z3.And(c.result.z != smt.NONE, V.content(c.result.z) == V.RUNIT, persistent(c.result.z))))
    k = reg.contract("_engine:Engine.get_doomed_payload", virtual=True, assumed=False, properties=P, result_td=TPay,
                     note="engine hook: a payload holding no rows over the given columns (sql/_engine.py:194, iteration/_engine.py:117; base default None is out of scope)")
    k.unverified_impls = ("sql._engine:", "_engine:")
    k.ens("doomed-payload", lambda c: B(z3.And(c.result.z != smt.NONE, V.content(c.result.z) == V.REMPTY(c.columns.z), persistent(c.result.z))))

    # SQL Select markers re-conform their target (subject of C17): assumed here
    k = reg.contract("sql._select:Select.reapply", assumed=True, properties=P, result_td=TRel, note="sql.Select.reapply: C17")
    k.ens("same-rows-columns-engine-and-readiness",
          lambda c: B(z3.And(V.rows(c.result.z) == V.rows(c.target.z), cols(c, c.result.z) == cols(c, c.target.z), eng(c, c.result.z) == eng(c, c.target.z),
                             truthful_cols(c, c.result.z), z3.Implies(ready(payload_heap(c), c.target.z), ready(payload_heap(c), c.result.z)))))
    k.raises("EngineError", None)

    # ---- _process_recursive
    k = reg.contract("_processor:Processor._process_recursive", properties=P, modifies=("BaseRelation.payload",),
                     result_td=smt.TTupleT([TRel, smt.TBool]))
    def arms(c):
        t = smt.typ(c.original.z)
        tr, ma = t == cid(c, "Transfer"), t == cid(c, "Materialization")
        mk = z3.And(is_marker(c, c.original.z), z3.Not(tr), z3.Not(ma))
        un, bi = t == cid(c, "UnaryOperationRelation"), t == cid(c, "BinaryOperationRelation")
        return [("transfer", tr), ("materialization", ma), ("marker", mk), ("unary", un), ("binary", bi), ("leaf", z3.Not(z3.Or(tr, ma, mk, un, bi)))]

    k.split = arms
    k.req("payloads-hold-their-relations-rows", lambda c: B(payload_inv(c, payload_heap(c))))
    k.req("relation-columns-truthful", lambda c: B(truthful_cols(c, c.original.z)))
    lf = z3.Const("lf", smt.Ref)
    leaves_ok = lambda c, H: z3.ForAll([lf], z3.Implies(smt.typ(lf) == cid(c, "LeafRelation"), z3.Select(H, lf) != smt.NONE), patterns=[z3.Select(H, lf)])  # noqa: E731
    unalloc_empty = lambda c, H, clk: z3.ForAll([lf], z3.Implies(z3.And(smt.born(lf) >= clk, smt.typ(lf) != cid(c, "LeafRelation")), z3.Select(H, lf) == smt.NONE),  # noqa: E731
                                                patterns=[z3.Select(H, lf)])
    k.req("leaves-carry-payloads", lambda c: B(leaves_ok(c, payload_heap(c))))
    mm = z3.Const("mm", smt.Ref)
    # every payload that does not sit on a transfer is persistent: leaves and materializations by their nature; other markers get
    # payloads only from users (assumed cacheable) -- the Processor attaches hook results to transfers and materializations only
    cached_ok = lambda c, H: z3.ForAll([mm], z3.Implies(z3.And(smt.typ(mm) != cid(c, "Transfer"), z3.Select(H, mm) != smt.NONE),  # noqa: E731
                                                      persistent(z3.Select(H, mm))), patterns=[z3.Select(H, mm)])
    k.req("cached-payloads-are-persistent", lambda c: B(cached_ok(c, payload_heap(c))))
    k.req("objects-not-yet-allocated-have-no-payload", lambda c: B(unalloc_empty(c, payload_heap(c), c.entry_clock)))
    tr = z3.Const("tr", smt.Ref)
    dest = lambda c: A(c, "Transfer", "destination")  # noqa: E731
    mtarget = lambda c: A(c, "MarkerRelation", "target")  # noqa: E731
    crossing = lambda c, clk: z3.ForAll([tr], z3.Implies(z3.And(smt.typ(tr) == cid(c, "Transfer"), smt.born(tr) < clk), dest(c)(tr) != eng(c, mtarget(c)(tr))),  # noqa: E731
                                        patterns=[dest(c)(tr)])
    res = lambda c: c.result.items[0].z  # noqa: E731
    persisted = lambda c: c.result.items[1].z  # noqa: E731
    H0 = lambda c: payload_heap(c, True)  # noqa: E731
    H1 = lambda c: payload_heap(c)  # noqa: E731
    r = z3.Const("r", smt.Ref)
    k.ens("same-columns-engine-and-rows",
          lambda c: B(z3.And(cols(c, res(c)) == cols(c, c.original.z), eng(c, res(c)) == eng(c, c.original.z), V.rows(res(c)) == V.rows(c.original.z), truthful_cols(c, res(c)))))
    k.ens("result-can-be-evaluated-by-its-engine-alone", lambda c: B(ready(H1(c), res(c))))
    k.ens("payloads-still-hold-their-relations-rows", lambda c: B(payload_inv(c, H1(c))))
    k.ens("leaves-still-carry-payloads", lambda c: B(leaves_ok(c, H1(c))))
    k.ens("objects-not-yet-allocated-still-have-no-payload", lambda c: B(unalloc_empty(c, H1(c), c.exit_clock)))
    k.ens("keeps-every-existing-payload", lambda c: B(extends(H0(c), H1(c))))
    k.ens("payloads-are-never-replaced",
          lambda c: B(z3.ForAll([r], z3.Implies(z3.And(c.pre_existing(r), z3.Select(H0(c), r) != smt.NONE), z3.Select(H1(c), r) == z3.Select(H0(c), r)), patterns=[z3.Select(H1(c), r)])))
    k.ens("transfers-of-the-input-tree-never-gain-payloads",
          lambda c: B(z3.ForAll([r], z3.Implies(z3.And(smt.typ(r) == cid(c, "Transfer"), c.pre_existing(r), dest(c)(r) != eng(c, mtarget(c)(r))),
                                                z3.Select(H1(c), r) == z3.Select(H0(c), r)), patterns=[z3.Select(H1(c), r)])))
    above_unchanged = lambda c: z3.ForAll([r], z3.Implies(z3.And(height(r) > height(c.original.z), c.pre_existing(r)), z3.Select(H1(c), r) == z3.Select(H0(c), r)),  # noqa: E731
                                          patterns=[z3.Select(H1(c), r)])
    # the one case the contracts cannot decide: a materialization re-created over an existing node that the recursion
    # returned in place of the target (bounded stand-in S-C07-frame-rebuilt-materialization)
    rebuilt = lambda c: z3.And(smt.typ(c.original.z) == cid(c, "Materialization"), c.pre_existing(res(c)), res(c) != c.original.z)  # noqa: E731
    k.ens("only-nodes-of-this-tree-or-new-nodes-change", lambda c: B(z3.Implies(z3.Not(rebuilt(c)), above_unchanged(c))))
    k.ens("only-nodes-of-this-tree-change-when-a-materialization-resolves-to-an-existing-node", lambda c: B(z3.Implies(rebuilt(c), above_unchanged(c))))
    k.ens("only-materializations-and-same-engine-markers-gain-payloads",
          lambda c: B(z3.ForAll([r], z3.Implies(z3.And(c.pre_existing(r), smt.typ(r) != cid(c, "Materialization"),
                                                       z3.Not(z3.And(is_marker(c, r), eng(c, r) == eng(c, mtarget(c)(r))))),
                                                z3.Select(H1(c), r) == z3.Select(H0(c), r)), patterns=[z3.Select(H1(c), r)])))
    k.ens("a-returned-materialization-has-its-payload",
          lambda c: B(z3.Implies(smt.typ(res(c)) == cid(c, "Materialization"), z3.Or(z3.Select(H1(c), res(c)) != smt.NONE, trivial(c, res(c))))),
          hints=lambda c: [B(ready(H1(c), res(c)))])
    k.ens("a-persisted-result-carries-the-payload",
          lambda c: B(z3.Implies(persisted(c), z3.Select(H1(c), res(c)) != smt.NONE)))
    k.ens("a-result-reported-as-persisted-carries-a-persistent-payload",
          lambda c: B(z3.Implies(persisted(c), persistent(z3.Select(H1(c), res(c))))))
    k.ens("only-persistent-payloads-are-cached-outside-transfers", lambda c: B(cached_ok(c, H1(c))))
    k.ens("a-processed-materialization-has-its-payload",
          lambda c: B(z3.Implies(smt.typ(c.original.z) == cid(c, "Materialization"), z3.Select(H1(c), c.original.z) != smt.NONE)))
    k.raises("EngineError", None)
    k.raises("ColumnError", None)
    k.raises("RelationalAlgebraError", None)
    k.raises("NotImplementedError", None)

    # ---- Processor.process: the public entry point (session 4).  Same preconditions; of the postconditions those that speak about
    # the returned relation and the payload heap (the persisted flag is internal to the recursion)
    class _AsRecursive:
        """A view of process()'s context in the vocabulary of _process_recursive's clauses (original = relation, result = (relation, flag))."""

        def __init__(self, c):
            object.__setattr__(self, "_c", c)

        def __getattr__(self, name):
            c = object.__getattribute__(self, "_c")
            if name == "original":
                return c.relation
            if name == "result":
                r = c.result
                return r if hasattr(r, "items") else type("R", (), {"items": [r, None]})()
            return getattr(c, name)

    kp = reg.contract("_processor:Processor.process", properties=P, modifies=("BaseRelation.payload",), result_td=TRel)
    for cl in k.requires:
        kp.req(cl.label, (lambda fn: lambda c: fn(_AsRecursive(c)))(cl.fn))
    for cl in k.ensures:
        if cl.label in ("same-columns-engine-and-rows", "result-can-be-evaluated-by-its-engine-alone", "payloads-still-hold-their-relations-rows",
                        "keeps-every-existing-payload", "payloads-are-never-replaced", "transfers-of-the-input-tree-never-gain-payloads",
                        "only-materializations-and-same-engine-markers-gain-payloads", "a-processed-materialization-has-its-payload"):
            kp.ens(cl.label, (lambda fn: lambda c: fn(_AsRecursive(c)))(cl.fn))
    for e_ in ("EngineError", "ColumnError", "RelationalAlgebraError", "NotImplementedError"):
        kp.raises(e_, None)

    def not_a_plain_marker(c, _):
        """F13's witness class is 'the processed node is a plain marker (not a transfer or materialization)'."""
        t = smt.typ(c.original.z)
        return B(z3.Or(z3.Not(is_marker(c, c.original.z)), t == cid(c, "Transfer"), t == cid(c, "Materialization")))

    reg.witness_classes["F13-plain-marker"] = not_a_plain_marker
