"""C07 (and the Processor part of C10): Processor._process_recursive evaluates multi-engine trees faithfully and
only annotates payloads.

The abstract hooks ``Processor.transfer`` / ``Processor.materialize`` are the user's code: they get ASSUMED
contracts (return a payload holding exactly the rows of their source, for a source the source engine can
evaluate on its own).  Their *preconditions* are obligations of this check: the hooks are only ever invoked on
self-contained sources and never for statically trivial relations.
"""
from __future__ import annotations

import z3

from pyvc import smt
from pyvc.smt import SV, TBool, TRefT
from spec import vocab as V
from contracts.apply import A, B, cid, cols, eng, is_marker, truthful_cols, reg_cls
from contracts.iteration import payload_heap, payload_inv, height

HeapSort = z3.ArraySort(smt.Ref, smt.Ref)
ready = z3.Function("ready", HeapSort, smt.Ref, smt.BoolS)  # the relation's engine can evaluate it without a Processor


def trivial(c, r):
    mx = A(c, "BaseRelation", "max_rows")(r)
    return z3.Or(A(c, "BaseRelation", "is_join_identity")(r), mx == smt.OptInt.oi_some(z3.IntVal(0)))


def ready_axioms(ex):
    class _C:
        pass
    c = _C()
    c.ex = ex
    H = z3.Const("H", HeapSort)
    r = z3.Const("r", smt.Ref)
    has = z3.Select(H, r) != smt.NONE
    ut, mt = A(c, "UnaryOperationRelation", "target"), A(c, "MarkerRelation", "target")
    bl, br = A(c, "BinaryOperationRelation", "lhs"), A(c, "BinaryOperationRelation", "rhs")
    t = smt.typ(r)

    def ax(cond, body):
        return z3.ForAll([H, r], z3.Implies(cond, ready(H, r) == body), patterns=[ready(H, r)])

    return [
        ax(t == cid(c, "LeafRelation"), z3.BoolVal(True)),
        ax(t == cid(c, "UnaryOperationRelation"), z3.Or(trivial(c, r), ready(H, ut(r)))),
        ax(t == cid(c, "BinaryOperationRelation"), z3.Or(trivial(c, r), z3.And(ready(H, bl(r)), ready(H, br(r))))),
        ax(t == cid(c, "Transfer"), z3.Or(trivial(c, r), has)),
        ax(t == cid(c, "Materialization"), z3.Or(trivial(c, r), has)),
        ax(z3.And(is_marker(c, r), t != cid(c, "Transfer"), t != cid(c, "Materialization")), z3.Or(trivial(c, r), has, ready(H, mt(r)))),
    ]


def register(reg):
    reg.load("iteration")
    if ready_axioms not in reg.global_axioms:
        reg.global_axioms.append(ready_axioms)
    P = ("C07", "C10")
    TRel = TRefT(reg_cls(reg, "BaseRelation"))
    TPay = TRefT(None, True)

    # ---- assumed contracts of the user's hooks; their preconditions are proved at the call sites
    k = reg.contract("_processor:Processor.transfer", virtual=True, assumed=True, properties=P, result_td=TPay,
                     note="user hook: returns a payload holding the source's rows in the destination engine")
    k.req("hook-source-is-self-contained", lambda c: B(ready(payload_heap(c), c.source.z)))
    k.req("hook-not-invoked-for-trivial-relations", lambda c: B(z3.Not(trivial(c, c.state.env["original"].z)) if "original" in c.state.env else z3.BoolVal(True)))
    k.ens("payload-holds-the-sources-rows", lambda c: B(z3.And(c.result.z != smt.NONE, V.content(c.result.z) == V.rows(c.source.z))))
    k = reg.contract("_processor:Processor.materialize", virtual=True, assumed=True, properties=P, result_td=TPay,
                     note="user hook: returns a payload holding the target's rows")
    k.req("hook-target-is-self-contained", lambda c: B(ready(payload_heap(c), c.target.z)))
    k.req("hook-not-invoked-for-trivial-relations", lambda c: B(z3.Not(trivial(c, c.state.env["original"].z)) if "original" in c.state.env else z3.BoolVal(True)))
    k.ens("payload-holds-the-targets-rows", lambda c: B(z3.And(c.result.z != smt.NONE, V.content(c.result.z) == V.rows(c.target.z))))

    # ---- engine payload factories for trivial relations
    k = reg.contract("_engine:Engine.get_join_identity_payload", virtual=True, assumed=True, properties=P, result_td=TPay,
                     note="engine hook: None or a payload holding the single empty row")
    k.ens("identity-payload", lambda c: B(z3.Or(c.result.z == smt.NONE, V.content(c.result.z) == V.RUNIT)))
    k = reg.contract("_engine:Engine.get_doomed_payload", virtual=True, assumed=True, properties=P, result_td=TPay,
                     note="engine hook: None or a payload holding no rows over the given columns")
    k.ens("doomed-payload", lambda c: B(z3.Or(c.result.z == smt.NONE, V.content(c.result.z) == V.REMPTY(c.columns.z))))

    # ---- _process_recursive
    k = reg.contract("_processor:Processor._process_recursive", properties=P, modifies=("BaseRelation.payload",),
                     result_td=smt.TTupleT([TRel, smt.TBool]))
    k.req("payloads-hold-their-relations-rows", lambda c: B(payload_inv(c, payload_heap(c))))
    k.req("relation-columns-truthful", lambda c: B(truthful_cols(c, c.original.z)))
    lf = z3.Const("lf", smt.Ref)
    k.req("leaves-carry-payloads", lambda c: B(z3.ForAll([lf], z3.Implies(smt.typ(lf) == cid(c, "LeafRelation"), z3.Select(payload_heap(c), lf) != smt.NONE),
                                                         patterns=[z3.Select(payload_heap(c), lf)])))
    res = lambda c: c.result.items[0].z  # noqa: E731
    H0 = lambda c: payload_heap(c, True)  # noqa: E731
    H1 = lambda c: payload_heap(c)  # noqa: E731
    r = z3.Const("r", smt.Ref)
    k.ens("same-columns-engine-and-rows",
          lambda c: B(z3.And(cols(c, res(c)) == cols(c, c.original.z), eng(c, res(c)) == eng(c, c.original.z), V.rows(res(c)) == V.rows(c.original.z), truthful_cols(c, res(c)))))
    k.ens("result-can-be-evaluated-by-its-engine-alone", lambda c: B(ready(H1(c), res(c))))
    k.ens("payloads-still-hold-their-relations-rows", lambda c: B(payload_inv(c, H1(c))))
    k.ens("payloads-are-never-replaced",
          lambda c: B(z3.ForAll([r], z3.Implies(z3.And(smt.born(r) <= 0, z3.Select(H0(c), r) != smt.NONE), z3.Select(H1(c), r) == z3.Select(H0(c), r)), patterns=[z3.Select(H1(c), r)])))
    k.ens("transfers-of-the-input-tree-never-gain-payloads",
          lambda c: B(z3.ForAll([r], z3.Implies(z3.And(smt.typ(r) == cid(c, "Transfer"), smt.born(r) <= 0), z3.Select(H1(c), r) == z3.Select(H0(c), r)), patterns=[z3.Select(H1(c), r)])))
    k.ens("only-nodes-of-this-tree-or-new-nodes-change",
          lambda c: B(z3.ForAll([r], z3.Implies(z3.And(height(r) > height(c.original.z), smt.born(r) <= 0), z3.Select(H1(c), r) == z3.Select(H0(c), r)), patterns=[z3.Select(H1(c), r)])))
    k.ens("a-processed-materialization-has-its-payload",
          lambda c: B(z3.Implies(smt.typ(c.original.z) == cid(c, "Materialization"), z3.Or(z3.Select(H1(c), c.original.z) != smt.NONE, trivial(c, c.original.z)))))
    k.raises("EngineError", None)
    k.raises("ColumnError", None)
    k.raises("RelationalAlgebraError", None)
    k.raises("NotImplementedError", None)
