"""C13: predicate folding, conjunction flattening and required-column sets are sound."""
from __future__ import annotations

import z3

from pyvc import smt
from pyvc.smt import SV, TBool, TInt, TRefT, TSeqT, TTagSet, TTri
from pyvc.types import Flat, TFlat
from spec import vocab as V

SeqInfo = V.SeqRef.info


TEng = TRefT(None)


class TRowT(smt.TD):
    sort = V.Row
    name = "row"


TRow = TRowT()


def B(z):
    return SV(TBool, z)


def register(reg):
    P = ("C13",)
    # ------------------------------------------------------------------ as_trivial
    def triv_post(k):
        k.ens("true-means-always-true", lambda c: B(z3.Implies(c.result.z == smt.TRI_T, V.ptrue(c.self.z))))
        k.ens("false-means-always-false", lambda c: B(z3.Implies(c.result.z == smt.TRI_F, V.pfalse(c.self.z))))
        return k

    triv_post(reg.contract("_columns._predicate:Predicate.as_trivial", virtual=True, pure=True, properties=P, result_td=TTri))

    def and_inv(c, i, env, seq):
        j = z3.Int("j")
        r = env.result.z
        return B(z3.And(r != smt.TRI_F, z3.Implies(r == smt.TRI_T, z3.ForAll([j], z3.Implies(z3.And(0 <= j, j < i.z), V.ptrue(SeqInfo.at(seq.z, j))), patterns=[SeqInfo.at(seq.z, j)]))))

    def or_inv(c, i, env, seq):
        j = z3.Int("j")
        r = env.result.z
        return B(z3.And(r != smt.TRI_T, z3.Implies(r == smt.TRI_F, z3.ForAll([j], z3.Implies(z3.And(0 <= j, j < i.z), V.pfalse(SeqInfo.at(seq.z, j))), patterns=[SeqInfo.at(seq.z, j)]))))

    triv_post(reg.contract("_columns._predicate:LogicalAnd.as_trivial", pure=True, properties=P, result_td=TTri)).inv(0, and_inv)
    triv_post(reg.contract("_columns._predicate:LogicalOr.as_trivial", pure=True, properties=P, result_td=TTri)).inv(0, or_inv)

    # ------------------------------------------------------------------ columns_required == fv
    def fv_contract(key, **kw):
        k = reg.contract(key, attr=True, properties=P, **kw)
        k.ens("exactly-the-free-columns", lambda c: B(c.result.z == V.fv(c.self.z)))
        return k

    def fold_inv(c, i, env, seq):
        return B(env.result.z == V.fvp(seq.z, i.z))

    for root, mod in (("Predicate", "_columns._predicate"), ("ColumnExpression", "_columns._expression"), ("ColumnContainer", "_columns._container")):
        fv_contract(f"{mod}:{root}.columns_required", virtual=True)
        a = reg.contract(f"attr:{root}.columns_required")
        a.ens("exactly-the-free-columns", lambda c: B(c.result.z == V.fv(c.self.z)))
    for key in ("_columns._predicate:LogicalAnd.columns_required", "_columns._predicate:LogicalOr.columns_required",
                "_columns._expression:ColumnFunction.columns_required", "_columns._expression:PredicateFunction.columns_required",
                "_columns._container:ColumnExpressionSequence.columns_required"):
        fv_contract(key).inv(0, fold_inv)

    # ------------------------------------------------------------------ logical_and / flatten / Selection
    k = reg.contract("_columns._predicate:Predicate.logical_and", properties=P)
    k.ens("denotes-the-conjunction", lambda c: c.forall([(TRow, "rho")], lambda rho: B(V.ev(c.result.z, rho.z) == V.all_ev(c.operands.z, rho.z)),
                                                        patterns=lambda rho: [V.ev(c.result.z, rho.z)]))
    k.ens("free-columns-are-the-union", lambda c: B(V.fv(c.result.z) == V.fvs(c.operands.z)),
          hints=lambda c: [B(V.fvp(c.operands.z, 0) == smt.EMPTY_TAGS),
                           B(V.fvp(c.operands.z, 1) == z3.SetUnion(V.fvp(c.operands.z, 0), V.fv(SeqInfo.at(c.operands.z, 0))))])
    k.ens("supported-where-all-operands-are", lambda c: c.forall([(TEng, "eng")], lambda g: B(z3.Implies(V.all_supp(c.operands.z, g.z), V.supp(c.result.z, g.z))),
                                                                  patterns=lambda g: [V.supp(c.result.z, g.z)]))
    k = reg.contract("_columns._predicate:Predicate.logical_or", properties=P)
    k.ens("denotes-the-disjunction", lambda c: c.forall([(TRow, "rho")], lambda rho: B(V.ev(c.result.z, rho.z) == V.any_ev(c.operands.z, rho.z)),
                                                        patterns=lambda rho: [V.ev(c.result.z, rho.z)]))

    k = reg.contract("_columns._predicate:flatten_logical_and", properties=P)
    k.ens("false-only-if-always-false", lambda c: B(z3.Implies(Flat.is_flat_false(c.result.z), V.pfalse(c.predicate.z))))
    k.ens("conjuncts-equivalent", lambda c: c.forall(
        [(TRow, "rho")],
        lambda rho: B(z3.Implies(Flat.is_flat_list(c.result.z), V.all_ev(Flat.flat_val(c.result.z), rho.z) == V.ev(c.predicate.z, rho.z))),
        patterns=lambda rho: [V.ev(c.predicate.z, rho.z)]))

    k.ens("conjuncts-need-the-same-columns", lambda c: B(z3.Implies(Flat.is_flat_list(c.result.z),
                                                                      V.fvs(Flat.flat_val(c.result.z)) == V.fv(c.predicate.z))))

    k.ens("conjuncts-supported-where-the-predicate-is", lambda c: c.forall(
        [(TEng, "eng")], lambda g: B(z3.Implies(z3.And(Flat.is_flat_list(c.result.z), V.supp(c.predicate.z, g.z)), V.all_supp(Flat.flat_val(c.result.z), g.z))),
        patterns=lambda g: [V.all_supp(Flat.flat_val(c.result.z), g.z)]))

    def flat_inv(c, i, env, seq):
        rho = c.forall([(TRow, "rho")], lambda rho: rho)  # the memoised ghost row of this verification
        j = z3.Int("j")
        prefix = z3.ForAll([j], z3.Implies(z3.And(0 <= j, j < i.z), V.ev(SeqInfo.at(seq.z, j), rho.z)), patterns=[SeqInfo.at(seq.z, j)])
        g = c.forall([(TEng, "eng")], lambda g: g)
        return B(z3.And(V.all_ev(env.result.z, rho.z) == prefix,
                        V.fvs(env.result.z) == V.fvp(seq.z, i.z),
                        z3.Implies(V.supp(c.predicate.z, g.z), V.all_supp(env.result.z, g.z))))

    k.inv(0, flat_inv)

    # Selection.__post_init__: the stored predicate is equivalent to the supplied one and needs no new column
    k = reg.contract("_operations._selection:Selection.__post_init__", properties=P, modifies=("predicate",))
    k.ens("stored-predicate-equivalent", lambda c: B(V.pequiv(c.field("predicate").z, c.field("predicate", old=True).z)))
    k.ens("stored-predicate-supported-where-the-supplied-one-is", lambda c: c.forall(
        [(TEng, "eng")], lambda g: B(z3.Implies(V.supp(c.field("predicate", old=True).z, g.z), V.supp(c.field("predicate").z, g.z))),
        patterns=lambda g: [V.supp(c.field("predicate").z, g.z)]))
    k.ens("stored-predicate-needs-no-new-column", lambda c: B(z3.IsSubset(V.fv(c.field("predicate").z), V.fv(c.field("predicate", old=True).z))))
