"""Stage-2 native search (NOT a proof; since the Lean lemma desc-range every range cell of sql.Engine.convert_predicate is discharged
deductively) for a failing range literal: used to turn an undischarged range obligation into a replayed input (C12).
the generated SQL is run on a real SQLite database and compared with Python's ``x in range(...)``.

All ranges with start, stop in [-B, B], step in +-1..4 and all integer column values in [-B-3, B+3].
usage: bounded_range_sql.py [B=7]
"""
import sys
sys.path.insert(0, "/verif/replay")
from lib import *
from lsst.daf.relation import sql, ColumnExpression, ColumnContainer
import sqlalchemy
from direct import evx as D_evx


def main():
    Bd = int(sys.argv[1]) if len(sys.argv) > 1 else 7
    a = Tag("a")
    E = sql.Engine(name="S")
    md = sqlalchemy.MetaData()
    t = sqlalchemy.Table("t", md, sqlalchemy.Column("a", sqlalchemy.Integer))
    eng = sqlalchemy.create_engine("sqlite://")
    md.create_all(eng)
    vals = list(range(-Bd - 3, Bd + 4))
    with eng.begin() as c:
        c.execute(t.insert(), [{"a": v} for v in vals])
    ca = {a: t.columns["a"]}
    n = 0
    with eng.connect() as c:
        for start in range(-Bd, Bd + 1):
            for stop in range(-Bd, Bd + 1):
                for step in (-4, -3, -2, -1, 1, 2, 3, 4):
                    r = range(start, stop, step)
                    term = E.convert_predicate(ColumnContainer.range_literal(r).contains(ColumnExpression.reference(a)), ca)
                    got = sorted(x[0] for x in c.execute(sqlalchemy.select(t.columns["a"]).where(term)))
                    want = [v for v in vals if v in r]
                    n += 1
                    if got != want:
                        reproduced(f"x in {r!r}: SQL '{term.compile(compile_kwargs={'literal_binds': True})}' selects {got}, Python selects {want}")
        # membership in a sequence of expressions (literals incl. repeated ones, column references, arithmetic)
        b = Tag("b")
        lit, ref = ColumnExpression.literal, ColumnExpression.reference
        import itertools
        seqs = []
        for k in (0, 1, 2, 3, 4):
            for combo in itertools.islice(itertools.product((-2, 0, 1, 3, 4), repeat=k), 0, 400):
                seqs.append([lit(v) for v in combo])
        seqs += [[lit(1), ref(a)], [ref(a).method("__add__", lit(1)), lit(0)], [lit(2).method("__neg__"), lit(5)]]
        m = 0
        for items in seqs:
            pred = ColumnContainer.sequence(items).contains(ref(a))
            term = E.convert_predicate(pred, ca)
            got = sorted(x[0] for x in c.execute(sqlalchemy.select(t.columns["a"]).where(term)))
            want = [v for v in vals if any(D_evx(i, {a: v}) == v for i in items)]
            m += 1
            if got != want:
                reproduced(f"a in {[str(i) for i in items]}: SQL '{term.compile(compile_kwargs={'literal_binds': True})}' selects {got}, direct evaluation selects {want}")
    not_reproduced(f"({n} ranges and {m} sequences x {len(vals)} values on SQLite)")


main()
