"""Bounded stand-in (NOT a proof) for Processor._process_recursive (C07, Processor part of C10).

Enumerates multi-engine trees over three iteration engines (leaves incl. doomed / join-identity relations,
unary operations, chains with statically empty branches, transfers, materializations -- also directly
after a transfer -- and a user-defined same-engine marker), processes each with a real Processor subclass whose
hooks compute rows, and checks against direct evaluation (replay/direct.py):

  rows       executing the processed tree in its engine yields the rows of direct evaluation; same columns/engine
  frame      no payload of the input tree is replaced or cleared; transfer nodes of the input never gain a payload;
             only materialization nodes of the input gain one
  hooks      transfer/materialize are invoked only on sources their engine can evaluate alone, never on a source
             that is statically empty or a join identity
  once       (C10) after one process() call every materialization node of the input carries its payload or is
             statically trivial, and a second process() call invokes no hook for anything upstream of it

usage: bounded_processor.py [N_TREES=1500] [DEPTH=5]
Known finding F13 (a materialization behind a plain marker over a transfer never receives its payload) is counted
separately and not reported as a new violation.
"""
from __future__ import annotations

import dataclasses
import random
import sys

sys.path.insert(0, "/verif/replay")
from direct import *  # noqa: F401,F403
import direct as D
from lib import reproduced, not_reproduced
from lsst.daf.relation import Processor, iteration
from lsst.daf.relation._marker_relation import MarkerRelation


@dataclasses.dataclass(frozen=True, kw_only=True)
class Mark(MarkerRelation):
    """A user-defined marker that stays in its target's engine."""


def walk(rel):
    yield rel
    match rel:
        case UnaryOperationRelation(target=t):
            yield from walk(t)
        case BinaryOperationRelation(lhs=l, rhs=r):
            yield from walk(l)
            yield from walk(r)
        case MarkerRelation(target=t):
            yield from walk(t)


def visited(rel, before):
    """Nodes of the input tree that _process_recursive reaches: it stops at payloads and at statically trivial transfers."""
    yield rel
    if before[id(rel)] is not None:
        return
    match rel:
        case Transfer(target=t):
            if not rel.is_trivial:
                yield from visited(t, before)
        case UnaryOperationRelation(target=t) | MarkerRelation(target=t):
            yield from visited(t, before)
        case BinaryOperationRelation(lhs=l, rhs=r):
            yield from visited(l, before)
            yield from visited(r, before)


def self_contained(rel, engine):
    """The engine can evaluate rel alone: walking down, every node up to the first payload is in that engine."""
    if rel.payload is not None:
        return rel.engine == engine
    if rel.engine != engine:
        return False
    match rel:
        case Transfer() | Materialization():
            return rel.is_trivial
        case UnaryOperationRelation(target=t) | MarkerRelation(target=t):
            return self_contained(t, engine)
        case BinaryOperationRelation(lhs=l, rhs=r):
            return self_contained(l, engine) and self_contained(r, engine)
    return False


class Counted(iteration.RowIterable):
    """Leaf payload that counts how often it is iterated."""

    def __init__(self, rows):
        self.rows, self.count = rows, 0

    def __iter__(self):
        self.count += 1
        return iter(self.rows)

    def __len__(self):
        return len(self.rows)


class P(Processor):
    def __init__(self):
        self.calls = []

    def transfer(self, source, destination, materialize_as):
        self.calls.append(("transfer", source, materialize_as))
        return iteration.RowSequence([dict(r) for r in source.engine.execute(source)])

    def materialize(self, target, name):
        self.calls.append(("materialize", target, name))
        return iteration.RowSequence([dict(r) for r in target.engine.execute(target)])


def grow(rng, engines, depth):
    """A random tree of at most the given depth."""
    E = rng.choice(engines)
    if depth == 0 or rng.random() < 0.15:
        cols = rng.choice([(D.A,), (D.A, D.Bt)])
        k = rng.random()
        if k < 0.15:
            return E.make_doomed_relation(set(cols), ["doomed"])
        if k < 0.22:
            return E.make_join_identity_relation()
        n = rng.randrange(0, 4)
        rows = [{c: rng.randrange(0, 3) for c in cols} for _ in range(n)]
        return E.make_leaf(set(cols), Counted(rows), name="L")
    t = grow(rng, engines, depth - 1)
    k = rng.random()
    try:
        if k < 0.30:
            cls = rng.choice(["Selection", "Projection", "Slice", "Sort", "Calculation"])
            ops = D.ops_of_class(cls, t.columns)
            return rng.choice(ops).apply(t) if ops else t
        if k < 0.50:
            others = [e for e in engines if e != t.engine]
            return t.transferred_to(rng.choice(others))
        if k < 0.68:
            return t.materialized(f"m{rng.randrange(10**6)}")
        if k < 0.76:
            return Mark(target=t)
        u = grow(rng, engines, depth - 1)
        if u.engine != t.engine:
            u = u.transferred_to(t.engine)
        if u.columns == t.columns:
            return t.chain(u)
        return t  # the iteration engine cannot execute joins
    except (R.ColumnError, R.EngineError, R.RelationalAlgebraError):
        return t


def f13_shape(m):
    """Root cause of known finding F13: processing the materialization's target reports "already persisted" although
    the processed target carries no payload (the flag was passed through a plain marker)."""
    new_target, persisted = P()._process_recursive(m.target, m.name)
    return persisted and new_target.payload is None


def main():
    n_trees = int(sys.argv[1]) if len(sys.argv) > 1 else 1500
    depth = int(sys.argv[2]) if len(sys.argv) > 2 else 5
    rng = random.Random(20260924)
    engines = [iteration.Engine(name="E"), iteration.Engine(name="F"), iteration.Engine(name="G")]
    n = hooks = known = 0
    shapes = set()
    for i in range(n_trees):
        tree = grow(rng, engines, rng.randrange(1, depth + 1))
        nodes = list(walk(tree))
        if not any(isinstance(x, (Transfer, Materialization)) for x in nodes):
            continue
        n += 1
        shapes.add(tuple(type(x).__name__[0] for x in nodes))
        before = {id(x): x.payload for x in nodes}
        want = D.rows_of(tree)
        p = P()
        try:
            out = p.process(tree)
            got = [dict(r) for r in out.engine.execute(out)]
        except Exception as e:  # noqa: BLE001
            reproduced(f"processing {tree} raised {type(e).__name__}: {e}")
        if out.engine != tree.engine or set(out.columns) != set(tree.columns):
            reproduced(f"processing {tree} changed engine/columns: {out}")
        if not D.same_rows(got, want):
            reproduced(f"processing {tree} and executing gives {got}, direct evaluation gives {want}")
        for x in nodes:
            old = before[id(x)]
            if old is not None and x.payload is not old:
                reproduced(f"payload of {x} in {tree} was replaced or cleared by process()")
            if old is None and x.payload is not None and not isinstance(x, Materialization):
                reproduced(f"{type(x).__name__} node {x} of the input tree {tree} gained a payload")
        for kind, src, name in p.calls:
            hooks += 1
            if not self_contained(src, src.engine):
                reproduced(f"{kind} hook invoked on {src}, which its engine cannot evaluate alone (tree {tree})")
            if src.is_trivial:
                reproduced(f"{kind} hook invoked on the statically trivial relation {src} (tree {tree})")
        # C10: processed materializations are cached; a second run does no upstream work for them
        for x in visited(tree, before):
            if isinstance(x, Materialization) and x.payload is None and not x.is_trivial:
                if f13_shape(x):
                    known += 1
                    continue
                reproduced(f"materialization {x} of {tree} has no payload after process()")
        done = [x for x in nodes if isinstance(x, Materialization) and x.payload is not None]
        counts = {id(y): y.payload.count for y in nodes if isinstance(y.payload, Counted)}
        p2 = P()
        out2 = p2.process(tree)
        got2 = [dict(r) for r in out2.engine.execute(out2)]
        if not D.same_rows(got2, want):
            reproduced(f"second process() of {tree} gives {got2}, direct evaluation gives {want}")
        for x in done:
            for y in walk(x.target):
                if isinstance(y.payload, Counted) and y.payload.count != counts[id(y)] and not any(z.payload is y.payload for z in done):
                    reproduced(f"second process()+execute of {tree} iterated leaf {y} again although it is upstream of the materialized node {x}")
    if n < n_trees // 4 or hooks == 0:
        print(f"bounded_processor: vacuous run ({n} trees, {hooks} hook calls)")
        sys.exit(3)
    not_reproduced(f"{n} multi-engine trees ({len(shapes)} distinct shapes, depth <= {depth}), {hooks} hook calls checked, {known} occurrences of known finding F13 skipped")


if __name__ == "__main__":
    main()
