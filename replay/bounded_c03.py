"""Bounded stand-in (NOT a proof) for the projection cells of iteration.Engine.backtrack_unary (C03).

Enumerates iteration-engine trees  leaf(E) -> transfer(F) -> up to DEPTH operations in F  and applies a
projection (or, with --all, every operation class) with preferred_engine in {E, unreachable G} and every
backtrack/transfer option; the result must have the columns and rows of applying the operation at the root
(direct evaluation, replay/direct.py), and must execute.

usage: bounded_c03.py [DEPTH=3] [--all]
"""
from __future__ import annotations

import itertools
import sys

sys.path.insert(0, "/verif/replay")
from direct import *  # noqa: F401,F403
import direct as D
from lsst.daf.relation import Processor, iteration


class P(Processor):
    def transfer(self, source, destination, materialize_as):
        return source.engine.execute(source).materialized() if isinstance(source.engine, iteration.Engine) else None

    def materialize(self, target, name):
        return target.engine.execute(target).materialized()


def run(rel):
    r = P().process(rel)
    return [dict(x) for x in r.engine.execute(r)]


def stacks(base, depth, classes):
    level = [base]
    yield base
    for _ in range(depth):
        nxt = []
        for rel in level:
            for cls in classes:
                for op in D.ops_of_class(cls, rel.columns)[:3]:
                    try:
                        r = op.apply(rel)
                    except Exception:
                        continue
                    if r is not rel:
                        nxt.append(r)
                        yield r
        level = nxt[:40]


def main():
    depth = int(sys.argv[1]) if len(sys.argv) > 1 and sys.argv[1].isdigit() else 3
    new_classes = ["Projection"] if "--all" not in sys.argv else ["Projection", "Selection", "Calculation", "Deduplication", "Sort", "Slice"]
    E, F, G = iteration.Engine(name="E"), iteration.Engine(name="F"), iteration.Engine(name="G")
    rows = [{D.A: 1, D.Bt: 2, D.Ct: 0}, {D.A: 1, D.Bt: 1, D.Ct: 0}, {D.A: 0, D.Bt: 2, D.Ct: 1}, {D.A: 1, D.Bt: 2, D.Ct: 0}]
    leaf = E.make_leaf({D.A, D.Bt, D.Ct}, iteration.RowSequence(rows), name="L")
    n = 0
    for processed in (False, True):
        base = leaf.transferred_to(F)
        if processed:
            base.attach_payload(iteration.RowSequence(rows))
        for tree in stacks(base, depth, ["Selection", "Calculation", "Projection", "Sort", "Slice"]):
            for cls in new_classes:
                for op in D.ops_of_class(cls, tree.columns)[:6]:
                    try:
                        direct_rel = op.apply(tree)
                    except Exception:
                        continue  # not a valid request at the root
                    want_cols, want = set(direct_rel.columns), D.sem(op, D.rows_of(tree))
                    for pref, bt, tr in itertools.product((E, G), (True, False), (True, False)):
                        n += 1
                        try:
                            got_rel = op.apply(tree, preferred_engine=pref, backtrack=bt, transfer=tr)
                            got = run(got_rel)
                        except Exception as e:
                            reproduced(f"{op!r} on {tree} with preferred_engine={pref} backtrack={bt} transfer={tr} raised {type(e).__name__}: {e}")
                        if not tr and got_rel.engine is not tree.engine:
                            reproduced(f"{op!r} on {tree} with preferred_engine={pref} backtrack={bt} transfer=False left the tree's engine: {got_rel}")
                        if set(got_rel.columns) != want_cols or not D.same_rows(got, want):
                            reproduced(f"{op!r} on {tree} with preferred_engine={pref} backtrack={bt} transfer={tr}: got {got_rel} columns "
                                       f"{sorted(map(str, got_rel.columns))} rows {got}; applying at the root gives columns {sorted(map(str, want_cols))} rows {want}")
    not_reproduced(f"({n} applications checked, depth {depth}, new operation classes {new_classes})")


if __name__ == "__main__":
    main()
