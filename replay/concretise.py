"""Stage-2 native concretiser (DESIGN 6): bounded search for a concrete failing input of one contract clause.

Used only for obligations the deductive stage left undischarged, to turn "not proved" into a replayed
violation.  Finding nothing proves nothing and is never counted.

usage: concretise.py <function-key> <clause-label> [budget]
prints  REPRODUCED: <description>   or   NOT-REPRODUCED
"""
from __future__ import annotations

import itertools
import random
import sys

sys.path.insert(0, "/verif/replay")
from direct import *  # noqa: F401,F403
import direct as D


def valid_at(op, rel):
    """Is ``op`` a well-formed request on ``rel`` (the library's own _begin_apply is NOT used as the oracle)."""
    cols = set(rel.columns)
    match op:
        case Calculation(tag=t, expression=e):
            return D.fv(e) <= cols and t not in cols
        case Projection(columns=c):
            return c <= cols
        case Selection(predicate=p):
            return D.fv(p) <= cols
        case Sort(terms=ts):
            return all(D.fv(t.expression) <= cols for t in ts)
        case PartialJoin(binary=j, fixed=f):
            need = (D.fv(j.predicate) - set(f.columns)) | j.min_columns
            shadow = (cols & set(f.columns)) - j.min_columns
            return need <= cols and not shadow and j.min_columns <= set(f.columns)
    return True


def node(op, target):
    """Build the node  op(target)  without simplification."""
    return UnaryOperationRelation(operation=op, target=target, columns=op.applied_columns(target))


def search_commute(self_cls, clause, budget, rng):
    cell = None
    if "[cur=" in clause:
        cell = clause.split("[cur=")[1].rstrip("]")
        clause = clause.split("[")[0]
    E = R.iteration.Engine(name="E")
    ls = D.leaves(E)
    rng.shuffle(ls)
    fixed = [l for l in ls if len(D.rows_of(l)) in (1, 2)][:6]
    n = 0
    for leaf in ls:
        rows = D.rows_of(leaf)
        for cur_cls in ([cell] if cell else ["Calculation", "Deduplication", "Projection", "Selection", "Slice", "Sort"]):
            cur_ops = [o for o in D.ops_of_class(cur_cls, leaf.columns) if valid_at(o, leaf)]
            rng.shuffle(cur_ops)
            for cur_op in cur_ops[:6]:
                current = node(cur_op, leaf)
                me_ops = [o for o in D.ops_of_class(self_cls, current.columns, fixed=fixed) if valid_at(o, current)]
                rng.shuffle(me_ops)
                for me in me_ops[:8]:
                    n += 1
                    if n > budget:
                        return None
                    try:
                        c = me.commute(current)
                    except Exception as e:
                        return f"{me!r}.commute({current}) raised {type(e).__name__}: {e}"
                    want = D.sem(me, D.sem(cur_op, rows))
                    desc = f"self={me!r} current={current} target rows={rows} -> first={c.first!r} second={c.second!r} done={c.done}"
                    if c.first is None:
                        if clause.startswith("refusal") and c.second is not cur_op:
                            return "refusal does not hand back the existing operation: " + desc
                        if clause.startswith("done-without") and c.done and not D.same_rows(D.sem(cur_op, rows), want):
                            return "done without a move but the operation is not a no-op: " + desc
                        continue
                    mid_cols = set(c.first.applied_columns(leaf)) if valid_at(c.first, leaf) else None
                    if clause.startswith("reported-operations"):
                        if mid_cols is None:
                            return "reported first operation is not well-formed on the target: " + desc
                        mid = node(c.first, leaf)
                        if not valid_at(c.second, mid):
                            return "reported second operation is not well-formed after the first: " + desc
                        continue
                    if mid_cols is None:
                        continue
                    try:
                        moved = D.sem(c.second, D.sem(c.first, rows))
                    except Exception as e:
                        if clause.startswith("reported-operations"):
                            return f"evaluating the reported sequence failed ({type(e).__name__}: {e}): " + desc
                        continue
                    if clause.startswith("full-move") and c.done and not D.same_rows(moved, want):
                        return f"full move changes rows: existing-then-new={want} first-then-second={moved}: " + desc
                    if clause.startswith("partial-move") and not c.done:
                        again = D.sem(me, moved)
                        if not D.same_rows(again, want):
                            return f"partial move changes rows: want={want} got={again}: " + desc
                    if clause.startswith("only-projections") and not c.done and not isinstance(me, Projection):
                        return "a non-projection reports a partial move: " + desc
    return None


def search_simplify(self_cls, clause, budget, rng):
    E = R.iteration.Engine(name="E")
    ls = D.leaves(E)
    rng.shuffle(ls)
    n = 0
    for leaf in ls:
        rows = D.rows_of(leaf)
        for up_cls in ["Calculation", "Deduplication", "Projection", "Selection", "Slice", "Sort"]:
            ups = [o for o in D.ops_of_class(up_cls, leaf.columns) if valid_at(o, leaf)]
            rng.shuffle(ups)
            for up in ups[:6]:
                mid = node(up, leaf)
                for me in [o for o in D.ops_of_class(self_cls, mid.columns) if valid_at(o, mid)][:10]:
                    n += 1
                    if n > budget:
                        return None
                    try:
                        s = me.simplify(up)
                    except Exception as e:
                        return f"{me!r}.simplify({up!r}) raised {type(e).__name__}: {e}"
                    if s is None:
                        continue
                    want = D.sem(me, D.sem(up, rows))
                    if not valid_at(s, leaf):
                        return f"{me!r}.simplify({up!r}) = {s!r} is not well-formed on the target {leaf} (columns {set(leaf.columns)})"
                    got = D.sem(s, rows)
                    if not D.same_rows(got, want):
                        return f"{me!r}.simplify({up!r}) = {s!r}: rows {rows}: sequence gives {want}, merged gives {got}"
    return None


def search_then(cls, clause, budget, rng):
    if cls == "Slice":
        for a1, b1, a2, b2 in itertools.product(range(0, 4), [None, 0, 1, 2, 3, 5], range(0, 4), [None, 0, 1, 2, 3, 5]):
            if (b1 is not None and b1 < a1) or (b2 is not None and b2 < a2):
                continue
            s1, s2 = Slice(a1, b1), Slice(a2, b2)
            try:
                r = s1.then(s2)
            except Exception as e:
                return f"{s1!r}.then({s2!r}) raised {type(e).__name__}: {e}"
            for n in range(0, 9):
                xs = list(range(n))
                if xs[a1:b1][a2:b2] != xs[r.start:r.stop]:
                    return f"{s1!r}.then({s2!r}) = {r!r} selects {xs[r.start:r.stop]} instead of {xs[a1:b1][a2:b2]} from {xs}"
        return None
    E = R.iteration.Engine(name="E")
    ls = [l for l in D.leaves(E) if len(l.columns) >= 2]
    rng.shuffle(ls)
    n = 0
    for leaf in ls:
        rows = D.rows_of(leaf)
        sorts = D.ops_of_class("Sort", leaf.columns)
        for s1 in sorts[:12]:
            for s2 in sorts[:12]:
                n += 1
                if n > budget:
                    return None
                r = s1.then(s2)
                want, got = D.sem(s2, D.sem(s1, rows)), D.sem(r, rows)
                if not D.same_rows(want, got):
                    return f"{s1}.then({s2}) = {r}: rows {rows}: sequence gives {want}, composed gives {got}"
    return None


def marker_chains(depth=4):
    """Trees over three iteration engines built from transfers, materializations and selections."""
    from lsst.daf.relation import iteration
    A_, B_, C_ = iteration.Engine(name="A"), iteration.Engine(name="B"), iteration.Engine(name="C")
    rows = [{D.A: 1, D.Bt: 2}, {D.A: 0, D.Bt: 1}]
    leaf = A_.make_leaf({D.A, D.Bt}, iteration.RowSequence(rows), name="L")
    engines = (A_, B_, C_)
    level, out = [leaf], [leaf]
    for _ in range(depth):
        nxt = []
        for r in level:
            for e in engines:
                if e is not r.engine:
                    nxt.append(r.engine and e.transfer(r))
            nxt.append(r.materialized())
            nxt.append(r.with_rows_satisfying(D.ref(D.A).gt(D.lit(0))))
        nxt = [x for x in nxt if not any(x is y for y in out)]
        out.extend(nxt)
        level = nxt[:30]
    return engines, out


def search_transfer_simplify(clause, budget, rng):
    from lsst.daf.relation import Transfer, MarkerRelation
    engines, trees = marker_chains()
    for t in trees:
        for d in engines:
            s = Transfer.simplify(t, d)
            if s is None:
                continue
            if t.is_locked:
                return f"Transfer.simplify({t}, {d}) looked through a locked relation and returned {s}"
            if s.engine is not d:
                return f"Transfer.simplify({t}, {d}) returned {s} in engine {s.engine}"
            node = t
            while node is not s:
                if not isinstance(node, MarkerRelation) or node.is_locked:
                    return f"Transfer.simplify({t}, {d}) = {s} skips the non-marker or locked node {node}"
                node = node.target
            if not D.same_rows(D.rows_of(s), D.rows_of(t)):
                return f"Transfer.simplify({t}, {d}) = {s} has different rows"
    return None


def search_engine_transfer(clause, budget, rng):
    from lsst.daf.relation import Transfer, MarkerRelation, Materialization, LeafRelation
    engines, trees = marker_chains()

    def locked_nodes(r):
        out, stack = [], [r]
        while stack:
            x = stack.pop()
            if isinstance(x, (Materialization, LeafRelation)):
                out.append(x)
            for n in ("target", "lhs", "rhs"):
                if hasattr(x, n):
                    stack.append(getattr(x, n))
        return out

    for t in trees:
        for d in engines:
            try:
                r = d.transfer(t)
            except Exception as e:
                return f"{d}.transfer({t}) raised {type(e).__name__}: {e}"
            if r.engine is not d:
                return f"{d}.transfer({t}) returned {r} in engine {r.engine}"
            if not D.same_rows(D.rows_of(r), D.rows_of(t)):
                return f"{d}.transfer({t}) = {r} has different rows"
            # no locked node of the input may be bypassed: the result is the input, a transfer of it, or reaches a
            # sub-relation of the input through unlocked markers only
            inner = r.target if isinstance(r, Transfer) and not any(r is x for x in trees) else r
            node = t
            while node is not inner:
                if not isinstance(node, MarkerRelation) or node.is_locked:
                    return f"{d}.transfer({t}) = {r}: the locked/non-marker node {node} of the input was bypassed"
                node = node.target
    return None


def search_materialize_names(clause, budget, rng):
    """Names of materializations: an explicit name is kept; a generated one starts with the requested prefix and two
    generated names never coincide (prefix lengths 0..90, two engines, repeated calls)."""
    from lsst.daf.relation import Materialization
    engines, trees = marker_chains(2)
    trees = [t for t in trees if isinstance(t.materialized(), Materialization) and t.materialized() is not t][:3]
    # a SQL-engine relation as well (its engine overrides materialize and wraps the result in a Select)
    sq = R.sql.Engine(name="sq")
    sl = sq.make_leaf({D.A}, payload=None, name="sl")
    trees.append(sl.with_rows_satisfying(ref(D.A).gt(lit(0))))
    seen = {}
    prefixes = ["p" * n for n in list(range(0, 91, 3)) + [57, 58, 59, 62, 63, 64]] + ["tmp_", "tmp__", "__", "x__y___", "_"]
    for prefix in prefixes:
        n = len(prefix)
        for t in trees:
            for rep in range(2):
                m = t.engine.materialize(t, name_prefix=prefix)
                m = getattr(m, "skip_to", m)  # the SQL engine returns a Select around the materialization
                if not m.name.startswith(prefix):
                    return f"materialize({t}, name_prefix={prefix!r}) is named {m.name!r}, which does not start with the prefix"
                if m.name in seen:
                    return f"materialize({t}, name_prefix={prefix!r}) is named {m.name!r}, the name already given to {seen[m.name]}"
                seen[m.name] = f"an earlier materialization (prefix length {n})"
            e = t.engine.materialize(t, name=prefix + "x")
            e = getattr(e, "skip_to", e)
            if e.name != prefix + "x":
                return f"materialize({t}, name={prefix + 'x'!r}) is named {e.name!r}"
    return None


def search_materialize(clause, budget, rng):
    from lsst.daf.relation import Materialization, LeafRelation, MarkerRelation
    if "name" in clause or clause in ("any", "contract"):
        found = search_materialize_names(clause, budget, rng)
        if found or "name" in clause:
            return found
    engines, trees = marker_chains(3)
    for t in trees:
        m = t.materialized()
        inner = t
        while isinstance(inner, MarkerRelation) and not isinstance(inner, Materialization) and inner.engine is inner.target.engine:
            inner = inner.target
        already = isinstance(inner, (Materialization, LeafRelation))
        if already and m is not t:
            return f"materializing {t} (a leaf / materialized relation) added a new materialization: {m}"
        if not already and not (isinstance(m, Materialization) and m.target is t):
            return f"materializing {t} returned {m}"
        if not D.same_rows(D.rows_of(m), D.rows_of(t)):
            return f"materializing {t} changes rows"
    return None


def search_convert(fn, clause, budget, rng):
    """iteration.Engine.convert_*: the returned callable against direct evaluation, on every row of a small domain."""
    E = R.iteration.Engine(name="E")
    cols = (D.A, D.Bt, D.Ct)
    allrows = [dict(zip(cols, v)) for v in itertools.product((-2, -1, 0, 1, 2), repeat=3)]
    lits = [lit(-2), lit(0), lit(2)]
    if fn == "Engine.convert_column_expression":
        for e in D.exprs(cols) + [ref(D.A).method("__neg__"), lit(2).method("__neg__")]:
            f = E.convert_column_expression(e)
            for r in allrows:
                if f(r) != D.evx(e, r):
                    return f"convert_column_expression({e})({r}) = {f(r)} but the expression evaluates to {D.evx(e, r)}"
        return None
    conts = [R.ColumnContainer.range_literal(range(a, b, s)) for a in (-2, 0, 1) for b in (-3, 0, 3) for s in (-2, -1, 1, 2)]
    conts += [R.ColumnContainer.sequence(items) for items in ([], [lit(0)], [lit(0), ref(D.Bt)], [lit(2).method("__neg__"), ref(D.Bt)],
                                                              [ref(D.Bt).method("__add__", lit(1)), lit(1).method("__add__", lit(1))], [ref(D.Ct), ref(D.Bt), lit(2)])]
    if fn == "Engine.convert_column_container":
        for cexp in conts:
            f = E.convert_column_container(cexp)
            for r in allrows:
                for v in (-3, -2, -1, 0, 1, 2, 3):
                    want = D.ev(cexp.contains(lit(v)), r)
                    if (v in f(r)) != want:
                        return f"{v} in convert_column_container({cexp})({r}) is {v in f(r)} but membership is {want}"
        return None
    ps = D.preds(cols)
    ps += [ref(D.A).eq(lit(1)).logical_and(ref(D.Bt).gt(lit(0)), ref(D.Ct).lt(lit(2))), R.Predicate.logical_or(*[ref(t).eq(lit(2)) for t in cols]), R.LogicalAnd(()), R.LogicalOr(())]
    ps += [c.contains(x) for c in conts for x in (ref(D.A), lit(-2))]
    ps += [p.logical_not() for p in ps[-12:]]
    # every comparison operator over a few operand pairs (equal operands included), bare and negated
    cmps = [getattr(x, m)(y) for m in ("eq", "ne", "lt", "le", "gt", "ge")
            for x, y in ((ref(D.A), ref(D.Bt)), (ref(D.A), lit(0)), (ref(D.A), ref(D.A)), (ref(D.A).method("__add__", ref(D.Bt)), ref(D.Ct)))]
    ps += cmps + [c.logical_not() for c in cmps] + [c.logical_not().logical_not() for c in cmps[:6]]
    for p in ps:
        f = E.convert_predicate(p)
        for r in allrows:
            if bool(f(r)) != D.ev(p, r):
                return f"convert_predicate({p})({r}) = {f(r)} but the predicate evaluates to {D.ev(p, r)}"
    return None


def search_columns_required(cls, clause, budget, rng):
    """columns_required of an operation against the columns its parts mention (computed structurally)."""
    E = R.iteration.Engine(name="E")
    ls = D.leaves(E)
    fixed = [l for l in ls if len(D.rows_of(l)) in (1, 2)][:6]
    seen = 0
    for leaf in ls[:12]:
        for op in D.ops_of_class(cls, leaf.columns, fixed=fixed):
            seen += 1
            match op:
                case Calculation(expression=e):
                    want = D.fv(e)
                case Selection(predicate=p):
                    want = D.fv(p)
                case Sort(terms=ts):
                    want = set().union(*[D.fv(t.expression) for t in ts]) if ts else set()
                case PartialJoin(binary=j, fixed=f):
                    want = (D.fv(j.predicate) - set(f.columns)) | set(j.min_columns)
                case Projection(columns=c):
                    want = set(c)
                case _:
                    want = set()
            got = set(op.columns_required)
            if got != want:
                return f"{op!r}.columns_required = {sorted(map(str, got))}, but it needs {sorted(map(str, want))}"
    return None if seen else "no operation of this class could be built"


def search_diagnostics(clause, budget, rng):
    """Random relation DAGs (sub-relations are *shared objects*, as in self-joins and chains over a common target), each checked against
    C16 with no executor and with a truthful one answering from the direct evaluation."""
    from lsst.daf.relation import Diagnostics
    eng = R.iteration.Engine(name="E")
    made = 0
    while made < budget:
        base = leaves(eng, 2)
        pool = [rng.choice(base) for _ in range(2)]
        last = None
        for _ in range(10):
            made += 1
            t = last if last is not None and rng.random() < 0.4 else rng.choice(pool)  # several operations over one shared target
            last = t
            k = rng.random()
            try:
                if k < 0.6:
                    cls = rng.choice(["Selection", "Selection", "Slice", "Slice", "Projection", "Deduplication", "Sort", "Calculation"])
                    ops = ops_of_class(cls, t.columns)
                    if not ops:
                        continue
                    new = rng.choice(ops).apply(t)
                else:
                    u = rng.choice(pool)
                    new = t.chain(u) if k < 0.85 and t.columns == u.columns else t.join(u)
            except (R.RelationalAlgebraError, ValueError, TypeError):
                continue
            pool.append(new)
            rows = D.rows_of(new)
            truthful = lambda r: bool(D.rows_of(r))  # noqa: E731
            for name, ex in (("no executor", None), ("a truthful executor", truthful)):
                d = Diagnostics.run(new, ex)
                if d.is_doomed and rows:
                    return f"{new} has rows {rows} but Diagnostics.run with {name} reports it doomed: {d.messages}"
                if ex is not None and not rows and not d.is_doomed:
                    return f"{new} has no rows but Diagnostics.run with a truthful executor does not report it doomed"
                if d.is_doomed and not d.messages:
                    return f"{new}: doomed verdict without a message ({name})"
    return None


def search_factory(meth, clause, budget, rng):
    """The public factory methods of BaseRelation against direct evaluation of what their documentation says (iteration engine, small
    leaves; every operation of the small universes of replay/direct.py that is meaningful on the leaf)."""
    from lsst.daf.relation import iteration

    eng = iteration.Engine(name="E")
    n = 0
    ls = D.leaves(eng, 3)
    rng.shuffle(ls)

    def got(rel):
        return list(eng.execute(rel))

    for leaf in ls:
        X = D.rows_of(leaf)
        cases = []
        if meth == "with_rows_satisfying":
            cases = [(lambda p=o.predicate: leaf.with_rows_satisfying(p), D.sem(o, X), f"with_rows_satisfying({o.predicate})") for o in D.ops_of_class("Selection", leaf.columns)]
        elif meth == "with_calculated_column":
            cases = [(lambda o=o: leaf.with_calculated_column(o.tag, o.expression), D.sem(o, X), f"with_calculated_column({o.tag}, {o.expression})")
                     for o in D.ops_of_class("Calculation", leaf.columns) if o.tag not in leaf.columns]
        elif meth == "with_only_columns":
            cases = [(lambda o=o: leaf.with_only_columns(o.columns), D.sem(o, X), f"with_only_columns({set(o.columns)})") for o in D.ops_of_class("Projection", leaf.columns)]
        elif meth == "without_duplicates":
            cases = [(lambda: leaf.without_duplicates(), D.sem(D.Deduplication(), X), "without_duplicates()")]
        elif meth == "sorted":
            cases = [(lambda o=o: leaf.sorted(list(o.terms)), D.sem(o, X), f"sorted({[str(t) for t in o.terms]})") for o in D.ops_of_class("Sort", leaf.columns)]
        elif meth == "chain":
            cases = [(lambda q=q: leaf.chain(q), X + D.rows_of(q), f"chain({q})") for q in ls[:12] if q.columns == leaf.columns]
        elif meth == "join":
            for q in ls[:10]:
                common = frozenset(t for t in q.columns & leaf.columns if t.is_key)
                if (q.columns & leaf.columns) - common:
                    continue
                for p in D.preds(sorted(leaf.columns | q.columns, key=str))[:4]:
                    cases.append((lambda q=q, p=p: leaf.join(q, p), D.join_rows(p, common, X, D.rows_of(q)), f"join({q}, {p})"))
        elif meth in ("materialized", "transferred_to"):
            other = iteration.Engine(name="E2")
            cases = [((lambda: leaf.materialized("m")) if meth == "materialized" else (lambda: leaf.transferred_to(other)), X, meth)]
        for call, want, what in cases:
            n += 1
            if n > budget:
                return None
            try:
                rel = call()
                if meth == "transferred_to":
                    have = D.rows_of(rel)
                    if rel.engine is not other:
                        return f"{leaf}.{what}: result engine is {rel.engine}"
                else:
                    # the returned tree is evaluated directly (replay/direct.py), not by the iteration engine: what execute() does with a tree
                    # is C01's subject (and carries known finding F8); here the question is which tree the factory built
                    have = D.rows_of(rel)
            except Exception as e:  # noqa: BLE001
                return f"{leaf}.{what} on rows {X} raised {type(e).__name__}: {e}"
            if not D.same_rows(have, want):
                return f"{leaf}.{what} on rows {X}: got {have}, documented meaning {want}"
    return None


def main():
    key, clause = sys.argv[1], sys.argv[2]
    budget = int(sys.argv[3]) if len(sys.argv) > 3 else 4000
    rng = random.Random(int(sys.argv[4]) if len(sys.argv) > 4 else 1)
    fn = key.split(":")[1]
    cls, _, meth = fn.partition(".")
    found = None
    if fn == "Engine.materialize" and key.startswith("sql."):
        found = search_materialize_names(clause, budget, rng)
        if found:
            reproduced(f"{key} / {clause}: {found}")
        not_reproduced(f"(bounded search, budget {budget})")
    if fn == "Diagnostics.run":
        found = search_diagnostics(clause, budget, rng)
    elif key.startswith("_relation:BaseRelation.") and meth in ("with_rows_satisfying", "with_calculated_column", "with_only_columns", "without_duplicates",
                                                              "sorted", "chain", "join", "materialized", "transferred_to"):
        found = search_factory(meth, clause, budget, rng)
    elif fn == "Transfer.simplify":
        found = search_transfer_simplify(clause, budget, rng)
    elif fn in ("Engine.materialize", "Materialization.simplify"):
        found = search_materialize(clause, budget, rng)
    elif key == "sql._engine:Engine.convert_predicate":
        # the generated SQL against Python's own membership test, on a real SQLite database (replay/bounded_range_sql.py)
        import runpy

        sys.argv = ["bounded_range_sql.py", "7"]
        runpy.run_path("/verif/replay/bounded_range_sql.py", run_name="__main__")
        return
    elif key.startswith("iteration._engine:") and meth.startswith("convert_"):
        found = search_convert(fn, clause, budget, rng)
    elif meth == "columns_required" and key.startswith("_operations."):
        found = search_columns_required(cls, clause, budget, rng)
    elif meth == "commute":
        found = search_commute(cls, clause, budget, rng)
    elif meth == "simplify":
        found = search_simplify(cls, clause, budget, rng)
    elif meth == "then":
        found = search_then(cls, clause, budget, rng)
    elif fn in ("Engine.transfer",) and key.startswith("_engine"):
        found = search_engine_transfer(clause, budget, rng)
    else:
        print("NOT-REPRODUCED no concretiser for", key)
        return
    if found:
        reproduced(f"{key} / {clause}: {found}")
    not_reproduced(f"(bounded search, budget {budget})")


if __name__ == "__main__":
    main()
