"""Direct evaluation of the property statements' semantics on concrete rows (native, /venv python).

Independent of the library's engines: operations, predicates and expressions are interpreted from
their dataclass fields only.  Used by the concretiser (stage 2) and by replay scripts as the oracle.
"""
from __future__ import annotations

import itertools
import operator

from lib import *  # noqa: F401,F403
import lsst.daf.relation as R
from lsst.daf.relation import (
    Calculation, Chain, ColumnExpressionSequence, ColumnFunction, ColumnInContainer, ColumnLiteral, ColumnRangeLiteral,
    ColumnReference, Deduplication, Identity, Join, LogicalAnd, LogicalNot, LogicalOr, PartialJoin, PredicateFunction,
    PredicateLiteral, PredicateReference, Projection, Selection, Slice, Sort,
)
from lsst.daf.relation import LeafRelation, UnaryOperationRelation, BinaryOperationRelation, MarkerRelation

_ARITH = {"__neg__": operator.neg, "__add__": operator.add, "__sub__": operator.sub, "__mul__": operator.mul}
_CMP = {"__eq__": operator.eq, "__ne__": operator.ne, "__lt__": operator.lt, "__le__": operator.le, "__gt__": operator.gt, "__ge__": operator.ge}


def evx(e, row):
    match e:
        case ColumnLiteral(value=v):
            return v
        case ColumnReference(tag=t):
            return row[t]
        case ColumnFunction(name=n, args=args):
            return _ARITH[n](*[evx(a, row) for a in args])
    raise TypeError(e)


def ev(p, row):
    match p:
        case PredicateLiteral(value=v):
            return bool(v)
        case PredicateReference(tag=t):
            return bool(row[t])
        case PredicateFunction(name=n, args=args):
            return bool(_CMP[n](*[evx(a, row) for a in args]))
        case LogicalNot(operand=o):
            return not ev(o, row)
        case LogicalAnd(operands=ops):
            return all(ev(o, row) for o in ops)
        case LogicalOr(operands=ops):
            return any(ev(o, row) for o in ops)
        case ColumnInContainer(item=item, container=c):
            v = evx(item, row)
            match c:
                case ColumnRangeLiteral(value=r):
                    return v in r
                case ColumnExpressionSequence(items=items):
                    return any(evx(i, row) == v for i in items)
    raise TypeError(p)


def fv(x):
    """Free columns, computed structurally (not via columns_required)."""
    match x:
        case ColumnLiteral() | PredicateLiteral() | ColumnRangeLiteral():
            return frozenset()
        case ColumnReference(tag=t) | PredicateReference(tag=t):
            return frozenset({t})
        case ColumnFunction(args=args) | PredicateFunction(args=args):
            return frozenset().union(*[fv(a) for a in args])
        case LogicalNot(operand=o):
            return fv(o)
        case LogicalAnd(operands=ops) | LogicalOr(operands=ops):
            return frozenset().union(*[fv(o) for o in ops]) if ops else frozenset()
        case ColumnInContainer(item=i, container=c):
            return fv(i) | fv(c)
        case ColumnExpressionSequence(items=items):
            return frozenset().union(*[fv(i) for i in items]) if items else frozenset()
    raise TypeError(x)


def freeze(row):
    return tuple(sorted(row.items(), key=lambda kv: str(kv[0])))


def join_rows(pred, common, X, Y):
    out = []
    for r in X:
        for s in Y:
            if all(r[k] == s[k] for k in common):
                m = {**r, **s}
                if ev(pred, m):
                    out.append(m)
    return out


def sem(op, rows, fixed_rows=None):
    """Rows of ``op`` applied to the row list ``rows`` (DESIGN 3.1)."""
    match op:
        case Identity():
            return list(rows)
        case Calculation(tag=t, expression=e):
            return [{**r, t: evx(e, r)} for r in rows]
        case Projection(columns=cols):
            return [{k: r[k] for k in cols} for r in rows]
        case Selection(predicate=p):
            return [r for r in rows if ev(p, r)]
        case Deduplication():
            seen, out = set(), []
            for r in rows:
                f = freeze(r)
                if f not in seen:
                    seen.add(f)
                    out.append(r)
            return out
        case Sort(terms=terms):
            out = list(rows)
            for t in reversed(terms):
                out.sort(key=lambda r, t=t: evx(t.expression, r), reverse=not t.ascending)
            return out
        case Slice(start=a, stop=b):
            return list(rows)[a:b]
        case PartialJoin(binary=j, fixed=fixed, fixed_is_lhs=is_lhs):
            F = rows_of(fixed)
            return join_rows(j.predicate, j.common_columns, F, rows) if is_lhs else join_rows(j.predicate, j.common_columns, rows, F)
    raise TypeError(op)


def rows_of(rel):
    """Direct evaluation of a relation tree whose leaves carry iteration payloads."""
    match rel:
        case LeafRelation(payload=p):
            return [dict(r) for r in p]
        case UnaryOperationRelation(operation=op, target=t):
            return sem(op, rows_of(t))
        case BinaryOperationRelation(operation=Chain(), lhs=l, rhs=r):
            return rows_of(l) + rows_of(r)
        case BinaryOperationRelation(operation=Join() as j, lhs=l, rhs=r):
            return join_rows(j.predicate, j.common_columns, rows_of(l), rows_of(r))
        case MarkerRelation(target=t):
            return rows_of(t)
    raise TypeError(rel)


def same_rows(a, b, ordered=True):
    fa, fb = [freeze(r) for r in a], [freeze(r) for r in b]
    return fa == fb if ordered else sorted(fa) == sorted(fb)


# --------------------------------------------------------------------------- small universes
A, Bt, Ct, Dt = Tag("a"), Tag("b"), Tag("c", is_key=False), Tag("d", is_key=False)
TAGS = (A, Bt, Ct)


def ref(t):
    return R.ColumnExpression.reference(t)


def lit(v):
    return R.ColumnExpression.literal(v)


def exprs(tags):
    out = [ref(t) for t in tags]
    out += [ref(t).method("__neg__") for t in tags[:2]]
    if len(tags) >= 2:
        out.append(ref(tags[0]).method("__add__", ref(tags[1])))
    out.append(ref(tags[0]).method("__mul__", lit(2)))
    return out


def preds(tags):
    out = [R.Predicate.literal(True), R.Predicate.literal(False)]
    for t in tags:
        out.append(ref(t).eq(lit(1)))
        out.append(ref(t).gt(lit(0)))
    if len(tags) >= 2:
        out.append(ref(tags[0]).lt(ref(tags[1])))
        out.append(ref(tags[0]).eq(lit(1)).logical_and(ref(tags[1]).eq(lit(1))))
        out.append(ref(tags[0]).eq(lit(0)).logical_or(ref(tags[1]).gt(lit(1))))
    out.append(ref(tags[0]).eq(lit(1)).logical_not())
    return out


def ops_of_class(name, cols, extra_tags=(Dt,), fixed=None):
    """A small family of operations of one class that are meaningful on a target with these columns."""
    cols = sorted(cols, key=str)
    match name:
        case "Identity":
            return [Identity()]
        case "Deduplication":
            return [Deduplication()]
        case "Slice":
            return [Slice(a, b) for a in (0, 1, 2) for b in (None, 1, 2, 3) if b is None or b >= a]
        case "Projection":
            return [Projection(frozenset(s)) for k in range(len(cols) + 1) for s in itertools.combinations(cols, k)]
        case "Selection":
            return [Selection(p) for p in preds(cols)] if cols else [Selection(R.Predicate.literal(False))]
        case "Calculation":
            return [Calculation(t, e) for t in extra_tags + tuple(TAGS) for e in exprs(cols)[:5]] if cols else []
        case "Sort":
            es = exprs(cols)[:4] if cols else []
            ts = [R.SortTerm(e, asc) for e in es for asc in (True, False)]
            return [Sort((t,)) for t in ts] + [Sort((t, u)) for t in ts[:4] for u in ts[:4] if t is not u]
        case "PartialJoin":
            out = []
            for fx in fixed or []:
                common = frozenset(t for t in fx.columns & frozenset(cols) if t.is_key)
                for p in (R.Predicate.literal(True),) + tuple(preds(sorted(frozenset(cols) | fx.columns, key=str))[2:4]):
                    for is_lhs in (False, True):
                        out.append(PartialJoin(Join(p, common, common), fx, is_lhs))
            return out
    raise KeyError(name)


def leaves(engine, max_rows=3):
    """Leaf relations over small schemas with duplicate rows and all row orders."""
    out = []
    for cols in [(A,), (A, Bt), (A, Ct), (A, Bt, Ct)]:
        universe = [dict(zip(cols, v)) for v in itertools.product((0, 1, 2), repeat=len(cols))][:6]
        for n in range(max_rows + 1):
            for combo in itertools.islice(itertools.product(universe, repeat=n), 0, 40):
                out.append(engine.make_leaf(set(cols), R.iteration.RowSequence(list(combo)), name="L" + "".join(str(c) for c in cols)))
    return out
