"""Native replay helpers (run under /venv/bin/python against the real lsst.daf.relation)."""
from __future__ import annotations

import dataclasses
import sys

import os
sys.path.insert(0, os.path.join(os.environ.get("PYVC_REPO", "/repo"), "python"))

from lsst.daf.relation import *  # noqa: F401,F403
from lsst.daf.relation import iteration, sql  # noqa: F401
import lsst.daf.relation as R


@dataclasses.dataclass(frozen=True)
class Tag:
    """A ColumnTag for replays."""

    qualified_name: str
    is_key: bool = True

    def __str__(self) -> str:
        return self.qualified_name

    def __repr__(self) -> str:
        return self.qualified_name

    def __lt__(self, other):
        return self.qualified_name < other.qualified_name


_tags: dict[str, Tag] = {}


def tag(desc) -> Tag:
    """Build a tag from a model description {'tag': 'Tag!val!0', 'is_key': bool} or a bare name."""
    if isinstance(desc, dict):
        name, key = desc["tag"], desc.get("is_key", True)
    else:
        name, key = str(desc), True
    name = name.replace("!val!", "")
    if name not in _tags:
        _tags[name] = Tag(name, key)
    return _tags[name]


def tagset(names) -> frozenset:
    return frozenset(tag(n) for n in (names or []))


def build(d):
    """Build a real object from a model description produced by pyvc.verify.ModelDescriber."""
    if d is None or isinstance(d, (int, bool, str)):
        return d
    if isinstance(d, list):
        return [build(x) for x in d]
    if "tag" in d and "class" not in d:
        return tag(d)
    if "len" in d and "items" in d:
        return tuple(build(x) for x in d["items"][: d["len"]])
    cls = d.get("class")
    if cls == "Slice":
        return R.Slice(d["start"], d["stop"])
    if cls == "Deduplication":
        return R.Deduplication()
    if cls == "Identity":
        return R.Identity()
    if cls == "Projection":
        return R.Projection(tagset(d.get("columns")))
    raise NotImplementedError(f"replay lib cannot build {d!r}")


def reproduced(msg: str) -> None:
    print("REPRODUCED:", msg)
    raise SystemExit(0)


def not_reproduced(msg: str = "") -> None:
    print("NOT-REPRODUCED", msg)
    raise SystemExit(0)
