"""Bounded stand-in (NOT a proof) for the assumptions of the C01 check:

 * class contracts of the generator-backed RowIterable classes (what iterating them yields, to_mapping, sliced,
   materialized, repeated iteration gives the same rows);
 * the summary of the Sort arm of iteration.Engine.execute (stable multi-key sort with per-term direction);
 * converted callables (convert_column_expression / convert_predicate / convert_column_container) agree with
   direct evaluation on the portable operator set.

usage: bounded_rowiter.py [N=4]   -> REPRODUCED: ... | NOT-REPRODUCED
"""
import itertools
import sys

sys.path.insert(0, "/verif/replay")
from direct import *  # noqa: F401,F403
import direct as D
from lsst.daf.relation import iteration
from lsst.daf.relation.iteration import _row_iterable as RI


def rowsets(cols, n):
    universe = [dict(zip(cols, v)) for v in itertools.product((0, 1, 2), repeat=len(cols))]
    for k in range(n + 1):
        for combo in itertools.islice(itertools.product(universe[:5], repeat=k), 0, 60):
            yield [dict(r) for r in combo]


def main():
    N = int(sys.argv[1]) if len(sys.argv) > 1 else 4
    E = iteration.Engine(name="E")
    cols = (D.A, D.Bt, D.Ct)
    checked = 0
    for rows in rowsets(cols, N):
        base = RI.RowSequence(rows)
        for it, want in (
            (RI.ProjectionRowIterable(base, {D.A, D.Ct}), [{k: r[k] for k in (D.A, D.Ct)} for r in rows]),
            (RI.SelectionRowIterable(base, lambda r: r[D.A] >= 1), [r for r in rows if r[D.A] >= 1]),
            (RI.CalculationRowIterable(base, D.Dt, lambda r: r[D.A] + r[D.Bt]), [{**r, D.Dt: r[D.A] + r[D.Bt]} for r in rows]),
            (RI.ChainRowIterable([base, RI.RowSequence(rows[:2])]), rows + rows[:2]),
            (base.materialized(), rows),
            (RI.SelectionRowIterable(base, lambda r: True).materialized(), rows),
        ):
            checked += 1
            if not D.same_rows(list(it), want) or not D.same_rows(list(it), want):
                reproduced(f"{type(it).__name__} over {rows} yields {list(it)}, expected {want}")
        for a, b in itertools.product((0, 1, 2, 5), (None, 0, 1, 3, 7)):
            if b is not None and b < a:
                continue
            for src in (base, RI.SelectionRowIterable(base, lambda r: True)):
                checked += 1
                got = list(src.sliced(a, b))
                if not D.same_rows(got, rows[a:b]):
                    reproduced(f"{type(src).__name__}.sliced({a}, {b}) over {rows} yields {got}, expected {rows[a:b]}")
        for key in ((D.A,), (D.A, D.Bt), (D.A, D.Bt, D.Ct)):
            checked += 1
            d = {}
            for r in rows:
                d[tuple(r[k] for k in key)] = r
            got = list(RI.SelectionRowIterable(base, lambda r: True).to_mapping(key))
            if not D.same_rows(got, list(d.values())):
                reproduced(f"to_mapping({key}) over {rows} yields {got}")
        leaf = E.make_leaf(set(cols), iteration.RowSequence([dict(r) for r in rows]), name="L")  # the oracle keeps its own copy of the rows
        for s in D.ops_of_class("Sort", cols)[:24]:
            checked += 1
            got = [dict(r) for r in E.execute(leaf.sorted(list(s.terms)))]
            if not D.same_rows(got, D.sem(s, rows)):
                reproduced(f"execute({leaf}.sorted({[str(t) for t in s.terms]})) over {rows} yields {got}, stable multi-key sort gives {D.sem(s, rows)}")
        # sharing: executing one relation must not disturb what another relation over the same payload yields
        for s in D.ops_of_class("Sort", cols)[:6]:
            checked += 1
            srt = leaf.sorted(list(s.terms))
            both = [dict(r) for r in E.execute(leaf.chain(srt))]
            if not D.same_rows(both, rows + D.sem(s, rows)):
                reproduced(f"execute({leaf}.chain({srt})) over {rows} yields {both}, expected {rows + D.sem(s, rows)}")
            list(E.execute(srt))
            again = [dict(r) for r in E.execute(leaf)]
            if not D.same_rows(again, rows):
                reproduced(f"after executing {srt}, execute({leaf}) yields {again} instead of {rows}")
            m = leaf.with_rows_satisfying(ref(D.A).gt(lit(-1))).materialized()
            first = [dict(r) for r in E.execute(m)]
            list(E.execute(m.sorted(list(s.terms))))
            if not D.same_rows([dict(r) for r in E.execute(m)], first):
                reproduced(f"after executing a sort of {m}, the materialization yields different rows")
    # converted callables
    allrows = [dict(zip(cols, v)) for v in itertools.product((-1, 0, 2), repeat=3)]
    for e in D.exprs(cols):
        f = E.convert_column_expression(e)
        for r in allrows:
            checked += 1
            if f(r) != D.evx(e, r):
                reproduced(f"convert_column_expression({e})({r}) = {f(r)} but the expression evaluates to {D.evx(e, r)}")
    ps = D.preds(cols)
    ps += [ref(D.A).eq(lit(1)).logical_and(ref(D.Bt).gt(lit(0)), ref(D.Ct).lt(lit(2))), R.Predicate.logical_or(*[ref(t).eq(lit(2)) for t in cols]),
           R.ColumnContainer.range_literal(range(-1, 3, 2)).contains(ref(D.A)), R.ColumnContainer.range_literal(range(2, -2, -1)).contains(ref(D.Bt)),
           R.ColumnContainer.sequence([lit(0), ref(D.Bt)]).contains(ref(D.A)), R.LogicalAnd(()), R.LogicalOr(())]
    for p in ps:
        f = E.convert_predicate(p)
        for r in allrows:
            checked += 1
            if bool(f(r)) != D.ev(p, r):
                reproduced(f"convert_predicate({p})({r}) = {f(r)} but the predicate evaluates to {D.ev(p, r)}")
    not_reproduced(f"({checked} cases, sequences up to length {N})")


if __name__ == "__main__":
    main()
