"""Bounded stand-in (NOT a proof) for the per-iteration clauses of C18 (and a cross-check of the proved one).

Random iteration-engine trees over leaves whose payloads count how often they are iterated:

  lazy      trees made only of calculation, projection, selection, slice and chain: execute() iterates no leaf
            payload; every full iteration of the result starts at most one iteration of each leaf occurrence
  eager     trees that also contain sort, deduplication and materialization: every leaf occurrence is iterated at
            most once by execute(), and the eager nodes' inputs are never iterated again by iterating the result
  repeat    iterating the result again yields identical rows (three passes)

usage: bounded_lazy.py [N_TREES=4000] [DEPTH=5]   -> REPRODUCED: ... | NOT-REPRODUCED ...
"""
from __future__ import annotations

import random
import sys

sys.path.insert(0, "/verif/replay")
from direct import *  # noqa: F401,F403
import direct as D
from lib import reproduced, not_reproduced
from lsst.daf.relation import iteration

LAZY = ["Calculation", "Projection", "Selection", "Slice"]
EAGER = ["Sort", "Deduplication"]


class Counted(iteration.RowIterable):
    """Leaf payload that counts the iterations started on it (deliberately not a MaterializedRowIterable)."""

    def __init__(self, rows):
        self.rows, self.count = rows, 0

    def __iter__(self):
        self.count += 1
        return iter(self.rows)

    def __len__(self):
        return len(self.rows)


class CountedMaterialized(iteration.MaterializedRowIterable):
    """The same, as an in-memory payload (MaterializedRowIterable but not a RowSequence)."""

    def __init__(self, rows):
        self.rows, self.count = rows, 0

    def __iter__(self):
        self.count += 1
        return iter(self.rows)

    def __len__(self):
        return len(self.rows)


def grow(rng, E, depth, classes, leaves):
    if depth == 0 or rng.random() < 0.2:
        cols = rng.choice([(D.A,), (D.A, D.Bt)])
        rows = [{c: rng.randrange(0, 3) for c in cols} for _ in range(rng.randrange(1, 5))]
        leaf = E.make_leaf(set(cols), rng.choice((Counted, CountedMaterialized))(rows), name=f"L{len(leaves)}")
        leaves.append(leaf)
        return leaf, False
    t, eager = grow(rng, E, depth - 1, classes, leaves)
    k = rng.random()
    try:
        if k < 0.70:
            cls = rng.choice(classes)
            ops = D.ops_of_class(cls, t.columns)
            if not ops:
                return t, eager
            r = rng.choice(ops).apply(t)
            return r, eager or (cls in EAGER and r is not t)
        if k < 0.80 and "Sort" in classes:
            r = t.materialized(f"m{rng.randrange(10**6)}")
            return r, eager or r is not t
        u, e2 = grow(rng, E, depth - 1, classes, leaves)
        if u.columns == t.columns:
            return t.chain(u), eager or e2
        return t, eager
    except (R.ColumnError, R.EngineError, R.RelationalAlgebraError):
        return t, eager


def occurrences(rel, leaf):
    match rel:
        case LeafRelation():
            return 1 if rel is leaf else 0
        case UnaryOperationRelation(target=t) | MarkerRelation(target=t):
            return occurrences(t, leaf)
        case BinaryOperationRelation(lhs=l, rhs=r):
            return occurrences(l, leaf) + occurrences(r, leaf)
    return 0


def main():
    n_trees = int(sys.argv[1]) if len(sys.argv) > 1 else 4000
    depth = int(sys.argv[2]) if len(sys.argv) > 2 else 5
    rng = random.Random(18)
    E = iteration.Engine(name="E")
    n_lazy = n_eager = 0
    for i in range(n_trees):
        lazy_only = i % 2 == 0
        leaves = []
        tree, eager = grow(rng, E, rng.randrange(1, depth + 1), LAZY if lazy_only else LAZY + EAGER, leaves)
        want = D.rows_of(tree)  # iterates the leaf payloads: reset afterwards
        for lf in leaves:
            lf.payload.count = 0
        statically_trivial = tree.max_rows == 0 or tree.is_join_identity
        try:
            result = E.execute(tree)
        except Exception as e:  # noqa: BLE001
            reproduced(f"execute({tree}) raised {type(e).__name__}: {e}")
        after_execute = {id(lf): lf.payload.count for lf in leaves}
        if not eager:
            n_lazy += 1
            for lf in leaves:
                if lf.payload.count:
                    reproduced(f"execute() of the lazy tree {tree} iterated the payload of {lf} {lf.payload.count} time(s)")
        else:
            n_eager += 1
            for lf in leaves:
                if lf.payload.count > occurrences(tree, lf):
                    reproduced(f"execute() of {tree} iterated the payload of {lf} {lf.payload.count} times for {occurrences(tree, lf)} occurrence(s)")
        passes = []
        for k in range(3):
            before = {id(lf): lf.payload.count for lf in leaves}
            passes.append([dict(r) for r in result])
            for lf in leaves:
                started = lf.payload.count - before[id(lf)]
                if started > occurrences(tree, lf):
                    reproduced(f"one full iteration of execute({tree}) started {started} iterations of {lf} ({occurrences(tree, lf)} occurrence(s))")
        if passes[0] != passes[1] or passes[1] != passes[2]:
            reproduced(f"repeated iteration of execute({tree}) gives different rows: {passes}")
        if not statically_trivial and not any(isinstance(op, Deduplication) for op in _ops(tree)) and not D.same_rows(passes[0], want):
            reproduced(f"execute({tree}) yields {passes[0]}, direct evaluation gives {want}")
        # eager nodes consumed their input at execute time: with an eager node at the root, iterating the result touches no leaf
        if isinstance(tree, (UnaryOperationRelation, Materialization)) and (isinstance(tree, Materialization) or isinstance(tree.operation, (Sort, Deduplication))) and not statically_trivial:
            for lf in leaves:
                if lf.payload.count != after_execute[id(lf)]:
                    reproduced(f"iterating the result of the eager root of {tree} iterated leaf {lf} again")
    if n_lazy < n_trees // 4 or n_eager < n_trees // 8:
        print(f"bounded_lazy: vacuous run ({n_lazy} lazy, {n_eager} eager trees)")
        sys.exit(3)
    not_reproduced(f"{n_lazy} lazy and {n_eager} eager trees (depth <= {depth}), three passes each")


def _ops(rel):
    match rel:
        case UnaryOperationRelation(operation=op, target=t):
            yield op
            yield from _ops(t)
        case MarkerRelation(target=t):
            yield from _ops(t)
        case BinaryOperationRelation(lhs=l, rhs=r):
            yield from _ops(l)
            yield from _ops(r)


if __name__ == "__main__":
    main()
